/-
  MdModel.Encode — C02: an abstract model of a minidump (`DumpModel`), a SERIALIZER
  `encode : DumpModel → Endian → MemForm → Bytes`, the reader's view of a file as an abstract model
  again (`decode : Bytes → Res Reported`, built from the stream readers of `MdModel.Dump`), the model
  "as the reader reports it" (`report`), the identifier derivations of `minidump/src/minidump.rs`
  (`read_debug_id` [795], `code_identifier` [1085], `debug_file` [1130], `version` [1142]) and the
  `memory_at_address` + `get_memory_at_address` lookup (through C08's range table).

  File layout produced by `encode` (deliberately different from minidump-synth's, which puts the
  directory last and interleaves streams and data):

      header (32) | directory (12·k) | stream_1 … stream_k | out-of-band data
      out-of-band = thread contexts+stacks | module names+CodeView | memory bytes | thread names
                  | unloaded-module names | exception context | CSD version string

  Directory order: the raw `extra` streams first (so a duplicate type is overridden by the real one:
  the LAST entry of a type is served), then thread list, module list, memory list (type 5) or
  memory-64 list (type 9), memory-info list, thread names, unloaded modules, exception?, system info?.

  then the optional streams: exception?, system info?, misc info?, handle data?, Linux maps?,
  Crashpad info? (each present iff the model has it).
  CPU contexts are carried as raw bytes (their interpretation is C18's tables + the engine's oracle).

  System info is not decoded by `MdModel.Dump`; its reader lives here (`readSystemInfo`, with the
  hand-written layout `SYSTEM_INFO_LAYOUT` tied to format.rs by `translators/layouts_c02.py` →
  `MdModel.Gen.LayoutsC02`).
  Core-only imports.
-/
import MdModel.Prelude
import MdModel.Dump
import MdModel.Dump2
import MdModel.RangeMap
import MdModel.Gen.LayoutsC02
namespace MdModel.Encode
open MdModel MdModel.Dump MdModel.Gen.Layouts MdModel.Gen.LayoutsC02

/-! ## the abstract model -/

inductive MemForm where
  | mem     -- MemoryListStream (type 5): one RVA per region
  | mem64   -- Memory64ListStream (type 9): consecutive bytes from one base RVA
  deriving DecidableEq, Repr, Inhabited

structure MThread where
  id : Nat
  suspend : Nat
  prioClass : Nat
  prio : Nat
  teb : Nat
  stackBase : Nat
  stack : List UInt8
  ctx : List UInt8
  deriving DecidableEq, Repr

/-- CodeView record. `unknown sig rest`: a record whose first u32 (in the dump's byte order) is not
    one of the three known signatures. -/
inductive MCv where
  | pdb70 (d1 d2 d3 : Nat) (d4 : List UInt8) (age : Nat) (file : List UInt8)
  | pdb20 (offset sig age : Nat) (file : List UInt8)
  | elf (buildId : List UInt8)
  | unknown (sig : Nat) (rest : List UInt8)
  deriving DecidableEq, Repr

structure MModule where
  base : Nat
  size : Nat
  checksum : Nat
  time : Nat
  /-- the 13 u32 of `VS_FIXEDFILEINFO` -/
  ver : List Nat
  /-- Unicode scalar values -/
  name : List Nat
  cv : Option MCv
  deriving DecidableEq, Repr

structure MRegion where
  base : Nat
  bytes : List UInt8
  deriving DecidableEq, Repr

structure MMemInfo where
  base : Nat
  allocBase : Nat
  allocProt : Nat
  size : Nat
  state : Nat
  prot : Nat
  ty : Nat
  deriving DecidableEq, Repr

structure MUnloaded where
  base : Nat
  size : Nat
  checksum : Nat
  time : Nat
  name : List Nat
  deriving DecidableEq, Repr

structure MException where
  threadId : Nat
  code : Nat
  flags : Nat
  record : Nat
  address : Nat
  numberParameters : Nat
  /-- 15 u64 -/
  info : List Nat
  ctx : List UInt8
  deriving DecidableEq, Repr

structure MSysInfo where
  arch : Nat       -- u16
  level : Nat      -- u16
  revision : Nat   -- u16
  nproc : Nat      -- u8
  productType : Nat -- u8
  major : Nat
  minor : Nat
  build : Nat
  platform : Nat
  suite : Nat      -- u16
  /-- `CPU_INFORMATION.data: [u8; 24]`, raw -/
  cpu : List UInt8
  /-- the CSD version string (scalar values) -/
  csd : List Nat
  deriving DecidableEq, Repr

/-- `MINIDUMP_MISC_INFO*`: which of the five revisions is written, its scalar values in layout
    order (flag-guarded fields may hold anything, whatever `flags1` says), and bytes that follow
    the struct inside the stream (a reader picks the revision by the stream's length alone) -/
structure MMiscInfo where
  ver : Nat
  vals : List Nat
  tail : List UInt8
  deriving DecidableEq, Repr

/-- one element of a handle's object-information chain: `info_type`, `size_of_info` -/
structure MObjInfo where
  ty : Nat
  size : Nat
  deriving DecidableEq, Repr

structure MHandle where
  handle : Nat
  typeName : Option (List Nat)
  objectName : Option (List Nat)
  attributes : Nat
  grantedAccess : Nat
  handleCount : Nat
  pointerCount : Nat
  /-- only written (and read) with `MINIDUMP_HANDLE_DESCRIPTOR_2` -/
  infos : List MObjInfo
  deriving DecidableEq, Repr

/-- the handle-data stream: descriptors of the first (32 bytes) or the second (40 bytes) kind -/
structure MHandleData where
  v2 : Bool
  handles : List MHandle
  deriving DecidableEq, Repr

/-- a Crashpad annotation object: its name and, by type, nothing (`TYPE_INVALID`), a string
    (`TYPE_STRING`), or the raw value word (any other type: user-defined from 0x8000 on) -/
inductive MAnnotation where
  | invalid (name : List UInt8)
  | string (name value : List UInt8)
  | other (name : List UInt8) (ty value : Nat)
  deriving DecidableEq, Repr

/-- `MINIDUMP_MODULE_CRASHPAD_INFO` of one module, strings as UTF-8 bytes, items in file order -/
structure MModuleCrashpad where
  index : Nat
  version : Nat
  listAnnotations : List (List UInt8)
  simpleAnnotations : List (List UInt8 × List UInt8)
  annotationObjects : List MAnnotation
  deriving DecidableEq, Repr

structure MCrashpad where
  version : Nat
  /-- `report_id`, `client_id`: the 11 scalars of a `GUID` each -/
  reportId : List Nat
  clientId : List Nat
  simpleAnnotations : List (List UInt8 × List UInt8)
  modules : List MModuleCrashpad
  deriving DecidableEq, Repr

structure DumpModel where
  flags : Nat
  /-- 4 bytes of padding between the count and the entries of the four `read_stream_list` streams -/
  pad : Bool
  threads : List MThread
  modules : List MModule
  memory : List MRegion
  memInfo : List MMemInfo
  threadNames : List (Nat × List Nat)
  unloaded : List MUnloaded
  exception : Option MException
  sysInfo : Option MSysInfo
  /-- raw streams (type, bytes) listed FIRST in the directory -/
  extra : List (Nat × List UInt8)
  miscInfo : Option MMiscInfo := none
  handles : Option MHandleData := none
  /-- the entries of `/proc/<pid>/maps` (the `LinuxMaps` text stream) -/
  linuxMaps : Option (List MapEntry) := none
  crashpad : Option MCrashpad := none
  deriving DecidableEq, Repr

/-! ## integers and records -/

/-- the low `w` bytes of `v`, least significant first -/
def leBytes : Nat → Nat → List UInt8
  | 0, _ => []
  | w + 1, v => UInt8.ofNat (v % 256) :: leBytes w (v / 256)

/-- `v` as a `w`-byte integer in byte order `e` -/
def encNat (e : Endian) (w v : Nat) : List UInt8 :=
  match e with
  | .little => leBytes w v
  | .big => (leBytes w v).reverse

/-- a fixed-layout record: the values in layout order (missing values are written as 0) -/
def encFields (e : Endian) : Layout → List Nat → List UInt8
  | [], _ => []
  | (_, w) :: rest, [] => encNat e w 0 ++ encFields e rest []
  | (_, w) :: rest, v :: vs => encNat e w v ++ encFields e rest vs

def encRecords (e : Endian) (l : Layout) (recs : List (List Nat)) : List UInt8 :=
  recs.flatMap (encFields e l)

/-- UTF-16 code units of a scalar value -/
def utf16UnitsOf (c : Nat) : List Nat :=
  if c < 0x10000 then [c]
  else [0xD800 + (c - 0x10000) / 1024, 0xDC00 + (c - 0x10000) % 1024]

def encUnits (e : Endian) (us : List Nat) : List UInt8 := us.flatMap (encNat e 2)

/-- `MINIDUMP_STRING`: u32 byte length, UTF-16 code units (no terminator) -/
def encString (e : Endian) (cs : List Nat) : List UInt8 :=
  let us := cs.flatMap utf16UnitsOf
  encNat e 4 (2 * us.length) ++ encUnits e us

def stringSize (cs : List Nat) : Nat := 4 + 2 * (cs.flatMap utf16UnitsOf).length

/-- the CodeView record bytes -/
def encCv (e : Endian) : MCv → List UInt8
  | .pdb70 d1 d2 d3 d4 age file =>
    encNat e 4 CV_SIGNATURE_PDB70 ++ encNat e 4 d1 ++ encNat e 2 d2 ++ encNat e 2 d3 ++ d4 ++ encNat e 4 age ++ file
  | .pdb20 off sig age file =>
    encNat e 4 CV_SIGNATURE_PDB20 ++ encNat e 4 off ++ encNat e 4 sig ++ encNat e 4 age ++ file
  | .elf bid => encNat e 4 CV_SIGNATURE_ELF ++ bid
  | .unknown sig rest => encNat e 4 sig ++ rest

def cvSize : MCv → Nat
  | .pdb70 _ _ _ d4 _ file => 4 + 4 + 2 + 2 + d4.length + 4 + file.length
  | .pdb20 _ _ _ file => 16 + file.length
  | .elf bid => 4 + bid.length
  | .unknown _ rest => 4 + rest.length

/-! ## stream types -/

def ST_SYSTEM_INFO : Nat := ST_SystemInfoStream

/-- stream header of the four `read_stream_list` lists: u32 count (+ 4 bytes of padding) -/
def listHeader (e : Endian) (pad : Bool) (n : Nat) : List UInt8 :=
  encNat e 4 n ++ (if pad then [0, 0, 0, 0] else [])

def listHeaderSize (pad : Bool) : Nat := if pad then 8 else 4

/-- header of the `read_ex_stream_list` lists: header size 12, entry size, count -/
def exListHeader (e : Endian) (entry n : Nat) : List UInt8 :=
  encNat e 4 12 ++ encNat e 4 entry ++ encNat e 4 n

/-! ### threads: out-of-band = ctx_0 ++ stack_0 ++ ctx_1 ++ stack_1 … -/

def oobThreads : List MThread → List UInt8
  | [] => []
  | t :: ts => t.ctx ++ t.stack ++ oobThreads ts

/-- the `MINIDUMP_THREAD` records; `off` = file offset of this thread's out-of-band data -/
def threadRecs : Nat → List MThread → List (List Nat)
  | _, [] => []
  | off, t :: ts =>
    [t.id, t.suspend, t.prioClass, t.prio, t.teb, t.stackBase,
     t.stack.length, off + t.ctx.length, t.ctx.length, off] ::
      threadRecs (off + t.ctx.length + t.stack.length) ts

def encThreadList (e : Endian) (pad : Bool) (off : Nat) (ts : List MThread) : List UInt8 :=
  listHeader e pad ts.length ++ encRecords e MINIDUMP_THREAD (threadRecs off ts)

/-! ### modules: out-of-band = name_0 ++ cv_0 ++ name_1 ++ cv_1 … -/

def oobModule (e : Endian) (m : MModule) : List UInt8 :=
  encString e m.name ++ (match m.cv with | none => [] | some cv => encCv e cv)

def oobModuleSize (m : MModule) : Nat :=
  stringSize m.name + (match m.cv with | none => 0 | some cv => cvSize cv)

def oobModules (e : Endian) : List MModule → List UInt8
  | [] => []
  | m :: ms => oobModule e m ++ oobModules e ms

def moduleRec (off : Nat) (m : MModule) : List Nat :=
  [m.base, m.size, m.checksum, m.time, off] ++ (m.ver ++ List.replicate (13 - m.ver.length) 0).take 13 ++
  (match m.cv with
   | none => [0, 0]
   | some cv => [cvSize cv, off + stringSize m.name]) ++ [0, 0, 0, 0, 0, 0]

def moduleRecs : Nat → List MModule → List (List Nat)
  | _, [] => []
  | off, m :: ms => moduleRec off m :: moduleRecs (off + oobModuleSize m) ms

def encModuleList (e : Endian) (pad : Bool) (off : Nat) (ms : List MModule) : List UInt8 :=
  listHeader e pad ms.length ++ encRecords e MINIDUMP_MODULE (moduleRecs off ms)

/-! ### memory: out-of-band = bytes_0 ++ bytes_1 … (both forms) -/

def oobMemory : List MRegion → List UInt8
  | [] => []
  | r :: rs => r.bytes ++ oobMemory rs

def memRecs : Nat → List MRegion → List (List Nat)
  | _, [] => []
  | off, r :: rs => [r.base, r.bytes.length, off] :: memRecs (off + r.bytes.length) rs

def mem64Recs (rs : List MRegion) : List (List Nat) := rs.map fun r => [r.base, r.bytes.length]

def encMemoryList (e : Endian) (pad : Bool) (off : Nat) (rs : List MRegion) : List UInt8 :=
  listHeader e pad rs.length ++ encRecords e MINIDUMP_MEMORY_DESCRIPTOR (memRecs off rs)

def encMemory64List (e : Endian) (off : Nat) (rs : List MRegion) : List UInt8 :=
  encNat e 8 rs.length ++ encNat e 8 off ++ encRecords e MINIDUMP_MEMORY_DESCRIPTOR64 (mem64Recs rs)

/-! ### memory info (no out-of-band data) -/

def memInfoRec (i : MMemInfo) : List Nat :=
  [i.base, i.allocBase, i.allocProt, 0, i.size, i.state, i.prot, i.ty, 0]

def encMemInfoList (e : Endian) (is : List MMemInfo) : List UInt8 :=
  exListHeader e (Layout.size MINIDUMP_MEMORY_INFO) is.length ++
    encRecords e MINIDUMP_MEMORY_INFO (is.map memInfoRec)

/-! ### thread names / unloaded modules: out-of-band = the strings -/

def oobNames (e : Endian) : List (List Nat) → List UInt8
  | [] => []
  | n :: ns => encString e n ++ oobNames e ns

def nameRecs : Nat → List (Nat × List Nat) → List (List Nat)
  | _, [] => []
  | off, (id, n) :: ns => [id, off] :: nameRecs (off + stringSize n) ns

def encThreadNames (e : Endian) (pad : Bool) (off : Nat) (ns : List (Nat × List Nat)) : List UInt8 :=
  listHeader e pad ns.length ++ encRecords e MINIDUMP_THREAD_NAME (nameRecs off ns)

def unloadedRecs : Nat → List MUnloaded → List (List Nat)
  | _, [] => []
  | off, u :: us => [u.base, u.size, u.checksum, u.time, off] :: unloadedRecs (off + stringSize u.name) us

def encUnloadedList (e : Endian) (off : Nat) (us : List MUnloaded) : List UInt8 :=
  exListHeader e (Layout.size MINIDUMP_UNLOADED_MODULE) us.length ++
    encRecords e MINIDUMP_UNLOADED_MODULE (unloadedRecs off us)

/-! ### exception, system info -/

def exceptionRec (off : Nat) (x : MException) : List Nat :=
  [x.threadId, 0, x.code, x.flags, x.record, x.address, x.numberParameters, 0] ++
  (x.info ++ List.replicate (15 - x.info.length) 0).take 15 ++ [x.ctx.length, off]

def encException (e : Endian) (off : Nat) (x : MException) : List UInt8 :=
  encFields e MINIDUMP_EXCEPTION_STREAM (exceptionRec off x)

/-- `MINIDUMP_SYSTEM_INFO` flattened (format.rs); `cpu.data` is 24 single bytes. Tied to format.rs
    by `MdModel.Gen.LayoutsC02.MINIDUMP_SYSTEM_INFO` (`sysinfo_layout_generated`, by `decide`,
    in MdProofs.C02). -/
def SYSTEM_INFO_LAYOUT : Layout :=
  [("processor_architecture", 2), ("processor_level", 2), ("processor_revision", 2),
   ("number_of_processors", 1), ("product_type", 1), ("major_version", 4), ("minor_version", 4),
   ("build_number", 4), ("platform_id", 4), ("csd_version_rva", 4), ("suite_mask", 2), ("reserved2", 2)] ++
  (List.range 24).map fun i => (s!"cpu.data[{i}]", 1)

def cpuBytes (s : MSysInfo) : List UInt8 := (s.cpu ++ List.replicate (24 - s.cpu.length) 0).take 24

def sysInfoRec (off : Nat) (s : MSysInfo) : List Nat :=
  [s.arch, s.level, s.revision, s.nproc, s.productType, s.major, s.minor, s.build, s.platform, off, s.suite, 0] ++
  (cpuBytes s).map (·.toNat)

def encSysInfo (e : Endian) (off : Nat) (s : MSysInfo) : List UInt8 :=
  encFields e SYSTEM_INFO_LAYOUT (sysInfoRec off s)

/-! ### misc info (no out-of-band data) -/

def ST_MISC_INFO : Nat := ST_MiscInfoStream

def encMiscInfo (e : Endian) (x : MMiscInfo) : List UInt8 :=
  encFields e (miscLayout x.ver) x.vals ++ x.tail

def miscInfoSize (x : MMiscInfo) : Nat := Layout.size (miscLayout x.ver) + x.tail.length

/-! ### handle data: out-of-band = per handle: type name?, object name?, the object-info chain -/

def ST_HANDLE_DATA_STREAM : Nat := ST_HandleDataStream

def optStringSize : Option (List Nat) → Nat
  | none => 0
  | some n => stringSize n

def encOptString (e : Endian) : Option (List Nat) → List UInt8
  | none => []
  | some n => encString e n

/-- the chain of `MINIDUMP_HANDLE_OBJECT_INFORMATION` records starting at file offset `base`; each
    cites the next one, the last cites 0 -/
def encInfos (e : Endian) : Nat → List MObjInfo → List UInt8
  | _, [] => []
  | _, [i] => encFields e MINIDUMP_HANDLE_OBJECT_INFORMATION [0, i.ty, i.size]
  | base, i :: j :: rest =>
    encFields e MINIDUMP_HANDLE_OBJECT_INFORMATION [base + 12, i.ty, i.size] ++ encInfos e (base + 12) (j :: rest)

def handleInfos (v2 : Bool) (h : MHandle) : List MObjInfo := if v2 then h.infos else []

def oobHandleSize (v2 : Bool) (h : MHandle) : Nat :=
  optStringSize h.typeName + optStringSize h.objectName + 12 * (handleInfos v2 h).length

def oobHandle (e : Endian) (v2 : Bool) (off : Nat) (h : MHandle) : List UInt8 :=
  encOptString e h.typeName ++ encOptString e h.objectName ++
    encInfos e (off + optStringSize h.typeName + optStringSize h.objectName) (handleInfos v2 h)

def oobHandles (e : Endian) (v2 : Bool) : Nat → List MHandle → List UInt8
  | _, [] => []
  | off, h :: hs => oobHandle e v2 off h ++ oobHandles e v2 (off + oobHandleSize v2 h) hs

def oobHandlesSize (v2 : Bool) : List MHandle → Nat
  | [] => 0
  | h :: hs => oobHandleSize v2 h + oobHandlesSize v2 hs

/-- the RVA an optional item is cited with: 0 when absent -/
def optOff {α : Type} (o : Option α) (off : Nat) : Nat :=
  match o with
  | none => 0
  | some _ => off

/-- the descriptor of a handle whose out-of-band data start at `off`; an absent name / an empty
    chain is cited as RVA 0 -/
def handleRec (v2 : Bool) (off : Nat) (h : MHandle) : List Nat :=
  [h.handle, optOff h.typeName off, optOff h.objectName (off + optStringSize h.typeName),
   h.attributes, h.grantedAccess, h.handleCount, h.pointerCount] ++
  (if v2 then
    [(if (handleInfos v2 h).isEmpty then 0 else off + optStringSize h.typeName + optStringSize h.objectName), 0]
   else [])

def handleRecs (v2 : Bool) : Nat → List MHandle → List (List Nat)
  | _, [] => []
  | off, h :: hs => handleRec v2 off h :: handleRecs v2 (off + oobHandleSize v2 h) hs

def handleLayout (v2 : Bool) : Layout := if v2 then MINIDUMP_HANDLE_DESCRIPTOR_2 else MINIDUMP_HANDLE_DESCRIPTOR
def handleDescSize (v2 : Bool) : Nat := if v2 then 40 else 32

/-- `MINIDUMP_HANDLE_DATA_STREAM` header (16 bytes) + the descriptors -/
def encHandleData (e : Endian) (off : Nat) (x : MHandleData) : List UInt8 :=
  encFields e MINIDUMP_HANDLE_DATA_STREAM [16, handleDescSize x.v2, x.handles.length, 0] ++
    encRecords e (handleLayout x.v2) (handleRecs x.v2 off x.handles)

def handleDataSize (x : MHandleData) : Nat := 16 + handleDescSize x.v2 * x.handles.length

/-! ### Linux maps: a text stream, one line per entry (no out-of-band data)

    `<lo:016x>-<hi:016x> <perms> <offset:016x> <major:08x>:<minor:08x> <inode:020> <path>\n` — fixed
    widths, lower-case hex (the kernel pads differently; the parser does not care). -/

def ST_LINUX_MAPS : Nat := ST_LinuxMaps

def digitByte (d : Nat) : UInt8 := if d < 10 then UInt8.ofNat (48 + d) else UInt8.ofNat (87 + d)

/-- exactly `w` digits of `n` in base `b` (≤ 16), most significant first -/
def fixedDigits (b : Nat) : Nat → Nat → List UInt8
  | 0, _ => []
  | w + 1, n => fixedDigits b w (n / b) ++ [digitByte (n % b)]

/-- `rwx` or `-` each, then `s` and/or `p` (a `-` when neither) -/
def encPerms (p : Nat) : List UInt8 :=
  [if p % 2 = 1 then 114 else 45, if p / 2 % 2 = 1 then 119 else 45, if p / 4 % 2 = 1 then 120 else 45] ++
  (if p / 8 % 2 = 1 then [115] else []) ++ (if p / 16 % 2 = 1 then [112] else []) ++
  (if p / 8 % 4 = 0 then [45] else [])

def encMapPath : MapPath → List UInt8
  | .path p => p
  | .heap => S_HEAP
  | .stack => S_STACK
  | .tstack tid => S_STACK_COLON ++ fixedDigits 10 10 tid ++ [93]
  | .vdso => S_VDSO
  | .vvar => S_VVAR
  | .vsyscall => S_VSYSCALL
  | .rollup => S_ROLLUP
  | .anonymous => []
  | .vsys key => S_SYSV ++ fixedDigits 16 8 key
  | .other s => [91] ++ s ++ [93]

/-- one line without its terminator -/
def mapLineBody (x : MapEntry) : List UInt8 :=
  fixedDigits 16 16 x.lo ++ [45] ++ fixedDigits 16 16 x.hi ++ [32] ++ encPerms x.perms ++ [32] ++
  fixedDigits 16 16 x.offset ++ [32] ++ fixedDigits 16 8 x.devMajor ++ [58] ++ fixedDigits 16 8 x.devMinor ++ [32] ++
  fixedDigits 10 20 x.inode ++ [32] ++ encMapPath x.path

def encLinuxMaps : List MapEntry → List UInt8
  | [] => []
  | x :: xs => mapLineBody x ++ [10] ++ encLinuxMaps xs

/-! ### Crashpad info

    stream = `MINIDUMP_CRASHPAD_INFO` (52 bytes); out-of-band, in this order:
      dictionary block   = count | (key RVA, value RVA)* | (key, value as MINIDUMP_UTF8_STRING)*
      module-list block  = count | (index, location)* | per module:
        MINIDUMP_MODULE_CRASHPAD_INFO (28 bytes) | string-list block | dictionary block | annotation block
      string-list block  = count | RVA* | strings
      annotation block   = count | (name RVA, type, reserved, value)* | per object: name, [string value]
    A location descriptor covers count + records only; the strings are cited by RVA. -/

def ST_CRASHPAD : Nat := ST_CrashpadInfoStream

/-- `MINIDUMP_UTF8_STRING`: u32 length, the bytes, a NUL -/
def encUtf8 (e : Endian) (s : List UInt8) : List UInt8 := encNat e 4 s.length ++ s ++ [0]
def utf8Size (s : List UInt8) : Nat := 5 + s.length
/-- the same without the terminator (the value of a string annotation object) -/
def encUtf8U (e : Endian) (s : List UInt8) : List UInt8 := encNat e 4 s.length ++ s
def utf8USize (s : List UInt8) : Nat := 4 + s.length

def RVA_LAYOUT : Layout := [("rva", 4)]

/-! string list -/
def listStrings (e : Endian) : List (List UInt8) → List UInt8
  | [] => []
  | s :: ss => encUtf8 e s ++ listStrings e ss
def listStringsSize : List (List UInt8) → Nat
  | [] => 0
  | s :: ss => utf8Size s + listStringsSize ss
def listRecs : Nat → List (List UInt8) → List (List Nat)
  | _, [] => []
  | soff, s :: ss => [soff] :: listRecs (soff + utf8Size s) ss
def listBlock (e : Endian) (off : Nat) (ss : List (List UInt8)) : List UInt8 :=
  encNat e 4 ss.length ++ encRecords e RVA_LAYOUT (listRecs (off + 4 + 4 * ss.length) ss) ++ listStrings e ss
def listBlockSize (ss : List (List UInt8)) : Nat := 4 + 4 * ss.length + listStringsSize ss

/-! simple string dictionary -/
def dictStrings (e : Endian) : List (List UInt8 × List UInt8) → List UInt8
  | [] => []
  | (k, v) :: r => encUtf8 e k ++ encUtf8 e v ++ dictStrings e r
def dictStringsSize : List (List UInt8 × List UInt8) → Nat
  | [] => 0
  | (k, v) :: r => utf8Size k + utf8Size v + dictStringsSize r
def dictRecs : Nat → List (List UInt8 × List UInt8) → List (List Nat)
  | _, [] => []
  | soff, (k, v) :: r => [soff, soff + utf8Size k] :: dictRecs (soff + utf8Size k + utf8Size v) r
def dictBlock (e : Endian) (off : Nat) (d : List (List UInt8 × List UInt8)) : List UInt8 :=
  encNat e 4 d.length ++ encRecords e MINIDUMP_SIMPLE_STRING_DICTIONARY_ENTRY (dictRecs (off + 4 + 8 * d.length) d) ++
    dictStrings e d
def dictBlockSize (d : List (List UInt8 × List UInt8)) : Nat := 4 + 8 * d.length + dictStringsSize d

/-! annotation objects -/
def MAnnotation.name : MAnnotation → List UInt8
  | .invalid n => n
  | .string n _ => n
  | .other n _ _ => n
def annStringsOf (e : Endian) (a : MAnnotation) : List UInt8 :=
  encUtf8 e a.name ++ (match a with | .string _ v => encUtf8U e v | _ => [])
def annStringsSizeOf (a : MAnnotation) : Nat :=
  utf8Size a.name + (match a with | .string _ v => utf8USize v | _ => 0)
def annStrings (e : Endian) : List MAnnotation → List UInt8
  | [] => []
  | a :: r => annStringsOf e a ++ annStrings e r
def annStringsSize : List MAnnotation → Nat
  | [] => 0
  | a :: r => annStringsSizeOf a + annStringsSize r
def annRec (soff : Nat) : MAnnotation → List Nat
  | .invalid _ => [soff, ANNOTATION_TYPE_INVALID, 0, 0]
  | .string n _ => [soff, ANNOTATION_TYPE_STRING, 0, soff + utf8Size n]
  | .other _ ty v => [soff, ty, 0, v]
def annRecs : Nat → List MAnnotation → List (List Nat)
  | _, [] => []
  | soff, a :: r => annRec soff a :: annRecs (soff + annStringsSizeOf a) r
def annBlock (e : Endian) (off : Nat) (as : List MAnnotation) : List UInt8 :=
  encNat e 4 as.length ++ encRecords e MINIDUMP_ANNOTATION (annRecs (off + 4 + 12 * as.length) as) ++ annStrings e as
def annBlockSize (as : List MAnnotation) : Nat := 4 + 12 * as.length + annStringsSize as

/-! one module, the module list, the whole out-of-band group -/
def modBlockSize (x : MModuleCrashpad) : Nat :=
  28 + listBlockSize x.listAnnotations + dictBlockSize x.simpleAnnotations + annBlockSize x.annotationObjects

def modRec (off : Nat) (x : MModuleCrashpad) : List Nat :=
  let la := off + 28
  let sa := la + listBlockSize x.listAnnotations
  let ao := sa + dictBlockSize x.simpleAnnotations
  [x.version, 4 + 4 * x.listAnnotations.length, la, 4 + 8 * x.simpleAnnotations.length, sa,
   4 + 12 * x.annotationObjects.length, ao]

def modBlock (e : Endian) (off : Nat) (x : MModuleCrashpad) : List UInt8 :=
  let la := off + 28
  let sa := la + listBlockSize x.listAnnotations
  let ao := sa + dictBlockSize x.simpleAnnotations
  encFields e MINIDUMP_MODULE_CRASHPAD_INFO (modRec off x) ++ listBlock e la x.listAnnotations ++
    dictBlock e sa x.simpleAnnotations ++ annBlock e ao x.annotationObjects

def modBlocks (e : Endian) : Nat → List MModuleCrashpad → List UInt8
  | _, [] => []
  | off, x :: xs => modBlock e off x ++ modBlocks e (off + modBlockSize x) xs
def modBlocksSize : List MModuleCrashpad → Nat
  | [] => 0
  | x :: xs => modBlockSize x + modBlocksSize xs
def linkRecs : Nat → List MModuleCrashpad → List (List Nat)
  | _, [] => []
  | off, x :: xs => [x.index, 28, off] :: linkRecs (off + modBlockSize x) xs
def modListBlock (e : Endian) (off : Nat) (xs : List MModuleCrashpad) : List UInt8 :=
  encNat e 4 xs.length ++ encRecords e MINIDUMP_MODULE_CRASHPAD_INFO_LINK (linkRecs (off + 4 + 12 * xs.length) xs) ++
    modBlocks e (off + 4 + 12 * xs.length) xs
def modListBlockSize (xs : List MModuleCrashpad) : Nat := 4 + 12 * xs.length + modBlocksSize xs

def crashpadOobOf (e : Endian) (off : Nat) (x : MCrashpad) : List UInt8 :=
  dictBlock e off x.simpleAnnotations ++ modListBlock e (off + dictBlockSize x.simpleAnnotations) x.modules
def crashpadOobSizeOf (x : MCrashpad) : Nat := dictBlockSize x.simpleAnnotations + modListBlockSize x.modules

def guidVals (g : List Nat) : List Nat := (g ++ List.replicate (11 - g.length) 0).take 11

def crashpadRec (off : Nat) (x : MCrashpad) : List Nat :=
  [x.version] ++ guidVals x.reportId ++ guidVals x.clientId ++
  [4 + 8 * x.simpleAnnotations.length, off, 4 + 12 * x.modules.length, off + dictBlockSize x.simpleAnnotations]

def encCrashpad (e : Endian) (off : Nat) (x : MCrashpad) : List UInt8 :=
  encFields e MINIDUMP_CRASHPAD_INFO (crashpadRec off x)

/-! ## the whole file -/

/-- sizes of the out-of-band groups -/
def oobThreadsSize : List MThread → Nat
  | [] => 0
  | t :: ts => t.ctx.length + t.stack.length + oobThreadsSize ts
def oobModulesSize : List MModule → Nat
  | [] => 0
  | m :: ms => oobModuleSize m + oobModulesSize ms
def oobMemorySize : List MRegion → Nat
  | [] => 0
  | r :: rs => r.bytes.length + oobMemorySize rs
def oobNamesSize : List (List Nat) → Nat
  | [] => 0
  | n :: ns => stringSize n + oobNamesSize ns

/-- an optional stream: no directory entry when the model has none -/
def optList {α β : Type} (o : Option α) (g : α → β) : List β :=
  match o with
  | none => []
  | some a => [g a]

/-- sizes of the streams the encoder emits after the extras, by formula (they do not depend on
    where the out-of-band data ends up) -/
def coreStreamSizes (m : DumpModel) (f : MemForm) : List (Nat × Nat) :=
  [(ST_THREAD_LIST, listHeaderSize m.pad + 48 * m.threads.length),
   (ST_MODULE_LIST, listHeaderSize m.pad + 108 * m.modules.length),
   (match f with
    | .mem => (ST_MEMORY_LIST, listHeaderSize m.pad + 16 * m.memory.length)
    | .mem64 => (ST_MEMORY64_LIST, 16 + 16 * m.memory.length)),
   (ST_MEMORY_INFO_LIST, 12 + 48 * m.memInfo.length),
   (ST_THREAD_NAMES, listHeaderSize m.pad + 12 * m.threadNames.length),
   (ST_UNLOADED_MODULE_LIST, 12 + 24 * m.unloaded.length)] ++
  optList m.exception (fun _ => (ST_EXCEPTION, 168)) ++
  optList m.sysInfo (fun _ => (ST_SYSTEM_INFO, 56)) ++
  optList m.miscInfo (fun x => (ST_MISC_INFO, miscInfoSize x)) ++
  optList m.handles (fun x => (ST_HANDLE_DATA_STREAM, handleDataSize x)) ++
  optList m.linuxMaps (fun x => (ST_LINUX_MAPS, (encLinuxMaps x).length)) ++
  optList m.crashpad (fun _ => (ST_CRASHPAD, 52))

def streamSizes (m : DumpModel) (f : MemForm) : List (Nat × Nat) :=
  m.extra.map (fun x => (x.1, x.2.length)) ++ coreStreamSizes m f

def sumSizes (l : List (Nat × Nat)) : Nat := (l.map (·.2)).sum

/-- file offset of the out-of-band area -/
def oobStart (m : DumpModel) (f : MemForm) : Nat :=
  32 + 12 * (streamSizes m f).length + sumSizes (streamSizes m f)

/-- the exception's context bytes / the CSD version string, when present -/
def excCtx (m : DumpModel) : List UInt8 := match m.exception with | none => [] | some x => x.ctx
def csdString (e : Endian) (m : DumpModel) : List UInt8 :=
  match m.sysInfo with | none => [] | some s => encString e s.csd
def csdSize (m : DumpModel) : Nat := match m.sysInfo with | none => 0 | some s => stringSize s.csd
/-- the handles' out-of-band data, placed at file offset `off` -/
def handlesOob (e : Endian) (off : Nat) (m : DumpModel) : List UInt8 :=
  match m.handles with | none => [] | some x => oobHandles e x.v2 off x.handles
def handlesOobSize (m : DumpModel) : Nat :=
  match m.handles with | none => 0 | some x => oobHandlesSize x.v2 x.handles
/-- the Crashpad blocks, placed at file offset `off` -/
def crashpadOob (e : Endian) (off : Nat) (m : DumpModel) : List UInt8 :=
  match m.crashpad with | none => [] | some x => crashpadOobOf e off x
def crashpadOobSize (m : DumpModel) : Nat :=
  match m.crashpad with | none => 0 | some x => crashpadOobSizeOf x

/-- offsets of the out-of-band groups -/
structure OobOffsets where
  threads : Nat
  modules : Nat
  memory : Nat
  names : Nat
  unloaded : Nat
  exc : Nat
  csd : Nat
  handles : Nat
  crashpad : Nat
  stop : Nat
  deriving Repr

def oobOffsets (m : DumpModel) (f : MemForm) : OobOffsets :=
  let o0 := oobStart m f
  let o1 := o0 + oobThreadsSize m.threads
  let o2 := o1 + oobModulesSize m.modules
  let o3 := o2 + oobMemorySize m.memory
  let o4 := o3 + oobNamesSize (m.threadNames.map (·.2))
  let o5 := o4 + oobNamesSize (m.unloaded.map (·.name))
  let o6 := o5 + (excCtx m).length
  let o7 := o6 + csdSize m
  let o8 := o7 + handlesOobSize m
  let o9 := o8 + crashpadOobSize m
  ⟨o0, o1, o2, o3, o4, o5, o6, o7, o8, o9⟩

/-- the streams after the extras: (type, bytes) -/
def coreStreams (m : DumpModel) (e : Endian) (f : MemForm) : List (Nat × List UInt8) :=
  let o := oobOffsets m f
  [(ST_THREAD_LIST, encThreadList e m.pad o.threads m.threads),
   (ST_MODULE_LIST, encModuleList e m.pad o.modules m.modules),
   (match f with
    | .mem => (ST_MEMORY_LIST, encMemoryList e m.pad o.memory m.memory)
    | .mem64 => (ST_MEMORY64_LIST, encMemory64List e o.memory m.memory)),
   (ST_MEMORY_INFO_LIST, encMemInfoList e m.memInfo),
   (ST_THREAD_NAMES, encThreadNames e m.pad o.names m.threadNames),
   (ST_UNLOADED_MODULE_LIST, encUnloadedList e o.unloaded m.unloaded)] ++
  optList m.exception (fun x => (ST_EXCEPTION, encException e o.exc x)) ++
  optList m.sysInfo (fun s => (ST_SYSTEM_INFO, encSysInfo e o.csd s)) ++
  optList m.miscInfo (fun x => (ST_MISC_INFO, encMiscInfo e x)) ++
  optList m.handles (fun x => (ST_HANDLE_DATA_STREAM, encHandleData e o.handles x)) ++
  optList m.linuxMaps (fun x => (ST_LINUX_MAPS, encLinuxMaps x)) ++
  optList m.crashpad (fun x => (ST_CRASHPAD, encCrashpad e o.crashpad x))

def allStreams (m : DumpModel) (e : Endian) (f : MemForm) : List (Nat × List UInt8) :=
  m.extra ++ coreStreams m e f

/-- the out-of-band area, given the file offsets of the handles' and the Crashpad group (their
    contents cite absolute offsets) -/
def oobAllAt (m : DumpModel) (e : Endian) (hoff coff : Nat) : List UInt8 :=
  oobThreads m.threads ++ oobModules e m.modules ++ oobMemory m.memory ++
  oobNames e (m.threadNames.map (·.2)) ++ oobNames e (m.unloaded.map (·.name)) ++
  excCtx m ++ csdString e m ++ handlesOob e hoff m ++ crashpadOob e coff m

/-- `time_date_stamp` written into every header (the value minidump-synth uses) -/
def HEADER_TIME : Nat := 1262805309

def encHeader (e : Endian) (nStreams flags : Nat) : List UInt8 :=
  encFields e MINIDUMP_HEADER [MINIDUMP_SIGNATURE, MINIDUMP_VERSION, nStreams, 32, 0, HEADER_TIME, flags]

/-- the directory: entry `i` cites `streams[i]` at `off + Σ_{j<i} |streams[j]|` -/
def encDirectory (e : Endian) : Nat → List (Nat × List UInt8) → List UInt8
  | _, [] => []
  | off, (ty, bs) :: rest =>
    encFields e MINIDUMP_DIRECTORY [ty, bs.length, off] ++ encDirectory e (off + bs.length) rest

def streamsBytes : List (Nat × List UInt8) → List UInt8
  | [] => []
  | (_, bs) :: rest => bs ++ streamsBytes rest

/-- header, directory and streams for an arbitrary stream list (used by `encode`, and on its own
    by `last_duplicate_served`) -/
def encodeStreams (e : Endian) (flags : Nat) (ss : List (Nat × List UInt8)) : List UInt8 :=
  encHeader e ss.length flags ++ encDirectory e (32 + 12 * ss.length) ss ++ streamsBytes ss

def oobAll (m : DumpModel) (e : Endian) (f : MemForm) : List UInt8 :=
  oobAllAt m e (oobOffsets m f).handles (oobOffsets m f).crashpad

def encodeList (m : DumpModel) (e : Endian) (f : MemForm) : List UInt8 :=
  encodeStreams e m.flags (allStreams m e f) ++ oobAll m e f

/-- **the serializer** -/
def encode (m : DumpModel) (e : Endian) (f : MemForm) : Bytes := (encodeList m e f).toArray

/-! ## the reader's view: `decode` -/

structure RThread where
  id : Nat
  suspend : Nat
  prioClass : Nat
  prio : Nat
  teb : Nat
  stackBase : Nat
  /-- `MinidumpThread.stack` (`MinidumpMemory::read(..).ok()`): its bytes -/
  stack : Option (List UInt8)
  /-- `MinidumpThread.context` (`location_slice(..).ok()`): the raw context bytes -/
  ctx : Option (List UInt8)
  deriving DecidableEq, Repr

structure RException where
  threadId : Nat
  code : Nat
  flags : Nat
  record : Nat
  address : Nat
  numberParameters : Nat
  info : List Nat
  ctx : Option (List UInt8)
  deriving DecidableEq, Repr

inductive RAnnValue where
  | invalid
  | string (s : List UInt8)
  | userDefined (ty value : Nat)
  | unsupported (ty value : Nat)
  deriving DecidableEq, Repr

structure RModuleCrashpad where
  index : Nat
  version : Nat
  listAnnotations : List (List UInt8)
  /-- a `BTreeMap`: sorted by key (byte order), the last duplicate wins -/
  simpleAnnotations : List (List UInt8 × List UInt8)
  annotationObjects : List (List UInt8 × RAnnValue)
  deriving DecidableEq, Repr

structure RCrashpad where
  version : Nat
  /-- `report_id` then `client_id`: 22 scalars -/
  ids : List Nat
  simpleAnnotations : List (List UInt8 × List UInt8)
  modules : List RModuleCrashpad
  deriving DecidableEq, Repr

structure RHandle where
  /-- which descriptor was read (`object_info_rva()` is `Some` for the second kind only) -/
  v2 : Bool
  handle : Nat
  typeName : Option (List Nat)
  objectName : Option (List Nat)
  attributes : Nat
  grantedAccess : Nat
  handleCount : Nat
  pointerCount : Nat
  /-- `object_infos`: (info_type, size_of_info) in chain order -/
  infos : List (Nat × Nat)
  deriving DecidableEq, Repr

structure RSysInfo where
  arch : Nat
  level : Nat
  revision : Nat
  nproc : Nat
  productType : Nat
  major : Nat
  minor : Nat
  build : Nat
  platform : Nat
  suite : Nat
  cpu : List UInt8
  /-- `csd_version`: `None` when the string cannot be read -/
  csd : Option (List Nat)
  deriving DecidableEq, Repr

/-- what `Minidump::read` + `get_stream` of the covered streams + `get_memory` hand to a caller,
    free of file offsets -/
structure Reported where
  endian : Endian
  flags : Nat
  threads : Except Err (List RThread)
  modules : Except Err (List MModule)
  /-- `get_memory()`: the memory-64 list if it reads, else the memory list -/
  memory : Except Err (List MRegion)
  memInfo : Except Err (List MMemInfo)
  /-- sorted by thread id, last duplicate wins (a `BTreeMap`) -/
  threadNames : Except Err (List (Nat × List Nat))
  unloaded : Except Err (List MUnloaded)
  exception : Except Err RException
  sysInfo : Except Err RSysInfo
  miscInfo : Except Err MiscInfo
  handles : Except Err (List RHandle)
  linuxMaps : Except Err (List MapEntry)
  crashpad : Except Err RCrashpad

def sliceList (b : Bytes) (s e : Nat) : List UInt8 := (b.extract s e).toList

def regionOf (b : Bytes) (r : Region) : MRegion := ⟨r.base, sliceList b r.rva (r.rva + r.size)⟩

def rthreadOf (b : Bytes) (t : Thread) : RThread :=
  { id := t.id, suspend := t.suspendCount, prioClass := t.priorityClass, prio := t.priority, teb := t.teb,
    stackBase := t.stackStart,
    stack := t.stack.map fun r => sliceList b r.rva (r.rva + r.size),
    ctx := t.context.map fun (s, e) => sliceList b s e }

/-- `Dump.CodeView` → `MCv`. The GUID is the 11 scalars of the generated `GUID` layout. -/
def mcvOf (e : Endian) : CodeView → MCv
  | .pdb70 guid age name =>
    .pdb70 (fld guid 0) (fld guid 1) (fld guid 2) ((guid.drop 3).map UInt8.ofNat) age name.toList
  | .pdb20 off sig age name => .pdb20 off sig age name.toList
  | .elf bid => .elf bid.toList
  | .unknown raw => .unknown (decodeNat e (raw.toList.take 4)) (raw.toList.drop 4)

def mmoduleOf (e : Endian) (m : Module) : MModule :=
  { base := m.raw.base, size := m.raw.size, checksum := m.raw.checksum, time := m.raw.time,
    ver := (m.raw.vals.drop 5).take 13, name := m.name, cv := m.codeview.map (mcvOf e) }

def mmemInfoOf (i : MemInfo) : MMemInfo := ⟨i.base, i.allocBase, i.allocProt, i.size, i.state, i.prot, i.ty⟩
def munloadedOf (u : UnloadedModule) : MUnloaded := ⟨u.base, u.size, u.checksum, u.time, u.name⟩

def rexceptionOf (b : Bytes) (x : Exception) : RException :=
  { threadId := x.threadId, code := x.code, flags := x.flags, record := x.record, address := x.address,
    numberParameters := x.numberParameters, info := x.info,
    ctx := x.context.map fun (s, e) => sliceList b s e }

def rhandleOf (h : Handle) : RHandle :=
  { v2 := h.vals.length == 9, handle := fld h.vals 0, typeName := h.typeName, objectName := h.objectName,
    attributes := fld h.vals 3, grantedAccess := fld h.vals 4, handleCount := fld h.vals 5, pointerCount := fld h.vals 6,
    infos := h.infos.map fun o => (o.ty, o.size) }

def rdictOf (d : List (Bytes × Bytes)) : List (List UInt8 × List UInt8) := d.map fun kv => (kv.1.toList, kv.2.toList)

def rannValueOf : AnnotationValue → RAnnValue
  | .invalid => .invalid
  | .string s => .string s.toList
  | .userDefined ty v => .userDefined ty v
  | .unsupported ty v => .unsupported ty v

def rmoduleCrashpadOf (x : ModuleCrashpadInfo) : RModuleCrashpad :=
  { index := x.moduleIndex, version := x.version, listAnnotations := x.listAnnotations.map (·.toList),
    simpleAnnotations := rdictOf x.simpleAnnotations,
    annotationObjects := x.annotationObjects.map fun kv => (kv.1.toList, rannValueOf kv.2) }

def rcrashpadOf (x : List Nat × CrashpadInfo) : RCrashpad :=
  { version := x.2.version, ids := x.1, simpleAnnotations := rdictOf x.2.simpleAnnotations,
    modules := x.2.modules.map rmoduleCrashpadOf }

/-- `MinidumpSystemInfo::read` [3175] (the raw record and the CSD string; the `cpu_info` text is
    not modelled) -/
def readSystemInfo (s all : Bytes) (e : Endian) : M RSysInfo :=
  match readFields SYSTEM_INFO_LAYOUT s 0 e with
  | none => M.fail .StreamReadFailure
  | some v =>
    readStringUtf16 all (fld v 9) e >>= fun r =>
    pure { arch := fld v 0, level := fld v 1, revision := fld v 2, nproc := fld v 3, productType := fld v 4,
           major := fld v 5, minor := fld v 6, build := fld v 7, platform := fld v 8, suite := fld v 10,
           cpu := ((v.drop 12).take 24).map UInt8.ofNat, csd := r.map (·.1) }

/-- result of `get_stream` with errors as values; a panic outcome of the reader stays a panic -/
def streamRes {α : Type} (d : Dump) (b : Bytes) (ty : Nat) (reader : Bytes → M α) : Res (Except Err α) :=
  (getStream d b ty reader).res

def Res.bind {α β : Type} (x : Res α) (f : α → Res β) : Res β :=
  match x with
  | .ok a => f a
  | .err e => .err e
  | .panic s => .panic s

/-- `get_memory` [5612]: `Memory64List` preferred, `MemoryList` on ANY error of the former. -/
def pickMemory (m64 m32 : Except Err (List MRegion)) : Except Err (List MRegion) :=
  match m64 with
  | .ok r => .ok r
  | .error _ => m32

/-- **the reader**: `Minidump::read`, then `get_stream` of every covered stream type and
    `get_memory`, turned into the offset-free `Reported`. -/
def decode (b : Bytes) : Res Reported :=
  let ms := MemSizes.default
  match readDump b with
  | .error er => .err er
  | .ok d =>
    let e := d.endian
    Res.bind (streamRes d b ST_THREAD_LIST (fun s => readThreadList ms s b e)) fun threads =>
    Res.bind (streamRes d b ST_MODULE_LIST (fun s => readModuleList ms s b e)) fun modules =>
    Res.bind (streamRes d b ST_MEMORY_LIST (fun s => readMemoryList ms s b e)) fun mem =>
    Res.bind (streamRes d b ST_MEMORY64_LIST (fun s => readMemory64List ms s b e)) fun mem64 =>
    Res.bind (streamRes d b ST_MEMORY_INFO_LIST (fun s => readMemoryInfoList ms s e)) fun memInfo =>
    Res.bind (streamRes d b ST_THREAD_NAMES (fun s => readThreadNames ms s b e)) fun names =>
    Res.bind (streamRes d b ST_UNLOADED_MODULE_LIST (fun s => readUnloadedModuleList ms s b e)) fun unloaded =>
    Res.bind (streamRes d b ST_EXCEPTION (fun s => readException s b e)) fun exc =>
    Res.bind (streamRes d b ST_SYSTEM_INFO (fun s => readSystemInfo s b e)) fun sys =>
    Res.bind (streamRes d b ST_MISC_INFO (fun s => readMiscInfo s e)) fun misc =>
    Res.bind (streamRes d b ST_HANDLE_DATA_STREAM (fun s => readHandleData ms s b e)) fun handles =>
    Res.bind (streamRes d b ST_LINUX_MAPS (fun s => readLinuxMaps s)) fun maps =>
    Res.bind (streamRes d b ST_CRASHPAD (fun s => readCrashpadInfoRaw ms s b e)) fun crashpad =>
    .ok { endian := e, flags := d.header.flags,
          threads := threads.map (·.map (rthreadOf b)),
          modules := modules.map (·.map (mmoduleOf e)),
          memory := pickMemory (mem64.map (·.map (regionOf b))) (mem.map (·.map (regionOf b))),
          memInfo := memInfo.map (·.map mmemInfoOf),
          threadNames := names,
          unloaded := unloaded.map (·.map munloadedOf),
          exception := exc.map (rexceptionOf b),
          sysInfo := sys,
          miscInfo := misc,
          handles := handles.map (·.map rhandleOf),
          linuxMaps := maps,
          crashpad := crashpad.map rcrashpadOf }

/-! ## the model as the reader reports it -/

def reportThread (t : MThread) : RThread :=
  { id := t.id, suspend := t.suspend, prioClass := t.prioClass, prio := t.prio, teb := t.teb,
    stackBase := t.stackBase,
    stack := if t.stack.length = 0 then none else some t.stack,
    ctx := some t.ctx }

/-- `BTreeMap` insertion of the names in file order -/
def namesMap (ns : List (Nat × List Nat)) : List (Nat × List Nat) :=
  ns.foldl (fun acc p => mapInsert p.1 p.2 acc) []

def reportException (x : MException) : RException :=
  { threadId := x.threadId, code := x.code, flags := x.flags, record := x.record, address := x.address,
    numberParameters := x.numberParameters, info := x.info, ctx := some x.ctx }

def reportSysInfo (s : MSysInfo) : RSysInfo :=
  { arch := s.arch, level := s.level, revision := s.revision, nproc := s.nproc, productType := s.productType,
    major := s.major, minor := s.minor, build := s.build, platform := s.platform, suite := s.suite, cpu := s.cpu,
    csd := some s.csd }

def reportHandle (v2 : Bool) (h : MHandle) : RHandle :=
  { v2 := v2, handle := h.handle, typeName := h.typeName, objectName := h.objectName, attributes := h.attributes,
    grantedAccess := h.grantedAccess, handleCount := h.handleCount, pointerCount := h.pointerCount,
    infos := (handleInfos v2 h).map fun i => (i.ty, i.size) }

/-- a dictionary as the reader's `BTreeMap` holds it: inserted in file order -/
def dictOf (d : List (List UInt8 × List UInt8)) : List (Bytes × Bytes) :=
  d.foldl (fun acc kv => dictInsert kv.1.toArray kv.2.toArray acc) []

def annValueOf : MAnnotation → AnnotationValue
  | .invalid _ => .invalid
  | .string _ v => .string v.toArray
  | .other _ ty v => if ty ≥ ANNOTATION_TYPE_USER_DEFINED then .userDefined ty v else .unsupported ty v

def annDictOf (as : List MAnnotation) : List (Bytes × AnnotationValue) :=
  as.foldl (fun acc a => dictInsert a.name.toArray (annValueOf a) acc) []

def reportModuleCrashpad (x : MModuleCrashpad) : RModuleCrashpad :=
  { index := x.index, version := x.version, listAnnotations := x.listAnnotations,
    simpleAnnotations := rdictOf (dictOf x.simpleAnnotations),
    annotationObjects := (annDictOf x.annotationObjects).map fun kv => (kv.1.toList, rannValueOf kv.2) }

def reportCrashpad (x : MCrashpad) : RCrashpad :=
  { version := x.version, ids := guidVals x.reportId ++ guidVals x.clientId,
    simpleAnnotations := rdictOf (dictOf x.simpleAnnotations), modules := x.modules.map reportModuleCrashpad }

/-- What reading `encode m e f` yields: items in file order; a thread with an empty stack has no
    stack memory; modules with a "bad image size" (0, or reaching past 2^64-1) are skipped by the
    module list, while ONE such entry fails the whole unloaded-module list; the 32-bit memory list
    skips empty regions, the 64-bit list keeps them; thread names are a map by thread id (last wins). -/
def report (m : DumpModel) (e : Endian) (f : MemForm) : Reported :=
  { endian := e, flags := m.flags,
    threads := .ok (m.threads.map reportThread),
    modules := .ok (m.modules.filter fun x => !badImageSize x.base x.size),
    memory := .ok (match f with
      | .mem => m.memory.filter fun r => r.bytes.length ≠ 0
      | .mem64 => m.memory),
    memInfo := .ok m.memInfo,
    threadNames := .ok (namesMap m.threadNames),
    unloaded := if m.unloaded.any (fun u => badImageSize u.base u.size) then .error .ModuleReadFailure
      else .ok m.unloaded,
    exception := match m.exception with
      | none => .error .StreamNotFound
      | some x => .ok (reportException x),
    sysInfo := match m.sysInfo with
      | none => .error .StreamNotFound
      | some s => .ok (reportSysInfo s),
    miscInfo := match m.miscInfo with
      | none => .error .StreamNotFound
      | some x => .ok ⟨x.ver, x.vals⟩,
    handles := match m.handles with
      | none => .error .StreamNotFound
      | some x => .ok (x.handles.map (reportHandle x.v2)),
    linuxMaps := match m.linuxMaps with
      | none => .error .StreamNotFound
      | some x => .ok x,
    crashpad := match m.crashpad with
      | none => .error .StreamNotFound
      | some x => .ok (reportCrashpad x) }

/-! ## memory lookup: `memory_at_address` + `get_memory_at_address::<u8>` -/

/-- `MinidumpMemoryListBase::from_regions` [2163]: `(region.memory_range(), index)` through
    `into_rangemap_safe` (C08's model) -/
def regionTable (rs : List MRegion) : List RangeMap.Entry :=
  RangeMap.safeVec (rs.zipIdx.map fun (r, i) => (RangeMap.mkRange r.base r.bytes.length, i))

/-- `MinidumpMemoryBase::get_memory_at_address::<u8>` [2048]: `addr.checked_sub(base)`, then
    `bytes.pread::<u8>(start)` -/
def regionByte (r : MRegion) (a : Nat) : Option UInt8 :=
  if a < r.base then none else r.bytes[a - r.base]?

/-- `memory_at_address(a)` [2177] then `get_memory_at_address::<u8>(a)` -/
def memoryByteAt (rs : List MRegion) (a : Nat) : Option UInt8 :=
  match RangeMap.get (regionTable rs) a with
  | none => none
  | some i =>
    match rs[i]? with
    | none => none
    | some r => regionByte r a

/-! ## identifiers -/

inductive Os where
  | windows | macos | ios | linux | solaris | android | ps3 | nacl | unknown
  deriving DecidableEq, Repr

/-- `Os::from_platform_id` (minidump-common/src/system_info.rs:32; discriminants generated from `PlatformId`) -/
def osOfPlatform (p : Nat) : Os :=
  if p = PLATFORM_VER_PLATFORM_WIN32_WINDOWS ∨ p = PLATFORM_VER_PLATFORM_WIN32_NT then .windows
  else if p = PLATFORM_MacOs then .macos
  else if p = PLATFORM_Ios then .ios
  else if p = PLATFORM_Linux then .linux
  else if p = PLATFORM_Solaris then .solaris
  else if p = PLATFORM_Android then .android
  else if p = PLATFORM_Ps3 then .ps3
  else if p = PLATFORM_NaCl then .nacl
  else .unknown

def hexDigitUpper (n : Nat) : Char :=
  if n < 10 then Char.ofNat (48 + n) else Char.ofNat (55 + n)
def hexDigitLower (n : Nat) : Char :=
  if n < 10 then Char.ofNat (48 + n) else Char.ofNat (87 + n)

/-- exactly `n` hex digits of `v` (its low `4n` bits), most significant first -/
def hexPad (dig : Nat → Char) : Nat → Nat → List Char
  | 0, _ => []
  | n + 1, v => hexPad dig n (v / 16) ++ [dig (v % 16)]

/-- `{:x}` / `{:X}`: no padding, at least one digit -/
def hexMin (dig : Nat → Char) (v : Nat) : List Char := (Nat.toDigits 16 v).map fun c =>
  match Proto.hexDigitVal c with
  | some d => dig d
  | none => c

def hexBytes (dig : Nat → Char) (bs : List UInt8) : List Char :=
  bs.flatMap fun b => hexPad dig 2 b.toNat

/-- `Uuid::from_fields(d1, d2, d3, &d4)`: the 16 bytes, fields big-endian -/
def uuidFromFields (d1 d2 d3 : Nat) (d4 : List UInt8) : List UInt8 :=
  encNat .big 4 d1 ++ encNat .big 2 d2 ++ encNat .big 2 d3 ++ d4

/-- `DebugId::breakpad()` of a UUID-based id (`"{:X}{:x}"`): 32 upper-case hex digits of the UUID,
    then the age in lower-case hex without padding -/
def breakpadId (uuid : List UInt8) (age : Nat) : String :=
  String.ofList (hexBytes hexDigitUpper uuid ++ hexMin hexDigitLower age)

def allZero (bs : List UInt8) : Bool := bs.all (· == 0)

/-- `read_debug_id` [795] rendered with `.breakpad()`. The ELF build id is padded with zeros /
    truncated to 16 bytes and read as a `GUID` **in the dump's byte order**. -/
def debugId (e : Endian) : MCv → Option String
  | .pdb70 d1 d2 d3 d4 age _ =>
    let u := uuidFromFields d1 d2 d3 d4
    if allZero u then none else some (breakpadId u age)
  | .pdb20 _ sig age _ =>
    -- `DebugId::from_pdb20(timestamp, age)`, whose breakpad form is `"{:08X}{:x}"`
    some (String.ofList (hexPad hexDigitUpper 8 sig ++ hexMin hexDigitLower age))
  | .elf bid =>
    if allZero bid then none else
    let g := (bid ++ List.replicate (16 - bid.length) 0).take 16
    let d1 := decodeNat e (g.take 4)
    let d2 := decodeNat e ((g.drop 4).take 2)
    let d3 := decodeNat e ((g.drop 6).take 2)
    some (breakpadId (uuidFromFields d1 d2 d3 (g.drop 8)) 0)
  | .unknown _ _ => none

/-- `CodeId::new(format!("{0:08X}{1:x}", time_date_stamp, size_of_image))`; `CodeId::new` keeps the
    hex digits and lower-cases them -/
def timeSizeId (time size : Nat) : String :=
  String.ofList (hexPad hexDigitLower 8 time ++ hexMin hexDigitLower size)

/-- `code_identifier` [1085] -/
def codeId (os : Os) (m : MModule) : Option String :=
  match m.cv with
  | some (.pdb70 d1 d2 d3 d4 _ _) =>
    if os = .macos ∨ os = .ios then
      -- `CodeId::new(format!("{:#}", guid))`: hex without dashes, lower-cased by `CodeId::new`
      some (String.ofList (hexPad hexDigitLower 8 d1 ++ hexPad hexDigitLower 4 d2 ++ hexPad hexDigitLower 4 d3 ++
        hexBytes hexDigitLower d4))
    else some (timeSizeId m.time m.size)
  | some (.pdb20 ..) => some (timeSizeId m.time m.size)
  | some (.elf bid) => if allZero bid then none else some (String.ofList (hexBytes hexDigitLower bid))
  | some (.unknown ..) => none
  | none => if os = .windows then some (timeSizeId m.time m.size) else none

/-- `string_from_bytes_nul`: the bytes up to the first NUL (the whole slice if none); `None` if not
    UTF-8. UTF-8 validity is not modelled: the bytes are returned. -/
def bytesToNul (bs : List UInt8) : List UInt8 := bs.takeWhile (· != 0)

/-- UTF-8 encoding of a scalar value (Rust `String`s are UTF-8) -/
def utf8Encode (c : Nat) : List UInt8 :=
  if c < 0x80 then [UInt8.ofNat c]
  else if c < 0x800 then [UInt8.ofNat (0xC0 + c / 64), UInt8.ofNat (0x80 + c % 64)]
  else if c < 0x10000 then [UInt8.ofNat (0xE0 + c / 4096), UInt8.ofNat (0x80 + c / 64 % 64), UInt8.ofNat (0x80 + c % 64)]
  else [UInt8.ofNat (0xF0 + c / 262144), UInt8.ofNat (0x80 + c / 4096 % 64), UInt8.ofNat (0x80 + c / 64 % 64),
        UInt8.ofNat (0x80 + c % 64)]

/-- `debug_file` [1130] as the UTF-8 bytes of the returned string (`elf`: the module's own name).
    For a PDB record whose file name is not UTF-8 the code returns `None`; that case is not
    modelled (the bytes are returned). -/
def debugFile (m : MModule) : Option (List UInt8) :=
  match m.cv with
  | some (.pdb70 _ _ _ _ _ file) => some (bytesToNul file)
  | some (.pdb20 _ _ _ file) => some (bytesToNul file)
  | some (.elf _) => some (m.name.flatMap utf8Encode)
  | _ => none

/-- `version` [1142] -/
def version (os : Os) (m : MModule) : Option String :=
  if fld m.ver 0 = VS_FFI_SIGNATURE ∧ fld m.ver 1 = VS_FFI_STRUCVERSION then
    if os = .macos ∨ os = .ios ∨ os = .windows then
      some s!"{fld m.ver 2 / 65536}.{fld m.ver 2 % 65536}.{fld m.ver 3 / 65536}.{fld m.ver 3 % 65536}"
    else some s!"{fld m.ver 2}.{fld m.ver 3}.{fld m.ver 4}.{fld m.ver 5}"
  else none

/-- the OS the module list is read with: `Minidump::read` parses the system info eagerly and hands
    it to every stream reader; without one the modules carry `Os::Unknown(0)` -/
def reportedOs (r : Reported) : Os :=
  match r.sysInfo with
  | .ok s => osOfPlatform s.platform
  | .error _ => .unknown

/-! ## line protocol -/

def patternByte (seed i : Nat) : UInt8 := UInt8.ofNat ((seed + i * 167 + i / 256 * 13 + i / 7) % 256)

/-- bytes := `-` | hex | `g<seed>x<len>` -/
def parseBytes (s : String) : Option (List UInt8) :=
  if s.startsWith "g" then
    match ((s.drop 1).toString.splitOn "x").map Proto.optNat with
    | [some seed, some len] => some ((List.range len).map (patternByte seed))
    | _ => none
  else Proto.unhex s

/-- name := `-` | scalar values in hex separated by `.` -/
def parseName (s : String) : Option (List Nat) :=
  if s == "-" then some [] else (s.splitOn ".").mapM Proto.parseHexNat

def parseNats (sep : String) (s : String) : Option (List Nat) :=
  if s == "" then some [] else (s.splitOn sep).mapM Proto.optNat

/-- numbers separated by `.`, where `z<n>` stands for `n` zeros -/
def parseNatsZ (s : String) : Option (List Nat) :=
  if s == "" then some [] else
  ((s.splitOn ".").mapM fun (t : String) =>
    if t.startsWith "z" then (Proto.optNat (t.drop 1).toString).map fun n => List.replicate n 0
    else (Proto.optNat t).map fun v => [v]).map List.flatten

def parseCv (s : String) : Option (Option MCv) :=
  if s == "-" then some none else
  match s.splitOn ":" with
  | ["p7", d1, d2, d3, d4, age, file] =>
    match Proto.optNat d1, Proto.optNat d2, Proto.optNat d3, parseBytes d4, Proto.optNat age, parseBytes file with
    | some d1, some d2, some d3, some d4, some age, some file => some (some (.pdb70 d1 d2 d3 d4 age file))
    | _, _, _, _, _, _ => none
  | ["p2", off, sig, age, file] =>
    match Proto.optNat off, Proto.optNat sig, Proto.optNat age, parseBytes file with
    | some off, some sig, some age, some file => some (some (.pdb20 off sig age file))
    | _, _, _, _ => none
  | ["elf", bid] => (parseBytes bid).map fun b => some (.elf b)
  | ["unk", sig, rest] =>
    match Proto.optNat sig, parseBytes rest with
    | some sig, some rest => some (some (.unknown sig rest))
    | _, _ => none
  | _ => none

def parseList {α : Type} (f : List String → Option α) (s : String) : Option (List α) :=
  if s == "" then some [] else (s.splitOn ";").mapM fun item => f (item.splitOn ",")

def parseThread : List String → Option MThread
  | [id, su, pc, pr, teb, sb, st, cx] =>
    match Proto.optNat id, Proto.optNat su, Proto.optNat pc, Proto.optNat pr, Proto.optNat teb, Proto.optNat sb,
          parseBytes st, parseBytes cx with
    | some id, some su, some pc, some pr, some teb, some sb, some st, some cx => some ⟨id, su, pc, pr, teb, sb, st, cx⟩
    | _, _, _, _, _, _, _, _ => none
  | _ => none

def parseModule : List String → Option MModule
  | [base, size, chk, time, ver, name, cv] =>
    match Proto.optNat base, Proto.optNat size, Proto.optNat chk, Proto.optNat time, parseNats "." ver,
          parseName name, parseCv cv with
    | some base, some size, some chk, some time, some ver, some name, some cv =>
      if ver.length = 13 then some ⟨base, size, chk, time, ver, name, cv⟩ else none
    | _, _, _, _, _, _, _ => none
  | _ => none

def parseRegion : List String → Option MRegion
  | [base, bytes] =>
    match Proto.optNat base, parseBytes bytes with
    | some base, some bytes => some ⟨base, bytes⟩
    | _, _ => none
  | _ => none

def parseMemInfo (l : List String) : Option MMemInfo :=
  match l.mapM Proto.optNat with
  | some [a, b, c, d, e, f, g] => some ⟨a, b, c, d, e, f, g⟩
  | _ => none

def parseThreadName : List String → Option (Nat × List Nat)
  | [id, name] =>
    match Proto.optNat id, parseName name with
    | some id, some name => some (id, name)
    | _, _ => none
  | _ => none

def parseUnloaded : List String → Option MUnloaded
  | [base, size, chk, time, name] =>
    match Proto.optNat base, Proto.optNat size, Proto.optNat chk, Proto.optNat time, parseName name with
    | some base, some size, some chk, some time, some name => some ⟨base, size, chk, time, name⟩
    | _, _, _, _, _ => none
  | _ => none

def parseException (s : String) : Option (Option MException) :=
  if s == "-" then some none else
  match s.splitOn "," with
  | [tid, code, flags, rec, addr, np, info, ctx] =>
    match Proto.optNat tid, Proto.optNat code, Proto.optNat flags, Proto.optNat rec, Proto.optNat addr,
          Proto.optNat np, parseNats "." info, parseBytes ctx with
    | some tid, some code, some flags, some rec, some addr, some np, some info, some ctx =>
      if info.length = 15 then some (some ⟨tid, code, flags, rec, addr, np, info, ctx⟩) else none
    | _, _, _, _, _, _, _, _ => none
  | _ => none

def parseSysInfo (s : String) : Option (Option MSysInfo) :=
  if s == "-" then some none else
  match s.splitOn "," with
  | [arch, level, rev, nproc, pt, major, minor, build, plat, suite, cpu, csd] =>
    match [arch, level, rev, nproc, pt, major, minor, build, plat, suite].mapM Proto.optNat, parseBytes cpu, parseName csd with
    | some [arch, level, rev, nproc, pt, major, minor, build, plat, suite], some cpu, some csd =>
      if cpu.length = 24 then some (some ⟨arch, level, rev, nproc, pt, major, minor, build, plat, suite, cpu, csd⟩) else none
    | _, _, _ => none
  | _ => none

/-- `-` | `<ver>,<tail bytes>,<values>` -/
def parseMiscInfo (s : String) : Option (Option MMiscInfo) :=
  if s == "-" then some none else
  match s.splitOn "," with
  | [ver, tail, vals] =>
    match Proto.optNat ver, parseBytes tail, parseNatsZ vals with
    | some ver, some tail, some vals => some (some ⟨ver, vals, tail⟩)
    | _, _, _ => none
  | _ => none

/-- optional name: `~` = none -/
def parseOptName (s : String) : Option (Option (List Nat)) :=
  if s == "~" then some none else (parseName s).map some

/-- object infos: `` | `<ty>:<size>/<ty>:<size>…` -/
def parseInfos (s : String) : Option (List MObjInfo) :=
  if s == "" then some [] else
  (s.splitOn "/").mapM fun (t : String) =>
    match (t.splitOn ":").map Proto.optNat with
    | [some ty, some size] => some ⟨ty, size⟩
    | _ => none

def parseHandle : List String → Option MHandle
  | [h, tn, on, attr, ga, hc, pc, infos] =>
    match Proto.optNat h, parseOptName tn, parseOptName on, Proto.optNat attr, Proto.optNat ga, Proto.optNat hc,
          Proto.optNat pc, parseInfos infos with
    | some h, some tn, some on, some attr, some ga, some hc, some pc, some infos => some ⟨h, tn, on, attr, ga, hc, pc, infos⟩
    | _, _, _, _, _, _, _, _ => none
  | _ => none

/-- `-` | `<1|2>|<handle>;<handle>…` -/
def parseHandleData (s : String) : Option (Option MHandleData) :=
  if s == "-" then some none else
  match s.splitOn "|" with
  | [v, hs] =>
    match Proto.optNat v, parseList parseHandle hs with
    | some 1, some hs => some (some ⟨false, hs⟩)
    | some 2, some hs => some (some ⟨true, hs⟩)
    | _, _ => none
  | _ => none

/-- path := `a` anonymous | `h` heap | `s` stack | `d` vdso | `v` vvar | `y` vsyscall | `r` rollup |
    `t<tid>` | `k<key>` | `o<hex>` other | `p<hex>` path -/
def parseMapPath (s : String) : Option MapPath :=
  if s == "a" then some .anonymous else if s == "h" then some .heap else if s == "s" then some .stack
  else if s == "d" then some .vdso else if s == "v" then some .vvar else if s == "y" then some .vsyscall
  else if s == "r" then some .rollup
  else if s.startsWith "t" then (Proto.optNat (s.drop 1).toString).map .tstack
  else if s.startsWith "k" then (Proto.optNat (s.drop 1).toString).map .vsys
  else if s.startsWith "o" then (Proto.unhex (s.drop 1).toString).map .other
  else if s.startsWith "p" then (Proto.unhex (s.drop 1).toString).map .path
  else none

def parseMapEntry : List String → Option MapEntry
  | [lo, hi, perms, off, maj, min, ino, path] =>
    match [lo, hi, perms, off, maj, min, ino].mapM Proto.optNat, parseMapPath path with
    | some [lo, hi, perms, off, maj, min, ino], some path => some ⟨lo, hi, perms, off, maj, min, ino, path⟩
    | _, _ => none
  | _ => none

/-- `-` | `[<entry>;<entry>…]` -/
def parseLinuxMaps (s : String) : Option (Option (List MapEntry)) :=
  if s == "-" then some none
  else if s.startsWith "[" && s.endsWith "]" then (parseList parseMapEntry ((s.drop 1).dropEnd 1).toString).map some
  else none

/-- a byte string token: `x<hex>` -/
def parseX (s : String) : Option (List UInt8) :=
  if s.startsWith "x" then Proto.unhex (s.drop 1).toString else none

def parseSep {α : Type} (sep : String) (f : String → Option α) (s : String) : Option (List α) :=
  if s == "" then some [] else (s.splitOn sep).mapM f

/-- `x<key>:x<value>` -/
def parseKv (s : String) : Option (List UInt8 × List UInt8) :=
  match s.splitOn ":" with
  | [k, v] => match parseX k, parseX v with
    | some k, some v => some (k, v)
    | _, _ => none
  | _ => none

/-- `i:x<name>` | `s:x<name>:x<value>` | `o:x<name>:<ty>:<value>` -/
def parseAnn (s : String) : Option MAnnotation :=
  match s.splitOn ":" with
  | ["i", n] => (parseX n).map .invalid
  | ["s", n, v] => match parseX n, parseX v with
    | some n, some v => some (.string n v)
    | _, _ => none
  | ["o", n, ty, v] => match parseX n, Proto.optNat ty, Proto.optNat v with
    | some n, some ty, some v => some (.other n ty v)
    | _, _, _ => none
  | _ => none

/-- `<index>!<version>!<list: x../x..>!<dict: kv/kv>!<objects: ann/ann>` -/
def parseModuleCrashpad (s : String) : Option MModuleCrashpad :=
  match s.splitOn "!" with
  | [idx, ver, l, d, a] =>
    match Proto.optNat idx, Proto.optNat ver, parseSep "/" parseX l, parseSep "/" parseKv d, parseSep "/" parseAnn a with
    | some idx, some ver, some l, some d, some a => some ⟨idx, ver, l, d, a⟩
    | _, _, _, _, _ => none
  | _ => none

/-- `-` | `<version>,<report id: 11 numbers>,<client id>,<dict>,<module>+<module>…` -/
def parseCrashpad (s : String) : Option (Option MCrashpad) :=
  if s == "-" then some none else
  match s.splitOn "," with
  | [ver, rid, cid, d, ms] =>
    match Proto.optNat ver, parseNats "." rid, parseNats "." cid, parseSep "/" parseKv d, parseSep "+" parseModuleCrashpad ms with
    | some ver, some rid, some cid, some d, some ms =>
      if rid.length = 11 ∧ cid.length = 11 then some (some ⟨ver, rid, cid, d, ms⟩) else none
    | _, _, _, _, _ => none
  | _ => none

def parseExtra : List String → Option (Nat × List UInt8)
  | [ty, bytes] =>
    match Proto.optNat ty, parseBytes bytes with
    | some ty, some bytes => some (ty, bytes)
    | _, _ => none
  | _ => none

def field (key : String) (s : String) : Option String :=
  if s.startsWith key then some (s.drop key.length).toString else none

/-- the eleven original fields -/
def parseModel11 : List String → Option DumpModel
  | [fl, pad, t, m, r, i, n, u, x, s, d] =>
    match field "fl=" fl >>= Proto.optNat, field "pad=" pad >>= Proto.optNat,
          field "T=" t >>= parseList parseThread, field "M=" m >>= parseList parseModule,
          field "R=" r >>= parseList parseRegion, field "I=" i >>= parseList parseMemInfo,
          field "N=" n >>= parseList parseThreadName, field "U=" u >>= parseList parseUnloaded,
          field "X=" x >>= parseException, field "S=" s >>= parseSysInfo, field "D=" d >>= parseList parseExtra with
    | some fl, some pad, some t, some m, some r, some i, some n, some u, some x, some s, some d =>
      if pad ≤ 1 then
        some { flags := fl, pad := pad == 1, threads := t, modules := m, memory := r, memInfo := i, threadNames := n,
               unloaded := u, exception := x, sysInfo := s, extra := d }
      else none
    | _, _, _, _, _, _, _, _, _, _, _ => none
  | _ => none

/-- the optional trailing fields, each at most once, in this order: `Y=` misc info, `H=` handle data -/
def parseOptional (m : DumpModel) : List String → Option DumpModel
  | [] => some m
  | t :: rest =>
    if t.startsWith "Y=" then
      match field "Y=" t >>= parseMiscInfo with
      | some y => parseOptional { m with miscInfo := y } rest
      | none => none
    else if t.startsWith "H=" then
      match field "H=" t >>= parseHandleData with
      | some h => parseOptional { m with handles := h } rest
      | none => none
    else if t.startsWith "L=" then
      match field "L=" t >>= parseLinuxMaps with
      | some l => parseOptional { m with linuxMaps := l } rest
      | none => none
    else if t.startsWith "C=" then
      match field "C=" t >>= parseCrashpad with
      | some c => parseOptional { m with crashpad := c } rest
      | none => none
    else none

/-- `fl=.. pad=0|1 T=.. M=.. R=.. I=.. N=.. U=.. X=.. S=.. D=..` optionally followed by `Y=..`
    (misc info), `H=..` (handle data); a line without an optional field has no such stream -/
def parseModel (toks : List String) : Option DumpModel :=
  match parseModel11 (toks.take 11) with
  | none => none
  | some m => parseOptional m (toks.drop 11)

def fnv64 (bs : List UInt8) : UInt64 :=
  bs.foldl (fun h b => (h ^^^ b.toUInt64) * 0x100000001b3) 0xcbf29ce484222325

/-- a byte blob in a report: `<len>:<fnv64>` -/
def showBlob (bs : List UInt8) : String := s!"{bs.length}:{Proto.natToHex (fnv64 bs).toNat}"
def showOptBlob : Option (List UInt8) → String
  | none => "~"
  | some bs => showBlob bs
def showName (cs : List Nat) : String := if cs.isEmpty then "-" else Proto.joinWith "." (cs.map Proto.natToHex)
def showNats (l : List Nat) : String := Proto.joinWith "." (l.map toString)
def showOptStr : Option String → String
  | none => "~"
  | some s => if s.isEmpty then "-" else s

def showCv : Option MCv → String
  | none => "-"
  | some (.pdb70 d1 d2 d3 d4 age file) => s!"p7:{d1}:{d2}:{d3}:{showBlob d4}:{age}:{showBlob file}"
  | some (.pdb20 off sig age file) => s!"p2:{off}:{sig}:{age}:{showBlob file}"
  | some (.elf bid) => s!"elf:{showBlob bid}"
  | some (.unknown sig rest) => s!"unk:{sig}:{showBlob rest}"

def showList {α : Type} (f : α → String) : Except Err (List α) → String
  | .error e => "err " ++ e.name
  | .ok xs => "[" ++ Proto.joinWith ";" (xs.map f) ++ "]"

def showThread (t : RThread) : String :=
  s!"{t.id},{t.suspend},{t.prioClass},{t.prio},{t.teb},{t.stackBase},{showOptBlob t.stack},{showOptBlob t.ctx}"

def showModule (e : Endian) (os : Os) (m : MModule) : String :=
  let did := match m.cv with
    | none => none
    | some cv => debugId e cv
  let df := match debugFile m with
    | none => "~"
    | some n => Proto.hex n
  s!"{m.base},{m.size},{m.checksum},{m.time},{showNats m.ver},{showName m.name},{showCv m.cv}" ++
  s!",did={showOptStr did},cid={showOptStr (codeId os m)},df={df},ver={showOptStr (version os m)}"

def showRegion (r : MRegion) : String := s!"{r.base},{showBlob r.bytes}"
def showMemInfo (i : MMemInfo) : String := s!"{i.base},{i.allocBase},{i.allocProt},{i.size},{i.state},{i.prot},{i.ty}"
def showThreadName (p : Nat × List Nat) : String := s!"{p.1},{showName p.2}"
def showUnloaded (u : MUnloaded) : String := s!"{u.base},{u.size},{u.checksum},{u.time},{showName u.name}"

def showException : Except Err RException → String
  | .error e => "err " ++ e.name
  | .ok x => s!"{x.threadId},{x.code},{x.flags},{x.record},{x.address},{x.numberParameters},{showNats x.info},{showOptBlob x.ctx}"

def showSysInfo : Except Err RSysInfo → String
  | .error e => "err " ++ e.name
  | .ok s =>
    s!"{s.arch},{s.level},{s.revision},{s.nproc},{s.productType},{s.major},{s.minor},{s.build},{s.platform},{s.suite}," ++
    s!"{showBlob s.cpu}," ++ (match s.csd with | none => "~" | some n => showName n)

def showNatList (vs : List Nat) : String :=
  match vs with
  | [v] => toString v
  | _ => s!"{vs.length}:{Proto.natToHex (fnv64 (vs.flatMap (leBytes 8))).toNat}"

/-- `<ver>;<accessor>=<value|~>;…` for every accessor of `RawMiscInfo`, in the table's order -/
def showMiscInfo : Except Err MiscInfo → String
  | .error e => "err " ++ e.name
  | .ok mi => Proto.joinWith ";" (toString mi.ver :: MISC_ACCESSORS.map fun (name, since, flag) =>
      name ++ "=" ++ (match miscAccessWith mi name since flag with
        | none => "~"
        | some vs => showNatList vs))

def showOptName : Option (List Nat) → String
  | none => "~"
  | some n => showName n

def showHandle (h : RHandle) : String :=
  s!"{if h.v2 then 2 else 1},{h.handle},{showOptName h.typeName},{showOptName h.objectName},{h.attributes}," ++
  s!"{h.grantedAccess},{h.handleCount},{h.pointerCount}," ++
  Proto.joinWith "/" (h.infos.map fun (t, sz) => s!"{t}:{sz}")

def showMapPath : MapPath → String
  | .path p => "p" ++ Proto.hex p
  | .heap => "h" | .stack => "s" | .vdso => "d" | .vvar => "v" | .vsyscall => "y" | .rollup => "r" | .anonymous => "a"
  | .tstack tid => s!"t{tid}"
  | .vsys key => s!"k{key}"
  | .other x => "o" ++ Proto.hex x

def showMapEntry (x : MapEntry) : String :=
  s!"{x.lo},{x.hi},{x.perms},{x.offset},{x.devMajor},{x.devMinor},{x.inode},{showMapPath x.path}"

/-- `MinidumpLinuxMaps::from_regions` [2591]: `(memory_range(), index)` through `into_rangemap_safe`
    (C08's model; `memory_range()` = `mkRangeMap lo hi`, the final address taken as inclusive) -/
def mapsTable (xs : List MapEntry) : List RangeMap.Entry :=
  RangeMap.safeVec (xs.zipIdx.map fun (x, i) => (RangeMap.mkRangeMap x.lo x.hi, i))

/-- `memory_info_at_address` around both ends of every entry: `<addr>:<index|~>` -/
def showMapProbes (xs : List MapEntry) : String :=
  let addrs := xs.flatMap fun x =>
    (if x.lo > 0 then [x.lo - 1] else []) ++ [x.lo, x.hi] ++ (if x.hi < U64MAX then [x.hi + 1] else [])
  Proto.joinWith "," (addrs.map fun a =>
    match RangeMap.get (mapsTable xs) a with
    | none => s!"{a}:~"
    | some i => s!"{a}:{i}")

def showLinuxMaps : Except Err (List MapEntry) → String
  | .error e => "err " ++ e.name
  | .ok xs => "[" ++ Proto.joinWith ";" (xs.map showMapEntry) ++ "]|" ++ showMapProbes xs

def showX (b : List UInt8) : String := "x" ++ Proto.hex b
def showKvs (d : List (List UInt8 × List UInt8)) : String :=
  Proto.joinWith "/" (d.map fun (k, v) => showX k ++ ":" ++ showX v)
def showAnnValue : RAnnValue → String
  | .invalid => "i"
  | .string s => "s:" ++ showX s
  | .userDefined ty v => s!"u:{ty}:{v}"
  | .unsupported ty v => s!"n:{ty}:{v}"
def showModuleCrashpad (x : RModuleCrashpad) : String :=
  s!"{x.index}!{x.version}!" ++ Proto.joinWith "/" (x.listAnnotations.map showX) ++ "!" ++ showKvs x.simpleAnnotations ++ "!" ++
  Proto.joinWith "/" (x.annotationObjects.map fun (k, v) => showX k ++ "=" ++ showAnnValue v)
def showCrashpad : Except Err RCrashpad → String
  | .error e => "err " ++ e.name
  | .ok x => s!"{x.version},{showNats x.ids},{showKvs x.simpleAnnotations}," ++
      Proto.joinWith "+" (x.modules.map showModuleCrashpad)

/-- the probe addresses of a region list: around both ends of every region -/
def probeAddrs (rs : List MRegion) : List Nat :=
  rs.flatMap fun r =>
    let last := r.base + r.bytes.length
    (if r.base > 0 then [r.base - 1] else []) ++ [r.base] ++
    (if r.bytes.length > 0 ∧ last - 1 ≤ U64MAX then [last - 1] else []) ++
    (if last ≤ U64MAX then [last] else [])

def showProbes : Except Err (List MRegion) → String
  | .error _ => "-"
  | .ok rs => Proto.joinWith "," ((probeAddrs rs).map fun a =>
      match memoryByteAt rs a with
      | none => s!"{a}:~"
      | some b => s!"{a}:{b.toNat}")

/-- canonical text of a `Reported` WITHOUT the byte order (so LE and BE reports can be compared) -/
def showReported (r : Reported) : String :=
  let os := reportedOs r
  Proto.joinWith " " [
    s!"fl={r.flags}",
    "T=" ++ showList showThread r.threads,
    "M=" ++ showList (showModule r.endian os) r.modules,
    "R=" ++ showList showRegion r.memory,
    "P=" ++ showProbes r.memory,
    "I=" ++ showList showMemInfo r.memInfo,
    "N=" ++ showList showThreadName r.threadNames,
    "U=" ++ showList showUnloaded r.unloaded,
    "X=" ++ showException r.exception,
    "S=" ++ showSysInfo r.sysInfo,
    "Y=" ++ showMiscInfo r.miscInfo,
    "H=" ++ showList showHandle r.handles,
    "L=" ++ showLinuxMaps r.linuxMaps,
    "C=" ++ showCrashpad r.crashpad]

def showEndian : Endian → String
  | .little => "le"
  | .big => "be"

def answerDecode (b : Bytes) : String :=
  match decode b with
  | .panic site => "PANIC " ++ site
  | .err e => "err " ++ e.name
  | .ok r => showEndian r.endian ++ " " ++ showReported r

def parseEndian : String → Option Endian
  | "le" => some .little
  | "be" => some .big
  | _ => none

def parseForm : String → Option MemForm
  | "mem" => some .mem
  | "mem64" => some .mem64
  | _ => none

/-- line-protocol entry point (engine `roundtrip`):
      roundtrip decode <hex(bytes)>                        -> <le|be> <report>  | err <Error> | PANIC <site>
      roundtrip encode <le|be> <mem|mem64> <model: 11 fields + optional ones> -> hex(bytes)
      roundtrip report <le|be> <mem|mem64> <model>          -> <le|be> <report of `report m e f`>
      roundtrip all <hex> <hex> <hex> <hex> <model>          -> the four decode answers, the four encodings
        (le/mem, be/mem, le/mem64, be/mem64) and the four `report`s, separated by ` ## ` -/
def handle (args : List String) : String :=
  match args with
  | ["decode", hex] =>
    match Proto.unhex hex with
    | none => "bad-op"
    | some bs => answerDecode bs.toArray
  | "encode" :: en :: fm :: model =>
    match parseEndian en, parseForm fm, parseModel model with
    | some e, some f, some m => Proto.hex (encodeList m e f)
    | _, _, _ => "bad-op"
  | "report" :: en :: fm :: model =>
    match parseEndian en, parseForm fm, parseModel model with
    | some e, some f, some m => showEndian e ++ " " ++ showReported (report m e f)
    | _, _, _ => "bad-op"
  | "all" :: h1 :: h2 :: h3 :: h4 :: model =>
    match [h1, h2, h3, h4].mapM Proto.unhex, parseModel model with
    | some dumps, some m =>
      let cfgs : List (Endian × MemForm) := [(.little, .mem), (.big, .mem), (.little, .mem64), (.big, .mem64)]
      Proto.joinWith " ## " (
        dumps.map (fun bs => answerDecode bs.toArray) ++
        cfgs.map (fun (e, f) => Proto.hex (encodeList m e f)) ++
        cfgs.map (fun (e, f) => showEndian e ++ " " ++ showReported (report m e f)))
    | _, _ => "bad-op"
  | _ => "bad-op"

end MdModel.Encode
