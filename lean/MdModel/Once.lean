/-
  MdModel.Once — placeholder (model not written yet).
-/
import MdModel.Prelude
namespace MdModel.Once

/-- line-protocol entry point of this model (engine(s): once) -/
def handle (_engine : String) (_args : List String) : String := "bad-op"

end MdModel.Once
