/-
  MdModel.Once — line protocol of engine `once` (C12). The machines live in
    MdModel.OnceCore  base interleaving machine (CachedAsyncResult::get + get_symbols + futures Mutex)
    MdModel.OnceG     the same machine over programs whose continuation depends on the observed result
    MdModel.OnceReq   module identity / module_key, providers, request kinds, slots, outcomes, stats
-/
import MdModel.OnceReq
namespace MdModel.Once
open MdModel

/-! ### line protocol
  `once run x:<a|w|j> tasks:<k,k,..;k,..;..> sup:<k=delay:res,..> sched:<n,n,..|->`
    x:a  every schedule entry is a task id to poll (any id; finished/unknown ids are no-ops)
    x:w  every schedule entry c picks the (c mod |R|)-th task of R = woken unfinished tasks
         (`stall` and stop if R is empty while some task is unfinished)
    x:j  no scheduled part (join_all on a runtime: only the final summary is comparable)
  answer: one entry per poll `<t>[<events>]<req>/<proc>w<woken bits>f<finished bits>` joined by `;`
          then ` final fin=<0|1> req=<n> proc=<n> calls:<k>x<n>,.. seen:<t>:<k>=<res>,..;..`
          (the final summary is taken after a round-robin completion phase)
-/
open Proto

def Res.toStr : Res → String
  | .ok => "ok" | .notFound => "nf" | .parseError => "pe"

def parseRes (s : String) : Option Res :=
  match s with
  | "ok" => some .ok | "nf" => some .notFound | "pe" => some .parseError | _ => none

def Event.toStr : Event → String
  | .call k => s!"c{k}"
  | .ret k => s!"r{k}"
  | .seen t k r => s!"s{t}.{k}={r.toStr}"

def allSome {α : Type} : List (Option α) → Option (List α)
  | [] => some []
  | none :: _ => none
  | some a :: rest => (allSome rest).map (a :: ·)

def parseNats (s : String) (sep : String) : Option (List Nat) :=
  if s == "-" then some [] else allSome ((s.splitOn sep).map optNat)

/-- a program entry: a key, optionally suffixed `w` (that lookup goes through `walk_frame`
    instead of `fill_symbol`; both reach `get_symbols`, the model does not distinguish them) -/
def optKey (s : String) : Option Nat :=
  if s.endsWith "w" then optNat (s.dropEnd 1).toString else optNat s

def parseTasks (s : String) : Option (List (List Nat)) :=
  allSome ((s.splitOn ";").map fun p =>
    if p == "-" then some [] else allSome ((p.splitOn ",").map optKey))

def parseSup (s : String) : Option (List (Nat × Sup)) :=
  allSome ((s.splitOn ",").map fun p =>
    match p.splitOn "=" with
    | [k, v] =>
      match v.splitOn ":" with
      | [d, r] =>
        match optNat k, optNat d, parseRes r with
        | some k, some d, some r => some (k, ⟨d, r⟩)
        | _, _, _ => none
      | _ => none
    | _ => none)

def supOf (tbl : List (Nat × Sup)) (k : Nat) : Sup :=
  match tbl.find? (fun e => e.1 == k) with
  | some e => e.2
  | none => ⟨0, .notFound⟩

def bits (cfg : Cfg) (f : Nat → Bool) : String :=
  String.ofList ((List.range cfg.ntasks).map fun t => if f t then '1' else '0')

def pollEntry (cfg : Cfg) (t : Nat) (before after : State) : String :=
  let evs := after.log.drop before.log.length
  s!"{t}[" ++ joinWith "," (evs.map Event.toStr) ++ s!"]{after.requested}/{after.processed}w" ++
    bits cfg (fun u => (after.task u).woken) ++ "f" ++ bits cfg (isFin after)

def summary (cfg : Cfg) (s : State) : String :=
  let keys := (allKeys cfg).mergeSort (· ≤ ·)
  let calls := keys.filterMap fun k =>
    let n := callCount k s.log
    if n == 0 then none else some s!"{k}x{n}"
  let seen := (List.range cfg.ntasks).map fun t =>
    s!"{t}:" ++ joinWith "," ((seenBy t s.log).map fun (k, r) => s!"{k}={r.toStr}")
  s!"final fin={if allFin cfg s then 1 else 0} req={s.requested} proc={s.processed} calls:" ++
    joinWith "," calls ++ " seen:" ++ joinWith ";" seen

/-- scheduled part, mode `a` -/
def traceA (cfg : Cfg) : List Nat → State → List String → State × List String
  | [], s, acc => (s, acc.reverse)
  | t :: ts, s, acc =>
    let s' := poll cfg t s
    traceA cfg ts s' (pollEntry cfg t s s' :: acc)

/-- scheduled part, mode `w` -/
def traceW (cfg : Cfg) : List Nat → State → List String → State × List String
  | [], s, acc => (s, acc.reverse)
  | c :: cs, s, acc =>
    if allFin cfg s then (s, acc.reverse) else
    let R := runnable cfg s
    match R[c % R.length]? with
    | none => (s, ("stall" :: acc).reverse)
    | some t =>
      let s' := poll cfg t s
      traceW cfg cs s' (pollEntry cfg t s s' :: acc)

def handleRun (args : List String) : String :=
  match args with
  | ["run", x, tasks, sup, sched] =>
    match x.dropPrefix? "x:", tasks.dropPrefix? "tasks:", sup.dropPrefix? "sup:", sched.dropPrefix? "sched:" with
    | some x, some tasks, some sup, some sched =>
      match parseTasks tasks.toString, parseSup sup.toString, parseNats sched.toString "," with
      | some progs, some tbl, some sch =>
        let cfg : Cfg := ⟨progs, supOf tbl⟩
        -- every key of a program must have a supplier entry
        if !(allKeys cfg).all (fun k => tbl.any (fun e => e.1 == k)) then "bad-op" else
        let s0 := init cfg
        let fuel := measure cfg s0 + 1
        match x.toString with
        | "a" =>
          let (s, tr) := traceA cfg sch s0 []
          joinWith ";" tr ++ " " ++ summary cfg (finish cfg fuel s)
        | "w" =>
          let (s, tr) := traceW cfg sch s0 []
          joinWith ";" tr ++ " " ++ summary cfg (finish cfg fuel s)
        | "j" =>
          if sch ≠ [] then "bad-op" else " " ++ summary cfg (finish cfg fuel s0)
        | _ => "bad-op"
      | _, _, _ => "bad-op"
    | _, _, _, _ => "bad-op"
  | _ => "bad-op"


/-! ### line protocol of the request-level machine
  `once req x:<a|w|j|m> mods:<mod;mod;..> provs:<u..|U|c|-> tasks:<req,req;..> sym:<p.k=d:res,..|-> file:<p.k.fk=d:res,..|-> sched:<..>`
    mod    `<cf>.<ci>.<df>.<di>`: cf = `a` (no code file) | `e` (empty string) | `<dir>_<leaf>`;
           ci, df, di = `n` (None) | number
    provs  one letter per provider: `u` its supplier does not cache files, `c` it does
           (`U`: one provider, used WITHOUT a MultiSymbolProvider around it; same model)
    req    `f<m>` fill_symbol, `w<m>` walk_frame, `g<fk>_<m>` get_file_path(kind fk) on module index m
    sym    locate_symbols of provider p for module KEY k (= index of the first module with that key):
           `ok` symbols with CFI at the walked address, `on` symbols without, `nf`, `pe`
    file   locate_file of provider p for key k and kind fk: `ok` | `nf`
    x:m    as x:j, on a multi-thread runtime (only the final summary is comparable)
  per poll `<t>[<events>|<answers>]<req>/<proc>,..m<req>/<proc>[S<p>:<stats>..]w<bits>f<bits>` (one req/proc
  pair per provider, then MultiSymbolProvider::pending_stats, then the statistics map of every provider
  whose map changed during the poll), then
  ` final fin= pend= m= calls: fcalls: outs: stats: mstats:`.
-/

def parseOptNat (s : String) : Option (Option Nat) :=
  if s == "n" then some none else (optNat s).map some

def parseCodeFile (s : String) : Option CodeFile :=
  if s == "a" then some .absent else if s == "e" then some .empty else
  match s.splitOn "_" with
  | [d, l] => match optNat d, optNat l with
    | some d, some l => some (.path d l)
    | _, _ => none
  | _ => none

def parseMod (s : String) : Option ModId :=
  match s.splitOn "." with
  | [cf, ci, df, di] =>
    match parseCodeFile cf, parseOptNat ci, parseOptNat df, parseOptNat di with
    | some cf, some ci, some df, some di => some ⟨cf, ci, df, di⟩
    | _, _, _, _ => none
  | _ => none

def parseReq (s : String) : Option Req :=
  match s.toList with
  | 'f' :: r => (optNat (String.ofList r)).map fun m => ⟨.fill, m⟩
  | 'w' :: r => (optNat (String.ofList r)).map fun m => ⟨.walk, m⟩
  | 'g' :: r =>
    match (String.ofList r).splitOn "_" with
    | [fk, m] => match optNat fk, optNat m with
      | some fk, some m => if fk < 3 then some ⟨.file fk, m⟩ else none
      | _, _ => none
    | _ => none
  | _ => none

def parseReqs (s : String) : Option (List (List Req)) :=
  allSome ((s.splitOn ";").map fun p =>
    if p == "-" then some [] else allSome ((p.splitOn ",").map parseReq))

/-- `p.k=d:res` → ((p, k), delay, res, cfi) -/
def parseSymTbl (s : String) : Option (List ((Nat × Nat) × Sup × Bool)) :=
  if s == "-" then some [] else
  allSome ((s.splitOn ",").map fun e =>
    match e.splitOn "=" with
    | [pk, v] =>
      match pk.splitOn ".", v.splitOn ":" with
      | [p, k], [d, r] =>
        let res : Option (Res × Bool) :=
          match r with
          | "ok" => some (.ok, true) | "on" => some (.ok, false)
          | "nf" => some (.notFound, false) | "pe" => some (.parseError, false) | _ => none
        match optNat p, optNat k, optNat d, res with
        | some p, some k, some d, some (r, c) => some ((p, k), ⟨d, r⟩, c)
        | _, _, _, _ => none
      | _, _ => none
    | _ => none)

/-- `p.k.fk=d:res` → ((p, k, fk), delay, res) -/
def parseFileTbl (s : String) : Option (List ((Nat × Nat × Nat) × Sup)) :=
  if s == "-" then some [] else
  allSome ((s.splitOn ",").map fun e =>
    match e.splitOn "=" with
    | [pk, v] =>
      match pk.splitOn ".", v.splitOn ":" with
      | [p, k, fk], [d, r] =>
        let res : Option Res := match r with | "ok" => some .ok | "nf" => some .notFound | _ => none
        match optNat p, optNat k, optNat fk, optNat d, res with
        | some p, some k, some fk, some d, some r => some ((p, k, fk), ⟨d, r⟩)
        | _, _, _, _, _ => none
      | _, _ => none
    | _ => none)

def parseProvFlags (s : String) : Option (List Bool) :=
  if s == "-" then some [] else
  allSome (s.toList.map fun c =>
    if c == 'u' || c == 'U' then some false else if c == 'c' then some true else none)

def mkProvs (flags : List Bool) (st : List ((Nat × Nat) × Sup × Bool))
    (ft : List ((Nat × Nat × Nat) × Sup)) : List Prov :=
  (List.range flags.length).map fun p =>
    { sym := fun k => match st.find? (fun e => e.1 == (p, k)) with
        | some e => e.2.1 | none => ⟨0, .notFound⟩
      cfi := fun k => match st.find? (fun e => e.1 == (p, k)) with
        | some e => e.2.2 | none => false
      file := fun k fk => match ft.find? (fun e => e.1 == (p, k, fk)) with
        | some e => e.2 | none => ⟨0, .notFound⟩
      cached := flags.getD p false }

/-- every consulted table entry is present and every request names a module of the table -/
def tablesOk (rc : RCfg) (st : List ((Nat × Nat) × Sup × Bool))
    (ft : List ((Nat × Nat × Nat) × Sup)) : Bool :=
  rc.progs.all fun prog => prog.all fun q =>
    q.mod < rc.M &&
    (List.range rc.P).all fun p =>
      match q.kind with
      | .file fk => ft.any fun e => e.1 == (p, rc.key q.mod, fk)
      | _ => st.any fun e => e.1 == (p, rc.key q.mod)

/-- a slot as (provider, key, file kind or none) -/
def slotLabel (rc : RCfg) (s : Nat) : Nat × Nat × Option Nat :=
  let x := s / 4
  match s % 4 with
  | 0 => (x / rc.M, x % rc.M, none)
  | 1 => (x / 3 / rc.M, x / 3 % rc.M, some (x % 3))
  | _ =>
    match (rc.prog (x / rc.P % rc.T))[x / rc.P / rc.T]? with
    | some ⟨.file fk, m⟩ => (x % rc.P, rc.key m, some fk)
    | _ => (x % rc.P, 0, some 9)

def labelStr (l : Nat × Nat × Option Nat) : String :=
  match l with
  | (p, k, none) => s!"{p}.{k}"
  | (p, k, some fk) => s!"{p}.{k}.{fk}"

def rEventStr (rc : RCfg) : Event → String
  | .call s => let l := slotLabel rc s; (if l.2.2.isSome then "C" else "c") ++ labelStr l
  | .ret s => let l := slotLabel rc s; (if l.2.2.isSome then "R" else "r") ++ labelStr l
  | .seen t s r =>
    let l := slotLabel rc s
    match l.2.2 with
    | none => s!"s{t}." ++ labelStr l ++ "=" ++ r.toStr
    | some _ => s!"S{t}." ++ labelStr l ++ "=" ++ r.toStr

def ROut.toStr : ROut → String
  | .fillOk p => s!"F{p}" | .fillErr => "F-"
  | .walkOk p => s!"W{p}" | .walkNone => "W-"
  | .fileOk p => s!"P{p}" | .fileErr => "P-"

def gbits (rc : RCfg) (f : Nat → Bool) : String :=
  String.ofList ((List.range rc.T).map fun t => if f t then '1' else '0')

def pendStr (rc : RCfg) (log : List Event) : String :=
  joinWith "," ((List.range rc.P).map fun p => s!"{reqCount rc p log}/{procCount rc p log}") ++
    (let m := multiPending rc log; s!"m{m.1}/{m.2}")

def leafStr : Option Nat → String
  | none => "-"
  | some l => toString l

/-- all statistics keys that can occur: the empty leaf and every leaf of the module table -/
def allLeaves (rc : RCfg) : List (Option Nat) :=
  let mx := rc.mods.foldl (fun a m => match m.codeFile.str.leaf with | some l => max a (l + 1) | none => a) 0
  none :: (List.range mx).map some

def statsStr (rc : RCfg) (get : Option Nat → Option Res) : String :=
  joinWith "," ((allLeaves rc).filterMap fun l => (get l).map fun r => leafStr l ++ "=" ++ r.toStr)

/-- the answers task `t` has received so far (without providers a request performs no lookup at all:
    its answer arrives when the task first runs) -/
def answers (rc : RCfg) (t : Nat) (s : GState) : List ROut :=
  if rc.P = 0 && !gisFin s t then [] else outcomes rc t s.log

def rPollEntry (rc : RCfg) (t : Nat) (before after : GState) : String :=
  let evs := after.log.drop before.log.length
  let outs := (answers rc t after).drop (answers rc t before).length
  let statsDelta := String.join ((List.range rc.P).map fun p =>
    let b := statsStr rc (statGet (statWrites rc p before.log))
    let a := statsStr rc (statGet (statWrites rc p after.log))
    if a == b then "" else s!"S{p}:{a}")
  s!"{t}[" ++ joinWith "," (evs.map (rEventStr rc)) ++ "|" ++ joinWith "," (outs.map ROut.toStr) ++ "]" ++
    pendStr rc after.log ++ statsDelta ++ "w" ++ gbits rc (fun u => (after.task u).woken) ++ "f" ++ gbits rc (gisFin after)

def rSummary (rc : RCfg) (s : GState) : String :=
  let keys := (List.range rc.M).filter fun k => rc.key k == k
  let calls := (List.range rc.P).flatMap fun p => keys.filterMap fun k =>
    let n := callCount (symSlot rc p k) s.log
    if n == 0 then none else some s!"{p}.{k}x{n}"
  let fcalls := (List.range rc.P).flatMap fun p => keys.flatMap fun k => (List.range 3).filterMap fun fk =>
    let n := (s.log.filter fun e => match e with
      | .call sl => sl % 4 != 0 && slotLabel rc sl == (p, k, some fk)
      | _ => false).length
    if n == 0 then none else some s!"{p}.{k}.{fk}x{n}"
  let outs := (List.range rc.T).map fun t =>
    s!"{t}:" ++ joinWith "," ((outcomes rc t s.log).map ROut.toStr)
  let stats := (List.range rc.P).map fun p =>
    s!"{p}:" ++ statsStr rc (statGet (statWrites rc p s.log))
  s!"final fin={if gallFin (toICfg rc) s then 1 else 0} pend=" ++ pendStr rc s.log ++
    " calls:" ++ joinWith "," calls ++ " fcalls:" ++ joinWith "," fcalls ++
    " outs:" ++ joinWith ";" outs ++ " stats:" ++ joinWith ";" stats ++
    " mstats:" ++ statsStr rc (multiStatGet rc s.log)

def rTraceA (rc : RCfg) : List Nat → GState → List String → GState × List String
  | [], s, acc => (s, acc.reverse)
  | t :: ts, s, acc =>
    let s' := gpoll (toICfg rc) t s
    rTraceA rc ts s' (rPollEntry rc t s s' :: acc)

def rTraceW (rc : RCfg) : List Nat → GState → List String → GState × List String
  | [], s, acc => (s, acc.reverse)
  | c :: cs, s, acc =>
    if gallFin (toICfg rc) s then (s, acc.reverse) else
    let R := grunnable (toICfg rc) s
    match R[c % R.length]? with
    | none => (s, ("stall" :: acc).reverse)
    | some t =>
      let s' := gpoll (toICfg rc) t s
      rTraceW rc cs s' (rPollEntry rc t s s' :: acc)

def buildRCfg (mods provs tasks sym file : String) : Option RCfg :=
  match allSome ((mods.splitOn ";").map parseMod), parseProvFlags provs, parseReqs tasks,
      parseSymTbl sym, parseFileTbl file with
  | some mods, some flags, some progs, some st, some ft =>
    let rc : RCfg := ⟨mods, mkProvs flags st ft, progs⟩
    if tablesOk rc st ft then some rc else none
  | _, _, _, _, _ => none

def handleReq (args : List String) : String :=
  match args with
  | [x, mods, provs, tasks, sym, file, sched] =>
    match x.dropPrefix? "x:", mods.dropPrefix? "mods:", provs.dropPrefix? "provs:",
        tasks.dropPrefix? "tasks:", sym.dropPrefix? "sym:", file.dropPrefix? "file:",
        sched.dropPrefix? "sched:" with
    | some x, some mods, some provs, some tasks, some sym, some file, some sched =>
      match buildRCfg mods.toString provs.toString tasks.toString sym.toString file.toString,
          parseNats sched.toString "," with
      | some rc, some sch =>
        let ic := toICfg rc
        let s0 := ginit ic
        let fuel := gfuel ic
        match x.toString with
        | "a" =>
          let (s, tr) := rTraceA rc sch s0 []
          joinWith ";" tr ++ " " ++ rSummary rc (gfinish ic fuel s)
        | "w" =>
          let (s, tr) := rTraceW rc sch s0 []
          joinWith ";" tr ++ " " ++ rSummary rc (gfinishW ic fuel s)
        | "j" => if sch ≠ [] then "bad-op" else " " ++ rSummary rc (gfinish ic fuel s0)
        | "m" => if sch ≠ [] then "bad-op" else " " ++ rSummary rc (gfinish ic fuel s0)
        | _ => "bad-op"
      | _, _ => "bad-op"
    | _, _, _, _, _, _, _ => "bad-op"
  | _ => "bad-op"

/-! ### `HttpSymbolSupplier` (one provider whose supplier caches files)
  `once http x:<j|m> mods:<..> urls:<n> tasks:<req,..;..> srv:<k.<fk|s>=<u|n>:<0|1>,..>`
    srv   per module key and file kind (`s` = the symbol file fetched by `locate_symbols`): the index
          of the first server that answers 200 (`n`: none does) and whether the file is already in
          the local cache directory
    `fill` requests go through a `Symbolizer` around the supplier, `g` requests straight to
    `locate_file_internal`. The model is the request-level machine with ONE provider, `cached`;
    a supplier call of a slot performs the GET sequence `gets` — so "at most one call per slot" is
    "at most one GET sequence per (module key, kind)".
  answer: ` final fin= pend= outs: gets:<k.fk>:<u>=<status>x<n>,..;..` (n = number of supplier calls
  of that slot; slots whose call performs no GET are not listed)
-/

/-- (served-at, local) per (key, kind 0..2 or 3 = symbols) -/
def parseSrv (s : String) : Option (List ((Nat × Nat) × Option Nat × Bool)) :=
  if s == "-" then some [] else
  allSome ((s.splitOn ",").map fun e =>
    match e.splitOn "=" with
    | [kk, v] =>
      match kk.splitOn ".", v.splitOn ":" with
      | [k, fk], [u, l] =>
        let fk := if fk == "s" then some 3 else (optNat fk).bind fun n => if n < 3 then some n else none
        let l := if l == "1" then some true else if l == "0" then some false else none
        match optNat k, fk, parseOptNat u, l with
        | some k, some fk, some u, some l => some ((k, fk), u, l)
        | _, _, _, _ => none
      | _, _ => none
    | _ => none)

/-- the GET sequence of one supplier call: nothing if the file is found locally, otherwise the
    servers in order up to the first 200 -/
def httpGets (nurls : Nat) (served : Option Nat) (loc : Bool) : List (Nat × Nat) :=
  if loc then [] else
  match served with
  | some u => if u < nurls then (List.range u).map (·, 404) ++ [(u, 200)] else (List.range nurls).map (·, 404)
  | none => (List.range nurls).map (·, 404)

def httpRes (nurls : Nat) (served : Option Nat) (loc : Bool) : Res :=
  if loc then .ok else
  match served with
  | some u => if u < nurls then .ok else .notFound
  | none => .notFound

def handleHttp (args : List String) : String :=
  match args with
  | [x, mods, urls, tasks, srv] =>
    match x.dropPrefix? "x:", mods.dropPrefix? "mods:", urls.dropPrefix? "urls:",
        tasks.dropPrefix? "tasks:", srv.dropPrefix? "srv:" with
    | some x, some mods, some urls, some tasks, some srv =>
      match allSome ((mods.toString.splitOn ";").map parseMod), optNat urls.toString,
          parseReqs tasks.toString, parseSrv srv.toString with
      | some mods, some nurls, some progs, some tbl =>
        if !(x.toString == "j" || x.toString == "m") then "bad-op" else
        let look := fun (k fk : Nat) => (tbl.find? fun e => e.1 == (k, fk)).map (·.2)
        let prov : Prov :=
          { sym := fun k => match look k 3 with
              | some (u, l) => ⟨0, httpRes nurls u l⟩ | none => ⟨0, .notFound⟩
            cfi := fun _ => true
            file := fun k fk => match look k fk with
              | some (u, l) => ⟨0, httpRes nurls u l⟩ | none => ⟨0, .notFound⟩
            cached := true }
        let rc : RCfg := ⟨mods, [prov], progs⟩
        let okTbl := progs.all fun prog => prog.all fun q =>
          q.mod < rc.M && (match q.kind with
            | .file fk => (look (rc.key q.mod) fk).isSome
            | .fill => (look (rc.key q.mod) 3).isSome
            | .walk => false)
        if !okTbl then "bad-op" else
        let ic := toICfg rc
        let s := gfinish ic (gfuel ic) (ginit ic)
        let keys := (List.range rc.M).filter fun k => rc.key k == k
        let gets := keys.flatMap fun k => (List.range 4).filterMap fun fk =>
          let n := if fk == 3 then callCount (symSlot rc 0 k) s.log else callCount (fileSlot rc 0 k fk) s.log
          match look k fk with
          | some (u, l) =>
            if n == 0 then none else
            let gs := httpGets nurls u l
            if gs.isEmpty then none else
            some (s!"{k}.{if fk == 3 then "s" else toString fk}:" ++
              joinWith "," (gs.map fun g => s!"{g.1}={g.2}x{n}"))
          | none => none
        let outs := (List.range rc.T).map fun t =>
          s!"{t}:" ++ joinWith "," ((outcomes rc t s.log).map ROut.toStr)
        s!" final fin={if gallFin ic s then 1 else 0} pend={reqCount rc 0 s.log}/{procCount rc 0 s.log}" ++
          " outs:" ++ joinWith ";" outs ++ " gets:" ++ joinWith ";" gets
      | _, _, _, _ => "bad-op"
    | _, _, _, _, _ => "bad-op"
  | _ => "bad-op"

def handle (_engine : String) (args : List String) : String :=
  match args with
  | "run" :: _ => handleRun args
  | "req" :: rest => handleReq rest
  | "http" :: rest => handleHttp rest
  | _ => "bad-op"

end MdModel.Once
