/-
  MdModel.Once — line protocol of engine `once` (C12). The machines live in
    MdModel.OnceCore  base interleaving machine (CachedAsyncResult::get + get_symbols + futures Mutex)
    MdModel.OnceG     the same machine over programs whose continuation depends on the observed result
    MdModel.OnceReq   module identity / module_key, providers, request kinds, slots, outcomes, stats
-/
import MdModel.OnceG
namespace MdModel.Once
open MdModel

/-! ### line protocol
  `once run x:<a|w|j> tasks:<k,k,..;k,..;..> sup:<k=delay:res,..> sched:<n,n,..|->`
    x:a  every schedule entry is a task id to poll (any id; finished/unknown ids are no-ops)
    x:w  every schedule entry c picks the (c mod |R|)-th task of R = woken unfinished tasks
         (`stall` and stop if R is empty while some task is unfinished)
    x:j  no scheduled part (join_all on a runtime: only the final summary is comparable)
  answer: one entry per poll `<t>[<events>]<req>/<proc>w<woken bits>f<finished bits>` joined by `;`
          then ` final fin=<0|1> req=<n> proc=<n> calls:<k>x<n>,.. seen:<t>:<k>=<res>,..;..`
          (the final summary is taken after a round-robin completion phase)
-/
open Proto

def Res.toStr : Res → String
  | .ok => "ok" | .notFound => "nf" | .parseError => "pe"

def parseRes (s : String) : Option Res :=
  match s with
  | "ok" => some .ok | "nf" => some .notFound | "pe" => some .parseError | _ => none

def Event.toStr : Event → String
  | .call k => s!"c{k}"
  | .ret k => s!"r{k}"
  | .seen t k r => s!"s{t}.{k}={r.toStr}"

def allSome {α : Type} : List (Option α) → Option (List α)
  | [] => some []
  | none :: _ => none
  | some a :: rest => (allSome rest).map (a :: ·)

def parseNats (s : String) (sep : String) : Option (List Nat) :=
  if s == "-" then some [] else allSome ((s.splitOn sep).map optNat)

/-- a program entry: a key, optionally suffixed `w` (that lookup goes through `walk_frame`
    instead of `fill_symbol`; both reach `get_symbols`, the model does not distinguish them) -/
def optKey (s : String) : Option Nat :=
  if s.endsWith "w" then optNat (s.dropEnd 1).toString else optNat s

def parseTasks (s : String) : Option (List (List Nat)) :=
  allSome ((s.splitOn ";").map fun p =>
    if p == "-" then some [] else allSome ((p.splitOn ",").map optKey))

def parseSup (s : String) : Option (List (Nat × Sup)) :=
  allSome ((s.splitOn ",").map fun p =>
    match p.splitOn "=" with
    | [k, v] =>
      match v.splitOn ":" with
      | [d, r] =>
        match optNat k, optNat d, parseRes r with
        | some k, some d, some r => some (k, ⟨d, r⟩)
        | _, _, _ => none
      | _ => none
    | _ => none)

def supOf (tbl : List (Nat × Sup)) (k : Nat) : Sup :=
  match tbl.find? (fun e => e.1 == k) with
  | some e => e.2
  | none => ⟨0, .notFound⟩

def bits (cfg : Cfg) (f : Nat → Bool) : String :=
  String.ofList ((List.range cfg.ntasks).map fun t => if f t then '1' else '0')

def pollEntry (cfg : Cfg) (t : Nat) (before after : State) : String :=
  let evs := after.log.drop before.log.length
  s!"{t}[" ++ joinWith "," (evs.map Event.toStr) ++ s!"]{after.requested}/{after.processed}w" ++
    bits cfg (fun u => (after.task u).woken) ++ "f" ++ bits cfg (isFin after)

def summary (cfg : Cfg) (s : State) : String :=
  let keys := (allKeys cfg).mergeSort (· ≤ ·)
  let calls := keys.filterMap fun k =>
    let n := callCount k s.log
    if n == 0 then none else some s!"{k}x{n}"
  let seen := (List.range cfg.ntasks).map fun t =>
    s!"{t}:" ++ joinWith "," ((seenBy t s.log).map fun (k, r) => s!"{k}={r.toStr}")
  s!"final fin={if allFin cfg s then 1 else 0} req={s.requested} proc={s.processed} calls:" ++
    joinWith "," calls ++ " seen:" ++ joinWith ";" seen

/-- scheduled part, mode `a` -/
def traceA (cfg : Cfg) : List Nat → State → List String → State × List String
  | [], s, acc => (s, acc.reverse)
  | t :: ts, s, acc =>
    let s' := poll cfg t s
    traceA cfg ts s' (pollEntry cfg t s s' :: acc)

/-- scheduled part, mode `w` -/
def traceW (cfg : Cfg) : List Nat → State → List String → State × List String
  | [], s, acc => (s, acc.reverse)
  | c :: cs, s, acc =>
    if allFin cfg s then (s, acc.reverse) else
    let R := runnable cfg s
    match R[c % R.length]? with
    | none => (s, ("stall" :: acc).reverse)
    | some t =>
      let s' := poll cfg t s
      traceW cfg cs s' (pollEntry cfg t s s' :: acc)

def handle (_engine : String) (args : List String) : String :=
  match args with
  | ["run", x, tasks, sup, sched] =>
    match x.dropPrefix? "x:", tasks.dropPrefix? "tasks:", sup.dropPrefix? "sup:", sched.dropPrefix? "sched:" with
    | some x, some tasks, some sup, some sched =>
      match parseTasks tasks.toString, parseSup sup.toString, parseNats sched.toString "," with
      | some progs, some tbl, some sch =>
        let cfg : Cfg := ⟨progs, supOf tbl⟩
        -- every key of a program must have a supplier entry
        if !(allKeys cfg).all (fun k => tbl.any (fun e => e.1 == k)) then "bad-op" else
        let s0 := init cfg
        let fuel := measure cfg s0 + 1
        match x.toString with
        | "a" =>
          let (s, tr) := traceA cfg sch s0 []
          joinWith ";" tr ++ " " ++ summary cfg (finish cfg fuel s)
        | "w" =>
          let (s, tr) := traceW cfg sch s0 []
          joinWith ";" tr ++ " " ++ summary cfg (finish cfg fuel s)
        | "j" =>
          if sch ≠ [] then "bad-op" else " " ++ summary cfg (finish cfg fuel s0)
        | _ => "bad-op"
      | _, _, _ => "bad-op"
    | _, _, _, _ => "bad-op"
  | _ => "bad-op"

end MdModel.Once
