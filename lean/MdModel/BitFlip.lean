/-
  MdModel.BitFlip — model of the bit-flip analysis of `minidump-processor`:
    * `MinidumpInfo::check_for_bitflips`                    (processor.rs:718-784)
    * `bitflip::{BitRange, try_bit_flips}`                  (processor.rs:1467-1537)
    * `memory_operation::MemoryOperation::{from_crash_reason, is_possibly_allowed_for}`
                                                            (processor.rs:1431-1451)
    * `PossibleBitFlip::{new, calculate_heuristics}`, `BitFlipDetails::confidence`,
      `confidence::combine` and the confidence constants    (process_state.rs:276-426)
    * `UnifiedMemoryInfoList::memory_info_at_address` over either a `MinidumpMemoryInfoList`
      or a `MinidumpLinuxMaps` (minidump.rs:2440-2760): the range table is the C08 model
      (`MdModel.RangeMap.safe` / `get`), permissions are `is_readable/is_writable/is_executable`
      of the two region kinds.
    * `Cpu::pointer_width` (system_info.rs:132), `MinidumpContext::{get_register,
      valid_registers, register_size}` as far as this analysis uses them.

  Addresses are `Nat` (`< 2^64` is a theorem about every produced value, see
  `MdProofs.C19.flip_lt`); `address ^ (1 << i)` is `a ^^^ (1 <<< i)` on `Nat` (in Rust `1 << i`
  is a `u64` shift by `i < 64`, which neither overflows nor panics).
  The f32 confidence is modelled over exact rationals `Q` (numerator `Int`, denominator `Nat`).

  NOT modelled (inputs of the model, observed on the implementation): the disassembler and
  `op_analysis` (they produce `adjusted_address` and the set of instruction registers), and the
  crash-reason decision tree (C14) — the model receives the part of `CrashReason` that
  `from_crash_reason` inspects.
-/
import MdModel.Prelude
import MdModel.RangeMap
namespace MdModel.BitFlip
open MdModel

/-! ## platform -/

/-- `system_info::Cpu` -/
inductive Cpu where
  | x86 | amd64 | ppc | ppc64 | sparc | arm | arm64 | mips | mips64 | unknown
  deriving DecidableEq, Repr

inductive PtrWidth where
  | b32 | b64 | unknown
  deriving DecidableEq, Repr

/-- `Cpu::pointer_width` (system_info.rs:132-138). -/
def Cpu.pointerWidth : Cpu → PtrWidth
  | .x86 | .ppc | .sparc | .arm | .mips => .b32
  | .amd64 | .ppc64 | .arm64 | .mips64 => .b64
  | .unknown => .unknown

/-! ## memory operation and permissions -/

/-- `memory_operation::MemoryOperation` -/
inductive MemOp where
  | undetermined | read | write | execute
  deriving DecidableEq, Repr

/-- The part of `CrashReason` that `MemoryOperation::from_crash_reason` distinguishes. -/
inductive Reason where
  | winAvRead | winAvWrite | winAvExec | other
  deriving DecidableEq, Repr

/-- `MemoryOperation::from_crash_reason` (processor.rs:1431-1440). -/
def MemOp.fromReason : Reason → MemOp
  | .winAvRead => .read
  | .winAvWrite => .write
  | .winAvExec => .execute
  | .other => .undetermined

/-- what `is_readable / is_writable / is_executable` of a region answer -/
structure Perm where
  r : Bool
  w : Bool
  x : Bool
  deriving DecidableEq, Repr, Inhabited

/-- `MemoryOperation::is_possibly_allowed_for` (processor.rs:1444-1451). -/
def MemOp.possiblyAllowed : MemOp → Perm → Bool
  | .undetermined, _ => true
  | .read, p => p.r
  | .write, p => p.w
  | .execute, p => p.x

/-- `MemoryProtection` bits (minidump-common format.rs) used by `MinidumpMemoryInfo::is_*`:
    PAGE_NOACCESS 1, READONLY 2, READWRITE 4, WRITECOPY 8, EXECUTE 0x10, EXECUTE_READ 0x20,
    EXECUTE_READWRITE 0x40, EXECUTE_WRITECOPY 0x80. `intersects(mask)` = `bits & mask ≠ 0`. -/
def protPerm (prot : Nat) : Perm :=
  { r := prot &&& (0x02 ||| 0x04 ||| 0x20 ||| 0x40) != 0
    w := prot &&& (0x04 ||| 0x08 ||| 0x40 ||| 0x80) != 0
    x := prot &&& (0x10 ||| 0x20 ||| 0x40 ||| 0x80) != 0 }

/-! ## the memory map (`UnifiedMemoryInfoList`) -/

inductive MapKind where
  /-- `MinidumpMemoryInfoList`: `(base_address, region_size)`, range by `mkRange` -/
  | info
  /-- `MinidumpLinuxMaps`: `(address.0, address.1)` inclusive, range by `mkRangeMap` -/
  | maps
  deriving DecidableEq, Repr

structure Region where
  lo : Nat
  /-- `region_size` for `info`, final (inclusive) address for `maps` -/
  b : Nat
  perm : Perm
  deriving Repr, Inhabited

def Region.range (k : MapKind) (r : Region) : Option RangeMap.Rng :=
  match k with
  | .info => RangeMap.mkRange r.lo r.b
  | .maps => RangeMap.mkRangeMap r.lo r.b

/-- the entries handed to `into_rangemap_safe`: `(region.memory_range(), index)` -/
def tableInput (k : MapKind) (rs : List Region) : List (Option RangeMap.Rng × RangeMap.Val) :=
  rs.zipIdx.map fun (r, i) => (r.range k, i)

/-- `from_regions`: `regions_by_addr` (`Outcome.panic` iff the final `unwrap` would fire —
    C08 proves it never does). -/
def buildTable (k : MapKind) (rs : List Region) : Outcome (List RangeMap.Entry) :=
  RangeMap.safe (tableInput k rs)

/-- `memory_info_at_address(a)` followed by the three permission queries:
    `regions_by_addr.get(a).map(|&index| &self.regions[index])`. -/
def lookupIn (rs : List Region) (table : List RangeMap.Entry) (a : Nat) : Option Perm :=
  match RangeMap.get table a with
  | none => none
  | some i => (rs[i]?).map (·.perm)

/-! ## bit ranges -/

/-- `bitflip::BitRange` -/
inductive BitRange where
  | amd64Canonical | amd64NonCanonical | all
  deriving DecidableEq, Repr

/-- `BitRange::range()` start -/
def BitRange.lo : BitRange → Nat
  | .all => 0
  | .amd64Canonical => 0
  | .amd64NonCanonical => 48

/-- `BitRange::range()` end (exclusive) -/
def BitRange.hi : BitRange → Nat
  | .all => 64
  | .amd64Canonical => 48
  | .amd64NonCanonical => 64

/-- the bit positions the `for i in bit_range.range()` loop visits, in order -/
def BitRange.bits (R : BitRange) : List Nat := List.range' R.lo (R.hi - R.lo)

/-! ## heuristics and confidence -/

/-- `BitFlipDetails` -/
structure Details where
  wasNonCanonical : Bool
  isNull : Bool
  wasLow : Bool
  nearby : Nat
  poison : Bool
  deriving DecidableEq, Repr, Inhabited

/-- exact rational `num / den` -/
structure Q where
  num : Int
  den : Nat
  deriving DecidableEq, Repr

namespace Q
def one : Q := ⟨1, 1⟩
def mul (a b : Q) : Q := ⟨a.num * b.num, a.den * b.den⟩
/-- `1 - a` -/
def oneMinus (a : Q) : Q := ⟨(a.den : Int) - a.num, a.den⟩
/-- `0 ≤ a ≤ 1` with a positive denominator -/
def Unit (a : Q) : Prop := 0 < a.den ∧ 0 ≤ a.num ∧ a.num ≤ (a.den : Int)
end Q

/-! `mod confidence` constants (process_state.rs:286-305): HIGH 0.90, MEDIUM 0.50, LOW 0.25 -/
def cHIGH : Q := ⟨90, 100⟩
def cMEDIUM : Q := ⟨50, 100⟩
def cLOW : Q := ⟨25, 100⟩
def cBASELINE : Q := cLOW
def cNON_CANONICAL : Q := cHIGH
def cNULL : Q := cMEDIUM
/-- `[MEDIUM, MEDIUM + 0.05, MEDIUM + 0.1, MEDIUM + 0.15]` -/
def cNEARBY : List Q := [⟨50, 100⟩, ⟨55, 100⟩, ⟨60, 100⟩, ⟨65, 100⟩]
def cPOISON : Q := cMEDIUM
def cORIGINAL_LOW : Q := cMEDIUM

/-- `confidence::combine`: `1 - Π (1 - v)` -/
def combine (vs : List Q) : Q :=
  Q.oneMinus (vs.foldl (fun acc v => Q.mul acc (Q.oneMinus v)) Q.one)

/-- the `values` vector of `BitFlipDetails::confidence` -/
def confValues (d : Details) : List Q :=
  [cBASELINE]
  ++ (if d.wasNonCanonical then [cNON_CANONICAL] else [])
  ++ (if d.isNull then [if d.wasLow then Q.mul cNULL cORIGINAL_LOW else cNULL] else [])
  ++ (if d.nearby > 0 then
        -- `NEARBY_REGISTER[min(nearby, 4) - 1]`: `nearby > 0`, so neither the subtraction nor
        -- the index can go out of range (`confidence_index_in_range`)
        [cNEARBY.getD (min d.nearby cNEARBY.length - 1) cMEDIUM]
      else [])

/-- `BitFlipDetails::confidence` over ℚ. -/
def confidence (d : Details) : Q :=
  let ret := combine (confValues d)
  if d.poison then Q.mul ret cPOISON else ret

/-- the exception context as far as the analysis reads it -/
structure Ctx where
  /-- `register_size()` in bytes -/
  regSize : Nat
  /-- `valid_registers()` in iteration order -/
  regs : List (String × Nat)
  deriving Repr

/-- `context.get_register(name)`: the value iff the register is valid -/
def Ctx.get (c : Ctx) (name : String) : Option Nat :=
  (c.regs.find? fun p => p.1 == name).map (·.2)

/-- `NEARBY_REGISTER_DISTANCE = 1 << 12` -/
def NEARBY_DISTANCE : Nat := 4096
/-- `LOW_ADDRESS_CUTOFF = NEARBY_REGISTER_DISTANCE * 2` -/
def LOW_CUTOFF : Nat := 8192

/-- the `is_repeated` closure selected by the register size (`(addr & 0xff) * 0x0101…`;
    `0xff * 0x0101010101010101 = 2^64 - 1`, so the `u64` multiplication cannot overflow). -/
def isRepeated (regSize : Nat) (v : Nat) : Bool :=
  match regSize with
  | 2 => v == (v % 256) * 0x0101
  | 4 => v == (v % 256) * 0x01010101
  | 8 => v == (v % 256) * 0x0101010101010101
  | _ => false

/-- the poison byte patterns (process_state.rs:414-415) -/
def poisonBytes : List Nat :=
  [0x2b, 0x2d, 0x2f, 0x49, 0x4b, 0x4d, 0x4f, 0x6b, 0x8b, 0x9b, 0x9f, 0xa5, 0xbb, 0xcc, 0xcd,
   0xce, 0xdb, 0xe5]

/-- `u64::abs_diff` -/
def absDiff (a b : Nat) : Nat := if a ≥ b then a - b else b - a

/-- `PossibleBitFlip::calculate_heuristics` (details only; the confidence is `confidence`). -/
def calcHeuristics (addr orig : Nat) (wasNC : Bool) (ctx : Option Ctx) : Details :=
  let isNull := addr == 0
  let wasLow := isNull && decide (orig ≤ LOW_CUTOFF)
  match ctx with
  | none => { wasNonCanonical := wasNC, isNull, wasLow, nearby := 0, poison := false }
  | some c =>
    let should := decide (addr > LOW_CUTOFF)
    let nearby := (c.regs.filter fun p => should && decide (absDiff addr p.2 ≤ NEARBY_DISTANCE)).length
    let poison := c.regs.any fun p => isRepeated c.regSize p.2 && poisonBytes.contains (p.2 % 256)
    { wasNonCanonical := wasNC, isNull, wasLow, nearby, poison }

/-- `PossibleBitFlip` (the `confidence` field is `confidence details`) -/
structure Flip where
  addr : Nat
  src : Option String
  details : Details
  deriving DecidableEq, Repr

/-! ## `try_bit_flips` -/

/-- "the address maps to valid memory": a region is found and possibly permits the operation -/
def accessible (look : Nat → Option Perm) (op : MemOp) (a : Nat) : Bool :=
  match look a with
  | some m => op.possiblyAllowed m
  | none => false

/-- `create_possible_address` -/
def mkFlip (a : Nat) (src : Option String) (R : BitRange) (ctx : Option Ctx) (p : Nat) : Flip :=
  { addr := p, src, details := calcHeuristics p a (R == .amd64NonCanonical) ctx }

/-- one iteration of the loop body for bit `i` (note: a NULL candidate that is also mapped and
    permitted is pushed twice, exactly like the code) -/
def candidatesAt (a : Nat) (src : Option String) (R : BitRange) (ctx : Option Ctx)
    (look : Nat → Option Perm) (op : MemOp) (i : Nat) : List Flip :=
  let p := a ^^^ (1 <<< i)
  (if p = 0 then [mkFlip a src R ctx p] else [])
  ++ (if accessible look op p then [mkFlip a src R ctx p] else [])

/-- `bitflip::try_bit_flips` -/
def tryBitFlips (a : Nat) (src : Option String) (R : BitRange) (ctx : Option Ctx)
    (look : Nat → Option Perm) (op : MemOp) : List Flip :=
  if accessible look op a then []
  else R.bits.flatMap (candidatesAt a src R ctx look op)

/-! ## `check_for_bitflips` -/

/-- `AdjustedAddress` -/
inductive Adjusted where
  | nonCanonical (v : Nat)
  | nullPointerWithOffset (off : Nat)
  deriving DecidableEq, Repr

/-- `BTreeSet<&'static str>` iteration order: sorted by `str`'s `Ord`, no duplicates -/
def insertSorted (s : String) : List String → List String
  | [] => [s]
  | t :: rest => if s < t then s :: t :: rest else if s == t then t :: rest else t :: insertSorted s rest

def btreeSet (xs : List String) : List String := xs.foldl (fun acc s => insertSorted s acc) []

structure Input where
  cpu : Cpu
  reason : Reason
  /-- `info.address` -/
  address : Nat
  /-- `info.adjusted_address` -/
  adjusted : Option Adjusted
  /-- `exception_details.context` -/
  ctx : Option Ctx
  /-- `op_analysis.registers` (any order, duplicates allowed; iterated as a `BTreeSet`) -/
  iregs : List String
  deriving Repr

/-- the `bit_flip_address` match (processor.rs:737-751) -/
def selectAddress (inp : Input) : Option (Nat × BitRange) :=
  match inp.adjusted with
  | some (.nonCanonical v) => some (v, .amd64NonCanonical)
  | some (.nullPointerWithOffset _) => none
  | none => some (inp.address, if inp.cpu ≠ .amd64 then .all else .amd64Canonical)

/-- the register pass (processor.rs:765-782) -/
def registerPass (c : Ctx) (iregs : List String) (R : BitRange) (look : Nat → Option Perm)
    (op : MemOp) : List Flip :=
  (btreeSet iregs).flatMap fun reg =>
    match c.get reg with
    | none => []
    | some v => tryBitFlips v (some reg) R (some c) look op

/-- `MinidumpInfo::check_for_bitflips`: the resulting `possible_bit_flips`. -/
def checkBitflips (inp : Input) (look : Nat → Option Perm) : List Flip :=
  if inp.cpu.pointerWidth ≠ .b64 then []
  else if inp.cpu = .arm64 then []
  else
    match selectAddress inp with
    | none => []
    | some (a, R) =>
      let op := MemOp.fromReason inp.reason
      tryBitFlips a none R inp.ctx look op
      ++ (match inp.ctx with
          | none => []
          | some c => registerPass c inp.iregs R look op)

/-- the whole analysis from the raw region list -/
def analyse (inp : Input) (k : MapKind) (rs : List Region) : Outcome (List Flip) :=
  match buildTable k rs with
  | .panic s => .panic s
  | .ok t => .ok (checkBitflips inp (lookupIn rs t))

/-! ## line protocol

  `bitflip run cpu:<c> reason:<read|write|exec|other> addr:<n> adj:<none|nc=<n>|np=<n>>
           ctx:<none|<regsize>/<name>=<n>,..> iregs:<-|name,..> map:<info|maps>/<lo>:<b>:<p>,..`
     p = protection bits (decimal) for `info`, or a subset string of `rwx` (`-` = none) for `maps`
     -> `flips:<addr>/<src|->/<nc><null><low>.<nearby>.<poison>/<conf·320000>;…` | `PANIC`
  `bitflip conf <nc> <null> <low> <nearby> <poison>` -> `<conf·320000>`  (exact, else `n/d`)
-/

/-- the confidence on the grid `k / 320000` (every value of `confidence` lies on it:
    denominators divide `100^4 · 100·…`, reduced); prints `k`, or the raw fraction if not. -/
def confGrid (q : Q) : String :=
  let n := q.num * 320000
  if q.den ≠ 0 ∧ n % (q.den : Int) = 0 then toString (n / (q.den : Int))
  else s!"{q.num}/{q.den}"

def b01 (b : Bool) : String := if b then "1" else "0"

def showFlip (f : Flip) : String :=
  let d := f.details
  s!"{f.addr}/{f.src.getD "-"}/{b01 d.wasNonCanonical}{b01 d.isNull}{b01 d.wasLow}.{d.nearby}.{b01 d.poison}/{confGrid (confidence d)}"

def parseCpu : String → Option Cpu
  | "x86" => some .x86 | "amd64" => some .amd64 | "ppc" => some .ppc | "ppc64" => some .ppc64
  | "sparc" => some .sparc | "arm" => some .arm | "arm64" => some .arm64 | "mips" => some .mips
  | "mips64" => some .mips64 | "unknown" => some .unknown | _ => none

def parseReason : String → Option Reason
  | "read" => some .winAvRead | "write" => some .winAvWrite | "exec" => some .winAvExec
  | "other" => some .other | _ => none

def parseU64 (s : String) : Option Nat :=
  match s.toNat? with
  | some n => if n ≤ U64MAX then some n else none
  | none => none

def parseAdj (s : String) : Option (Option Adjusted) :=
  if s == "none" then some none
  else match s.splitOn "=" with
    | ["nc", v] => (parseU64 v).map fun n => some (.nonCanonical n)
    | ["np", v] => (parseU64 v).map fun n => some (.nullPointerWithOffset n)
    | _ => none

def parseCtx (s : String) : Option (Option Ctx) :=
  if s == "none" then some none
  else match s.splitOn "/" with
    | [sz, regs] =>
      match sz.toNat? with
      | none => none
      | some sz =>
        let ps := Proto.pieces regs ","
        let parsed := ps.filterMap fun p =>
          match p.splitOn "=" with
          | [n, v] => (parseU64 v).map fun v => (n, v)
          | _ => none
        if parsed.length ≠ ps.length then none else some (some ⟨sz, parsed⟩)
    | _ => none

def parsePermStr (s : String) : Option Perm :=
  if s == "-" then some ⟨false, false, false⟩
  else if s.toList.all (fun c => c == 'r' || c == 'w' || c == 'x') then
    some ⟨s.toList.contains 'r', s.toList.contains 'w', s.toList.contains 'x'⟩
  else none

def parseMap (s : String) : Option (MapKind × List Region) :=
  match s.splitOn "/" with
  | [k, body] =>
    let kind : Option MapKind := if k == "info" then some .info else if k == "maps" then some .maps else none
    match kind with
    | none => none
    | some kind =>
      let ps := Proto.pieces body ","
      let parsed := ps.filterMap fun p =>
        match p.splitOn ":" with
        | [lo, b, perm] =>
          match parseU64 lo, parseU64 b with
          | some lo, some b =>
            (match kind with
             | .info => (perm.toNat?).map protPerm
             | .maps => parsePermStr perm).map fun pm => (⟨lo, b, pm⟩ : Region)
          | _, _ => none
        | _ => none
      if parsed.length ≠ ps.length then none else some (kind, parsed)
  | _ => none

def field (pre : String) (s : String) : Option String :=
  if s.startsWith pre then some (s.drop pre.length).toString else none

def handleRun (args : List String) : String :=
  match args with
  | [cpu, reason, addr, adj, ctx, iregs, map] =>
    match (field "cpu:" cpu).bind parseCpu, (field "reason:" reason).bind parseReason,
          (field "addr:" addr).bind parseU64, (field "adj:" adj).bind parseAdj,
          (field "ctx:" ctx).bind parseCtx, field "iregs:" iregs, (field "map:" map).bind parseMap with
    | some cpu, some reason, some addr, some adj, some ctx, some iregs, some (kind, rs) =>
      let inp : Input := { cpu, reason, address := addr, adjusted := adj, ctx,
                           iregs := if iregs == "-" then [] else Proto.pieces iregs "," }
      match analyse inp kind rs with
      | .panic _ => "PANIC"
      | .ok fs => "flips:" ++ String.join (fs.map fun f => showFlip f ++ ";")
    | _, _, _, _, _, _, _ => "bad-op"
  | _ => "bad-op"

def parseBool : String → Option Bool
  | "0" => some false | "1" => some true | _ => none

def handleConf (args : List String) : String :=
  match args with
  | [nc, nul, low, near, poi] =>
    match parseBool nc, parseBool nul, parseBool low, near.toNat?, parseBool poi with
    | some nc, some nul, some low, some near, some poi =>
      if near > U32MAX then "bad-op" else
      confGrid (confidence ⟨nc, nul, low, near, poi⟩)
    | _, _, _, _, _ => "bad-op"
  | _ => "bad-op"

/-- line-protocol entry point of this model (engine(s): bitflip) -/
def handle (_engine : String) (args : List String) : String :=
  match args with
  | "run" :: rest => handleRun rest
  | "conf" :: rest => handleConf rest
  | _ => "bad-op"

end MdModel.BitFlip
