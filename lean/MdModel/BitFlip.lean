/-
  MdModel.BitFlip — placeholder (model not written yet).
-/
import MdModel.Prelude
namespace MdModel.BitFlip

/-- line-protocol entry point of this model (engine(s): bitflip) -/
def handle (_engine : String) (_args : List String) : String := "bad-op"

end MdModel.BitFlip
