/-
  MdModel.Det — the order- and schedule-sensitive spots of report production (property C13), each as a
  small executable model in which a hash map / hash set is an association LIST whose order is
  arbitrary (the theorems in `MdProofs.C13` quantify over every permutation of it) and a completion
  order is an arbitrary list of indices.

    * `renderLimits`        `ProcessState::print_json`, `"proc_limits"` (minidump-processor/src/
                            process_state.rs:976-990): collect the `HashMap<String, LinuxProcLimit>`
                            entries, `sort_by` name, render in that order. (`renderLimitsUnsorted` is
                            the renderer before fix 55811f9: render in iteration order.)
    * `walkRest`            `walk_with_stack_cfi` (breakpad-symbols/src/sym_file/walker.rs:528-560):
                            the remaining `REG: EXPR` rules of the `HashMap<CfiReg, &str>`, sorted
                            by register name, each evaluated (the value only depends on the CALLEE's
                            registers, memory and the CFA — never on the caller state being built)
                            and applied with `set_caller_register` / `clear_caller_register` of
                            `CfiStackWalker` (minidump-unwind/src/lib.rs:624-637), which first
                            canonicalises the label (`memoize_register` of the CPU: ARM64 `x29`→`fp`, ARM `r11`→`fp` …),
                            so two labels may hit one register. (`walkRestUnsorted`: before fix
                            c84fd4e.)
    * `joinByIndex`         `process_minidump_with_options` (processor.rs:1143-1225): one future per
                            thread, each writing ITS OWN `state.threads[i]` (`iter_mut().enumerate()`),
                            driven by `join_all`; the order in which the walks finish is arbitrary.
                            (`joinByCompletion`: a collector that appends results as they finish.)
    * `textRegs`/`jsonRegs` `print_registers` (minidump-unwind/src/lib.rs:385-413) and
                            `json_registers` (process_state.rs:512-530): walk the fixed
                            `general_purpose_registers()` list and TEST membership in the validity
                            `HashSet`; the JSON object is a `serde_json::Map` = `BTreeMap` (no
                            `preserve_order` feature in this build), i.e. sorted by key.
                            (`regsBySet`: a renderer that iterates the set instead.)
    * `statsAfter`/`statsReport`  `Symbolizer::get_symbols` (breakpad-symbols/src/lib.rs:874-897)
                            inserts, when a supplier call COMPLETES, `stats[leafname(code_file)] :=
                            outcome`; `print_json` (process_state.rs:1017-1064) looks every module up
                            by `basename(code_file)`. The insertion order is the completion order of
                            the supplier calls (one per distinct module key — C12 `at_most_once`).

    * `certMap`/`certReport`  `handle_evil` (minidump-processor/src/evil.rs:57-67): the evil JSON's
                            `ModuleSignatureInfo` (`HashMap<cert, Vec<module>>`) is collected,
                            sorted by certificate name (fix 2943e9c) and inverted by
                            `for (cert, modules) in certs { for m in modules { map.insert(m, cert) } }`;
                            `cert_subject` / the text module list look every module up by file name.
                            (`certMapUnsorted`: the loop over the map's iteration order.)

  Names are byte strings (`List Nat`), compared like Rust's `str::cmp` (`lexLe`).
  `slice::sort_by` is modelled by insertion sort (`isort`): for pairwise distinct keys under a total
  order every correct sort returns the same list (`MdProofs.C13.sort_unique`).
-/
import MdModel.Prelude
import MdModel.Regs
namespace MdModel.Det
open MdModel

/-! ### order and sorting -/

/-- `<[u8] as Ord>::cmp(a, b) != Greater` — byte-wise lexicographic, a proper prefix is smaller -/
def lexLe : List Nat → List Nat → Bool
  | [], _ => true
  | _ :: _, [] => false
  | a :: as, b :: bs => if a < b then true else if b < a then false else lexLe as bs

def insertBy {α : Type} (le : α → α → Bool) (x : α) : List α → List α
  | [] => [x]
  | y :: ys => if le x y then x :: y :: ys else y :: insertBy le x ys

/-- insertion sort (stable) -/
def isort {α : Type} (le : α → α → Bool) : List α → List α
  | [] => []
  | x :: xs => insertBy le x (isort le xs)

/-- the order the code sorts map entries by: the key only -/
def keyLe {β : Type} (a b : List Nat × β) : Bool := lexLe a.1 b.1

/-! ### 1. `/proc/<pid>/limits` section -/

/-- one entry of `LinuxProcLimits.limits`: name and the rest (`soft`, `hard`, `unit`), of any type;
    `json : entry → γ` is what one array element of `"limits"` shows (`json!({"name":…,…})`) -/
abbrev LimitEntry (β : Type) := List Nat × β

/-- current code: `sorted = limits.iter().collect(); sorted.sort_by(name); sorted.map(json!)`;
    the argument is the map in ITERATION order -/
def renderLimits {β γ : Type} (json : LimitEntry β → γ) (iter : List (LimitEntry β)) : List γ :=
  (isort keyLe iter).map json

/-- before 55811f9: `limits.iter().map(json!)` -/
def renderLimitsUnsorted {β γ : Type} (json : LimitEntry β → γ) (iter : List (LimitEntry β)) : List γ :=
  iter.map json

/-- the protocol's rendering of one entry -/
def renderEntry (e : LimitEntry String) : String := s!"{Proto.hex (e.1.map UInt8.ofNat)}/{e.2}"

/-! ### 2. the remaining-register loop of `walk_with_stack_cfi` -/

/-- a `REG: EXPR` rule after evaluation: `val = none` iff `eval_cfi_expr` failed -/
abbrev Rule := List Nat × Option Nat

/-- caller register file under construction: value in `caller_ctx`, membership in `caller_validity` -/
structure Cell where
  val : Nat
  valid : Bool
  deriving DecidableEq, Repr, Inhabited

/-- the `FrameWalker` as far as the loop uses it -/
structure Walker where
  /-- `memoize_register`: canonical register of a label, `none` for an unknown name -/
  canon : List Nat → Option Nat
  /-- `C::Register::try_from(val).is_ok()` -/
  fits : Nat → Bool

abbrev Regs := Nat → Cell

def upd (f : Regs) (i : Nat) (c : Cell) : Regs := fun j => if j = i then c else f j

/-- `CfiStackWalker::set_caller_register` FOLLOWED BY what `walk_with_stack_cfi` does with its
    answer (walker.rs:545-551): `memoize_register(name)?` — an unknown name changes nothing (the
    `clear_caller_register` that follows is a no-op for it as well); `C::Register::try_from(val).ok()?`
    — a value the register cannot hold (more than 32 bits on x86/ARM/PPC) leaves the value alone and
    the following `clear_caller_register(name)` removes the canonical name from the validity set
    (fix for F25); otherwise the canonical name becomes valid and the cell is written. -/
def setReg (W : Walker) (s : Regs) (label : List Nat) (v : Nat) : Regs :=
  match W.canon label with
  | none => s
  | some r => if W.fits v then upd s r ⟨v, true⟩ else upd s r ⟨(s r).val, false⟩

/-- `CfiStackWalker::clear_caller_register` (after fix 88e196e: the canonical name is removed) -/
def clearReg (W : Walker) (s : Regs) (label : List Nat) : Regs :=
  match W.canon label with
  | none => s
  | some r => upd s r ⟨(s r).val, false⟩

def applyRule (W : Walker) (s : Regs) (r : Rule) : Regs :=
  match r.2 with
  | some v => setReg W s r.1 v
  | none => clearReg W s r.1

def runRules (W : Walker) (s : Regs) (rules : List Rule) : Regs := rules.foldl (applyRule W) s

/-- current code: the map's entries (argument: in ITERATION order) sorted by label, then applied -/
def walkRest (W : Walker) (s : Regs) (iter : List Rule) : Regs := runRules W s (isort keyLe iter)

/-- before c84fd4e: applied in iteration order -/
def walkRestUnsorted (W : Walker) (s : Regs) (iter : List Rule) : Regs := runRules W s iter

/-! #### the per-architecture label tables

  `memoize_register` of the nine `CpuContext` implementations (minidump/src/context.rs) is NOT
  re-modelled here: `MdModel.Regs.memoize` interprets the tables that translators/regs.py
  regenerates from context.rs on every run (`MdModel.Gen.Regs`: `REGISTERS`, the alias arms
  ARM `r11`→`fp` `r13`→`sp` `r14`→`lr` `r15`→`pc`, ARM64 / ARM64_OLD `x29`→`fp` `x30`→`lr`, SPARC's
  `sparc_alias_index`), property C18 proves and ties that interpretation. A register is identified
  by its position in `REGISTERS`. -/

open MdModel.Gen.Regs in
/-- a CFI label (ASCII bytes) as the `&str` handed to `memoize_register` -/
def labelStr (label : List Nat) : String := String.ofList (label.map Char.ofNat)

open MdModel.Gen.Regs in
/-- canonical register of a label on CPU `c`: position of `memoize_register(label)` in `REGISTERS` -/
def canonCpu (c : Ctx) (label : List Nat) : Option Nat :=
  match MdModel.Regs.memoize c (labelStr label) with
  | .ok (some r) => (registers c).findIdx? (· == r)
  | _ => none

open MdModel.Gen.Regs in
/-- the `CfiStackWalker<C>` of CPU `c`: its label table and `C::Register::try_from(u64)` -/
def cpu (c : Ctx) : Walker := ⟨canonCpu c, fun v => v < 2 ^ regBits c⟩

abbrev arm64 : Walker := cpu .ARM64
abbrev arm : Walker := cpu .ARM

/-- the seeded variant C13-2a: "only pay for the sort when one of the alias names is used" — the
    entries are sorted only if some label satisfies `isAlias` (there: `x29`, `x30`) -/
def walkRestSortIf (isAlias : List Nat → Bool) (W : Walker) (s : Regs) (iter : List Rule) : Regs :=
  if iter.any (fun r => isAlias r.1) then walkRest W s iter else walkRestUnsorted W s iter

/-! ### 3. per-thread walks joined by index -/

/-- `state.threads` after the walks finished in the order `order`: walk `i` writes slot `i` -/
def joinByIndex {R : Type} (res : Nat → R) (init : List R) (order : List Nat) : List R :=
  order.foldl (fun slots i => slots.set i (res i)) init

/-- a collector that appends the results as the walks finish (NOT what the code does) -/
def joinByCompletion {R : Type} (res : Nat → R) (order : List Nat) : List R := order.map res

/-! ### 4. registers of a frame -/

/-- `print_registers`: the fixed list filtered by membership in the validity set -/
def textRegs (fixed valid : List (List Nat)) : List (List Nat) := fixed.filter (valid.contains ·)

/-- `json_registers`: the same walk inserting into a `BTreeMap` ⇒ keys come out sorted; equal keys
    collapse (`dedupSorted`) -/
def dedupSorted : List (List Nat) → List (List Nat)
  | [] => []
  | [a] => [a]
  | a :: b :: l => if a = b then dedupSorted (b :: l) else a :: dedupSorted (b :: l)

def jsonRegs (fixed valid : List (List Nat)) : List (List Nat) :=
  dedupSorted (isort lexLe (textRegs fixed valid))

/-- a renderer that iterates the validity set (NOT what the code does) -/
def regsBySet (fixed valid : List (List Nat)) : List (List Nat) := valid.filter (fixed.contains ·)

/-! ### 5. symbol statistics, keyed by file leaf name -/

/-- the three outcomes `get_symbols` distinguishes in the stats (ok / not found, load error,
    missing id / parse error) -/
inductive Res where
  | ok | notFound | parseError
  deriving DecidableEq, Repr, Inhabited

/-- a module as the statistics see it: `leaf = leafname(code_file)`, `res` = what the supplier
    answers for its module key -/
structure Mod where
  leaf : List Nat
  res : Res
  deriving DecidableEq, Repr, Inhabited

/-- the `stats` map as an association list, newest insertion first (`HashMap::insert` replaces:
    `lookup` returns the newest entry) -/
abbrev StatsMap := List (List Nat × Res)

/-- the map after the supplier calls completed in the order `done` (indices into `mods`) -/
def statsAfter (mods : Nat → Mod) (done : List Nat) : StatsMap :=
  done.foldl (fun m k => ((mods k).leaf, (mods k).res) :: m) []

def lookup (m : StatsMap) (leaf : List Nat) : Option Res := (m.find? (·.1 == leaf)).map (·.2)

/-- (`missing_symbols`, `loaded_symbols`, `corrupt_symbols`) of one module in the JSON report -/
def flags : Option Res → Bool × Bool × Bool
  | none => (false, false, false)
  | some .ok => (false, true, false)
  | some .notFound => (true, false, false)
  | some .parseError => (false, true, true)

/-- the per-module statistics the report shows, for the modules `shown` -/
def statsReport (mods : Nat → Mod) (done : List Nat) (shown : List Nat) : List (Bool × Bool × Bool) :=
  shown.map fun i => flags (lookup (statsAfter mods done) (mods i).leaf)

/-! ### 6. module certificates from the evil JSON -/

/-- `ModuleSignatureInfo` in ITERATION order: certificate name, modules signed with it -/
abbrev CertInfo := List (List Nat × List (List Nat))

/-- the `(module, cert)` insertions in the order the two nested loops perform them over `entries` -/
def certPairs (entries : CertInfo) : List (List Nat × List Nat) :=
  entries.flatMap fun e => e.2.map fun m => (m, e.1)

/-- `cert_map` as an association list, newest insertion first, when the outer loop visits
    `entries` in the given order (before fix 2943e9c: the map's iteration order) -/
def certMapUnsorted (entries : CertInfo) : List (List Nat × List Nat) :=
  (certPairs entries).foldl (fun m kv => kv :: m) []

/-- current code (fix 2943e9c): `certs.into_iter().collect::<Vec<_>>()`, `certs.sort()` — the
    certificate names are the keys of a map, hence pairwise distinct, so the order of the pairs
    `(name, modules)` is the order of the names — then the nested insert loop -/
def certMap (iter : CertInfo) : List (List Nat × List Nat) := certMapUnsorted (isort keyLe iter)

def certLookup (m : List (List Nat × List Nat)) (name : List Nat) : Option (List Nat) :=
  (m.find? (·.1 == name)).map (·.2)

/-- `cert_subject` of the modules `shown` (by file name) -/
def certReport (iter : CertInfo) (shown : List (List Nat)) : List (Option (List Nat)) :=
  shown.map (certLookup (certMap iter))

def certReportUnsorted (iter : CertInfo) (shown : List (List Nat)) : List (Option (List Nat)) :=
  shown.map (certLookup (certMapUnsorted iter))

/-! ### 7. the thread-local print context (`SERIALIZATION_CONTEXT`, process_state.rs:25-29, 1180-1184)

  `Address`'s `Display`/`Serialize` (every crash address, module base, frame offset of the JSON and
  text reports) reads the pointer width from a THREAD-LOCAL that `print`, `print_brief` and
  `print_json` fill with `set_print_context` before writing anything. What a print shows is
  therefore a function of the thread's history unless every print overwrites the context. -/

/-- `PointerWidth` as far as `Address` cares: 32, 64, anything else = `Unknown` -/
abbrev Width := Nat

/-- `set_print_context` (current code): `ctx.pointer_width = Some(self.system_info.cpu.pointer_width())` -/
def setCtx (_ctx : Option Width) (w : Width) : Option Width := some w

/-- the seeded variant C13-2b: `pointer_width.get_or_insert_with(..)` — only the first print on a
    thread fills the context -/
def setCtxOnce (ctx : Option Width) (w : Width) : Option Width :=
  match ctx with
  | some v => some v
  | none => some w

/-- number of characters `Address::fmt` writes for a small address: `{:#010x}` under `Bits32`,
    `{:#018x}` otherwise (`Bits64`, `Unknown`, or no context at all) -/
def addrChars (ctx : Option Width) : Nat := if ctx = some 32 then 10 else 18

/-- the prints a thread performs one after the other (the pointer width of each printed state),
    starting from the context `ctx`: the address width each of them shows -/
def printSeq (set : Option Width → Width → Option Width) (ctx : Option Width) : List Width → List Nat
  | [] => []
  | w :: ws => addrChars (set ctx w) :: printSeq set (set ctx w) ws

/-! ### 8. register heuristics of a possible bit flip (`calculate_heuristics`, process_state.rs:399-424)

  `for (_, addr) in context.valid_registers()` — for a context with validity `Some(set)` this
  iterates the validity `HashSet` — counting registers near the candidate address and looking for a
  poison pattern. The loop body only increments a counter and sets a flag. -/

/-- one iteration: `near v` = `should_calculate_nearby_registers && abs_diff(addr, v) <= 512`,
    `poison v` = `is_repeated(v) && (v & 0xff) ∈ {0x2b, …}`; state = (`nearby_registers`, `poison_registers`) -/
def heurStep (near poison : Nat → Bool) (acc : Nat × Bool) (v : Nat) : Nat × Bool :=
  (if near v then acc.1 + 1 else acc.1, if !acc.2 && poison v then true else acc.2)

/-- the loop over the register values in ITERATION order -/
def heuristics (near poison : Nat → Bool) (vals : List Nat) : Nat × Bool :=
  vals.foldl (heurStep near poison) (0, false)

/-! ### line protocol
  `det model lim:<E,..|-> mods:<hexleaf=res,..|-> done:<i,i,..|-> thr:<i.i.i|->/<tid,tid,..|-> fixed:<hex,..|-> valid:<hex,..|-> jvalid:<hex,..|-> certs:<hexcert=hexmod+hexmod..,..|-> cshown:<hexname,..|->`
      E = `<hexname>/<rest>`; lists in the order the real containers were iterated / the real
      supplier calls completed; `valid` = validity set of a recovered frame (text report),
      `jvalid` = the set `json_registers` tests for the crashing thread's context frame.
      -> `lim:<E,..> stats:<mlc,..> thr:<tid,..> text:<hex,..> json:<hex,..> cert:<hexcert|0,..>`
  `det cfi [cpu:<X86|AMD64|ARM|ARM64_OLD|ARM64|PPC|PPC64|MIPS|SPARC>] init:<r=v+|r=v-,..|-> rules:<hexlabel=v|hexlabel=-,..|->`
      (rules in any order; r = position in the CPU's `REGISTERS`; no `cpu:` field = ARM64)
      -> `regs:<r=v+|r=v-,..>` for the registers that are valid or were touched
  `det ctx widths:<32|64|0,..>`   pointer widths of the states one thread prints, in order
      -> `chars:<10|18,..>` characters of the crash address each print shows
-/
open Proto

def allSome {α : Type} : List (Option α) → Option (List α)
  | [] => some []
  | none :: _ => none
  | some a :: rest => (allSome rest).map (a :: ·)

def listOf (s : String) (sep : String) : List String := if s == "-" then [] else s.splitOn sep

def unhexName (s : String) : Option (List Nat) := (unhex s).map (·.map UInt8.toNat)

def hexName (n : List Nat) : String := hex (n.map UInt8.ofNat)

def parseEntry (s : String) : Option (LimitEntry String) :=
  match s.splitOn "/" with
  | n :: rest@(_ :: _) => (unhexName n).map fun n => (n, "/".intercalate rest)
  | _ => none

def parseRes (s : String) : Option Res :=
  match s with
  | "ok" => some .ok | "nf" => some .notFound | "pe" => some .parseError | _ => none

def parseMod (s : String) : Option Mod :=
  match s.splitOn "=" with
  | [l, r] => match unhexName l, parseRes r with
    | some l, some r => some ⟨l, r⟩
    | _, _ => none
  | _ => none

def bit (b : Bool) : String := if b then "1" else "0"

def parseCert (s : String) : Option (List Nat × List (List Nat)) :=
  match s.splitOn "=" with
  | [c, ms] => match unhexName c, allSome ((listOf ms "+").map unhexName) with
    | some c, some ms => some (c, ms)
    | _, _ => none
  | _ => none

def handleModel (lim mods done thr fixed valid jvalid certs cshown : String) : String :=
  match allSome ((listOf lim ",").map parseEntry),
        allSome ((listOf mods ",").map parseMod),
        allSome ((listOf done ",").map optNat),
        thr.splitOn "/",
        allSome ((listOf fixed ",").map unhexName),
        allSome ((listOf valid ",").map unhexName),
        allSome ((listOf jvalid ",").map unhexName),
        allSome ((listOf certs ",").map parseCert),
        allSome ((listOf cshown ",").map unhexName) with
  | some lim, some mods, some done, [order, tids], some fixed, some valid, some jvalid, some certs, some cshown =>
    match allSome ((listOf order ".").map optNat), allSome ((listOf tids ",").map optNat) with
    | some order, some tids =>
      if done.any (· ≥ mods.length) || order.any (· ≥ tids.length) then "bad-op" else
      let modf : Nat → Mod := fun i => mods.getD i default
      let stats := statsReport modf done (List.range mods.length)
      -- every walk starts from a placeholder (the context frame only) and writes its own slot
      let joined := joinByIndex (fun i => some (tids.getD i 0)) (tids.map fun _ => none) order
      let thrOut := joined.map fun o => match o with | some t => toString t | none => "?"
      s!"lim:{joinWith "," (renderLimits renderEntry lim)} stats:{joinWith "," (stats.map fun (m, l, c) => bit m ++ bit l ++ bit c)} thr:{joinWith "," thrOut} text:{joinWith "," ((textRegs fixed valid).map hexName)} json:{joinWith "," ((jsonRegs fixed jvalid).map hexName)} cert:{joinWith "," ((certReport certs cshown).map fun o => match o with | some c => hexName c | none => "0")}"
    | _, _ => "bad-op"
  | _, _, _, _, _, _, _, _, _ => "bad-op"

def parseCell (s : String) : Option (Nat × Cell) :=
  match s.splitOn "=" with
  | [r, v] =>
    let valid := v.endsWith "+"
    if !(valid || v.endsWith "-") then none else
    match optNat r, optNat (v.dropEnd 1).toString with
    | some r, some v => some (r, ⟨v, valid⟩)
    | _, _ => none
  | _ => none

def parseRule (s : String) : Option Rule :=
  match s.splitOn "=" with
  | [l, v] => match unhexName l with
    | none => none
    | some l => if v == "-" then some (l, none) else (optNat v).map fun v => (l, some v)
  | _ => none

def handleCfi (cpuName init rules : String) : String :=
  match MdModel.Gen.Regs.Ctx.all.find? (fun c => c.name == cpuName),
        allSome ((listOf init ",").map parseCell), allSome ((listOf rules ",").map parseRule) with
  | some c, some init, some rules =>
    let n := (MdModel.Gen.Regs.registers c).length
    if init.any (fun (r, _) => r ≥ n) then "bad-op" else
    let s0 : Regs := init.foldl (fun s (r, c) => upd s r c) (fun _ => ⟨0, false⟩)
    let s := walkRest (cpu c) s0 rules
    let touched := init.map (·.1) ++ rules.filterMap (fun r => canonCpu c r.1)
    let shown := (List.range n).filter fun r => (s r).valid || touched.contains r
    "regs:" ++ joinWith "," (shown.map fun r => s!"{r}={(s r).val}{if (s r).valid then "+" else "-"}")
  | _, _, _ => "bad-op"

def field (pfx : String) (s : String) : Option String :=
  if s.startsWith pfx then some (s.drop pfx.length).toString else none

/-- line-protocol entry point of this model (engine(s): det) -/
def handle (_engine : String) (args : List String) : String :=
  match args with
  | ["model", lim, mods, done, thr, fixed, valid, jvalid, certs, cshown] =>
    match field "lim:" lim, field "mods:" mods, field "done:" done, field "thr:" thr,
          field "fixed:" fixed, field "valid:" valid, field "jvalid:" jvalid,
          field "certs:" certs, field "cshown:" cshown with
    | some lim, some mods, some done, some thr, some fixed, some valid, some jvalid, some certs, some cshown =>
      handleModel lim mods done thr fixed valid jvalid certs cshown
    | _, _, _, _, _, _, _, _, _ => "bad-op"
  | ["cfi", init, rules] =>
    match field "init:" init, field "rules:" rules with
    | some init, some rules => handleCfi "ARM64" init rules
    | _, _ => "bad-op"
  | ["cfi", cpuName, init, rules] =>
    match field "cpu:" cpuName, field "init:" init, field "rules:" rules with
    | some cpuName, some init, some rules => handleCfi cpuName init rules
    | _, _, _ => "bad-op"
  | ["ctx", ws] =>
    -- `det ctx widths:<32|64|0,..>`: the prints of one thread, in order -> `chars:<10|18,..>`
    match field "widths:" ws with
    | some ws =>
      match allSome ((listOf ws ",").map optNat) with
      | some ws => "chars:" ++ joinWith "," ((printSeq setCtx none ws).map toString)
      | none => "bad-op"
    | none => "bad-op"
  | _ => "bad-op"

end MdModel.Det
