/-
  MdModel.Det — placeholder (model not written yet).
-/
import MdModel.Prelude
namespace MdModel.Det

/-- line-protocol entry point of this model (engine(s): det) -/
def handle (_engine : String) (_args : List String) : String := "bad-op"

end MdModel.Det
