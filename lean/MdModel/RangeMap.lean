/-
  MdModel.RangeMap — model of
    * `IntoRangeMapSafe::into_rangemap_safe`          (minidump-common/src/traits.rs:76-110)
    * the parser-local copy `into_rangemap_safe`       (breakpad-symbols/src/sym_file/parser.rs:727-744)
    * `range_map::RangeMap::{try_from_iter, normalize, get}` (range-map 0.2.0, re-implemented)
    * every `memory_range()` constructor               (minidump.rs:1063,1226,2072,2510,2665; types.rs:78,182,235)
    * `MinidumpUnloadedModuleList::{from_modules, modules_at_address}` (minidump.rs:1580-1607)
  Addresses are `Nat`; well-formedness (`< 2^64`) is established by `mkRange`.
-/
import MdModel.Prelude
namespace MdModel.RangeMap
open MdModel

/-- An inclusive range `[lo, hi]` (`range_map::Range<u64>`). -/
structure Rng where
  lo : Nat
  hi : Nat
  deriving DecidableEq, Repr, Inhabited

/-- Values are small integers: module/region indices, or record identifiers. -/
abbrev Val := Nat
abbrev Entry := Rng × Val

def Rng.contains (r : Rng) (a : Nat) : Bool := r.lo ≤ a && a ≤ r.hi
def Rng.intersects (r s : Rng) : Bool := r.lo ≤ s.hi && r.hi ≥ s.lo

/-- `memory_range()` of modules, memory regions, memory-info, FUNC/line/CFI/WIN records:
    `None` iff `size == 0` or `base.checked_add(size)` overflows, else `[base, base+size-1]`. -/
def mkRange (base size : Nat) : Option Rng :=
  if size = 0 then none
  else if base + size > U64MAX then none
  else some ⟨base, base + size - 1⟩

/-- `MinidumpLinuxMapInfo::memory_range()`: `None` iff `lo > hi`. -/
def mkRangeMap (lo hi : Nat) : Option Rng :=
  if lo > hi then none else some ⟨lo, hi⟩

/-- Derived `Ord` on `Range`: lexicographic `(start, end)`. -/
def rle (a b : Rng) : Bool := a.lo < b.lo || (a.lo == b.lo && a.hi ≤ b.hi)

/-- Derived `Ord` on `Option<Range>`: `None` first. -/
def orle : Option Rng → Option Rng → Bool
  | none, _ => true
  | some _, none => false
  | some a, some b => rle a b

/-- `u64::saturating_add(1)`. -/
def satSucc (x : Nat) : Nat := if x ≥ U64MAX then U64MAX else x + 1

/-- The loop shared by `into_rangemap_safe` and `RangeMap::normalize`.
    The Rust loop keeps a `Vec` of which it only ever touches the last element
    (`vec.last_mut()`); the model carries that last element separately (`last`) and emits
    everything before it, so `vec = emitted ++ [last]`. `keep` is the resulting vector. -/
def keep : Option Entry → List Entry → List Entry
  | none, [] => []
  | some l, [] => [l]
  | none, e :: rest => keep (some e) rest
  | some (lr, lv), e :: rest =>
    if e.1.lo ≤ lr.hi ∧ e.2 ≠ lv then keep (some (lr, lv)) rest
    else if e.1.lo ≤ satSucc lr.hi ∧ e.2 = lv then
      keep (some ({ lr with hi := max e.1.hi lr.hi }, lv)) rest
    else (lr, lv) :: keep (some e) rest

/-- What `normalize` reports as discarded (same loop, the `continue` of the first test). -/
def disc : Option Entry → List Entry → List Entry
  | _, [] => []
  | none, e :: rest => disc (some e) rest
  | some (lr, lv), e :: rest =>
    if e.1.lo ≤ lr.hi ∧ e.2 ≠ lv then e :: disc (some (lr, lv)) rest
    else if e.1.lo ≤ satSucc lr.hi ∧ e.2 = lv then
      disc (some ({ lr with hi := max e.1.hi lr.hi }, lv)) rest
    else disc (some e) rest

/-- (kept, discarded) -/
def pass (xs : List Entry) : List Entry × List Entry := (keep none xs, disc none xs)

/-- stable sort by range (`sort_by_key(|x| x.0)`; Rust's sort is stable, so is `mergeSort`). -/
def sortEntries (xs : List Entry) : List Entry := xs.mergeSort (fun a b => rle a.1 b.1)

def sortOpt (xs : List (Option Rng × Val)) : List (Option Rng × Val) :=
  xs.mergeSort (fun a b => orle a.1 b.1)

/-- drop the `None` ranges (the `continue` at traits.rs:82-85). -/
def validOnly (xs : List (Option Rng × Val)) : List Entry :=
  xs.filterMap fun e => e.1.map fun r => (r, e.2)

/-- `RangeMap::try_from_iter`: sort, normalize; `Err` iff something was discarded. -/
def tryFromIter (v : List Entry) : List Entry × List Entry := pass (sortEntries v)

/-- `IntoRangeMapSafe::into_rangemap_safe` up to (not including) the final
    `try_from_iter(..).unwrap()`. -/
def safeVec (xs : List (Option Rng × Val)) : List Entry :=
  (pass (validOnly (sortOpt xs))).1

/-- The whole function: `Outcome.panic` iff the `unwrap` would fire. -/
def safe (xs : List (Option Rng × Val)) : Outcome (List Entry) :=
  let (m, disc) := tryFromIter (safeVec xs)
  if disc.isEmpty then .ok m else .panic "into_rangemap_safe: try_from_iter(..).unwrap()"

/-- the parser-local copy (no `Option` layer). -/
def safeVecP (xs : List Entry) : List Entry := (pass (sortEntries xs)).1
def safeP (xs : List Entry) : Outcome (List Entry) :=
  let (m, disc) := tryFromIter (safeVecP xs)
  if disc.isEmpty then .ok m else .panic "parser into_rangemap_safe: try_from_iter(..).unwrap()"

/-- Specification-level lookup: first entry containing the address. -/
def getSpec (m : List Entry) (a : Nat) : Option Val :=
  (m.find? fun e => e.1.contains a).map (·.2)

/-- `RangeMap::get`: `binary_search_by(|r| r.partial_cmp(&x))` over the element vector —
    the std algorithm (size halving), over an `Array`. -/
def bsearch (m : Array Entry) (a : Nat) : Option Val :=
  let rec go (lo hi : Nat) (fuel : Nat) : Option Val :=
    match fuel with
    | 0 => none
    | fuel + 1 =>
      if h : lo < hi then
        let mid := lo + (hi - lo) / 2
        if hm : mid < m.size then
          let e := m[mid]
          if e.1.hi < a then go (mid + 1) hi fuel
          else if e.1.lo > a then go lo mid fuel
          else some e.2
        else none
      else none
  go 0 m.size (m.size + 1)

def get (m : List Entry) (a : Nat) : Option Val := bsearch m.toArray a

/-- `MinidumpUnloadedModuleList::from_modules`: valid ranges with their index, stably sorted. -/
def unloadedFrom (ms : List (Option Rng)) : List Entry :=
  sortEntries (validOnly (ms.zipIdx.map fun (r, i) => (r, i)))

/-- `modules_at_address`: plain filter. -/
def unloadedAt (t : List Entry) (a : Nat) : List Val :=
  (t.filter fun e => e.1.contains a).map (·.2)

/-- `finish_item`'s line ranges: `address.checked_add(size - 1)` (size > 0 filtered before). -/
def mkRangeLine (base size : Nat) : Option Rng :=
  if size = 0 then none
  else if base + (size - 1) > U64MAX then none
  else some ⟨base, base + (size - 1)⟩

/-- A symbol record as far as table building is concerned: its address, size and the rest of
    its fields (`tag`). Two records are equal iff all three agree. -/
structure Rec where
  addr : Nat
  size : Nat
  tag : Nat
  deriving DecidableEq, Repr

/-- injective encoding of a record as a table value (`size < 2^32`, `tag < 2^64`). -/
def Rec.enc (r : Rec) : Val := (r.addr * 2^32 + r.size) * 2^64 + r.tag
def Rec.dec (v : Val) : Rec := ⟨v / 2^96, (v / 2^64) % 2^32, v % 2^64⟩

/-- `insert_win_stack_info` (parser.rs:566-606); `acc` reversed (head = `last_mut()`). -/
def insertWin (acc : List (Rng × Rec)) (info : Rec) : Outcome (List (Rng × Rec)) :=
  match mkRange info.addr info.size with
  | none => .ok acc
  | some mr =>
    match acc with
    | [] => .ok [(mr, info)]
    | (lr, li) :: rest =>
      if lr.intersects mr then
        if info.addr > li.addr then
          -- `last_info.size = (info.address - last_info.address) as u32`
          let li' : Rec := { li with size := (info.addr - li.addr) % 2^32 }
          match mkRange li'.addr li'.size with
          | none => .panic "insert_win_stack_info: memory_range().unwrap()"
          | some r' => .ok ((mr, info) :: (r', li') :: rest)
        else if lr ≠ mr then .ok acc
        else .ok ((mr, info) :: acc)
      else .ok ((mr, info) :: acc)

def insertWinAll : List (Rng × Rec) → List Rec → Outcome (List (Rng × Rec))
  | acc, [] => .ok acc.reverse
  | acc, r :: rest =>
    match insertWin acc r with
    | .panic s => .panic s
    | .ok acc' => insertWinAll acc' rest

/-! ### line protocol
  `ranges <builder> q <addr>,<addr>.. e <lo>:<size|hi>:<tag> ...`
  builders (one per table builder of the repository):
    mod mem mem64 info  : `mkRange`, value = position, Option-layer `into_rangemap_safe`
    maps                : `mkRangeMap` (second number is `hi`), value = position
    unl                 : unloaded-module list (sorted vector + filter)
    func cfi            : only records with a valid range are pushed; parser copy; value = record
    line                : size-0 lines dropped, `mkRangeLine`, Option-layer safe; value = record
    win4 win0           : `insert_win_stack_info` repair, then the parser copy; value = record
  answer: `byaddr:lo-hi=id,.. get:a=id|-,..`  or `PANIC`; id = position, or `addr/size/tag`
-/
open Proto in
def handle (args : List String) : String :=
  match args with
  | builder :: "q" :: qs :: "e" :: es =>
    let qs := (pieces qs ",").filterMap optNat
    let raw : List (Nat × Nat × Nat) := es.filterMap fun s =>
      match (s.splitOn ":").map optNat with
      | [some a, some b, some c] => some (a, b, c)
      | _ => none
    if raw.length ≠ es.length then "bad-op" else
    let isRec := ["func", "cfi", "line", "win4", "win0"].contains builder
    let showId (v : Val) : String :=
      if isRec then let r := Rec.dec v; s!"{r.addr}/{r.size}/{r.tag}" else toString v
    let fmt (m : List Entry) : String :=
      "byaddr:" ++ joinWith "," (m.map fun e => s!"{e.1.lo}-{e.1.hi}={showId e.2}")
    let answer (res : Outcome (List Entry)) : String :=
      match res with
      | .panic _ => "PANIC"
      | .ok m =>
        fmt m ++ " get:" ++ joinWith "," (qs.map fun a =>
          match get m a with
          | some v => s!"{a}={showId v}"
          | none => s!"{a}=-")
    match builder with
    | "mod" | "mem" | "mem64" | "info" =>
      answer (safe (raw.zipIdx.map fun ((a, b, _), i) => (mkRange a b, i)))
    | "maps" =>
      answer (safe (raw.zipIdx.map fun ((a, b, _), i) => (mkRangeMap a b, i)))
    | "func" | "cfi" =>
      answer (safeP (validOnly (raw.map fun (a, b, c) => (mkRange a b, (Rec.mk a b c).enc))))
    | "line" =>
      answer (safe ((raw.filter fun (_, b, _) => b > 0).map fun (a, b, c) =>
        (mkRangeLine a b, (Rec.mk a b c).enc)))
    | "win4" | "win0" =>
      match insertWinAll [] (raw.map fun (a, b, c) => Rec.mk a b c) with
      | .panic _ => "PANIC"
      | .ok v => answer (safeP (v.map fun (r, w) => (r, w.enc)))
    | "unl" =>
      let t := unloadedFrom (raw.map fun (a, b, _) => mkRange a b)
      fmt t ++ " get:" ++ joinWith "," (qs.map fun a =>
        s!"{a}=" ++ joinWith "+" ((unloadedAt t a).map toString))
    | _ => "bad-op"
  | _ => "bad-op"

end MdModel.RangeMap
