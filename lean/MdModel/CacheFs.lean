/-
  MdModel.CacheFs — placeholder (model not written yet).
-/
import MdModel.Prelude
namespace MdModel.CacheFs

/-- line-protocol entry point of this model (engine(s): cache) -/
def handle (_engine : String) (_args : List String) : String := "bad-op"

end MdModel.CacheFs
