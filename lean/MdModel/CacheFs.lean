/-
  MdModel.CacheFs — model of the on-disk symbol cache protocol of `HttpSymbolSupplier`
  (breakpad-symbols/src/http.rs):

    * `create_cache_file` / `commit_cache_file`   (http.rs:139-178)
    * `fetch_symbol_file`                          (http.rs:301-372)  — GET, temp file in the tmp dir,
      `SymbolFile::parse_async` with the tee callback, commit only after the parse returned `Ok`
    * `locate_symbols`                             (http.rs:501-565)  — local paths and cache first,
      only `NotFound` cascades, the servers in order, any fetch error moves on to the next server
    * `fetch_lookup` / `locate_file_internal`     (http.rs:81-132, 378-411)  — the opaque download of
      binaries and extra debug files (`namespace File` below)

  The symbol-file parser enters through an interface (`ParserModel`): (a) the whole-buffer parse
  `parse : Bytes → Option Sym` (`SymbolFile::from_bytes/from_file`), (b) the streaming parse as a
  state machine fed one network chunk at a time which reports the bytes it handed to the tee
  callback (`feed`, `finish`), and (c) three laws (`ParserLaws`). Two instances:
    * `Real.model` — the byte-level parser model of C09/C10 (`MdModel.SymLine`, `MdModel.SymParse`)
      inside a model of the loop of `SymbolFile::parse_async` built from the blocks of
      `MdModel.Stream`. The laws are THEOREMS for it (`MdProofs.Lemmas.CacheFsReal`: `Real.laws`);
      this is what the compiled model runs in the correspondence check.
    * `Toy.model` — a small line-buffering parser whose runs can be decided by evaluation; the
      laws are theorems for it too (`MdProofs.Lemmas.CacheFsToy`).

  What is abstract (events): the network (`status`, `chunk`, `eof`, `netError`), the point where the
  caller abandons the future (`drop`), and i/o failures of the caching side that the state does not
  determine (the Booleans carried by the events: an unwritable tmp/cache directory, a full disk …).

  File-system semantics assumed (trusted base): a `NamedTempFile` *is* its handle — the file exists in
  the tmp directory exactly as long as the handle is live (it is removed when the handle is dropped);
  `persist_noclobber` moves the temp file to the target atomically and fails when the name is taken;
  `remove_file` fails on a directory; `Path::exists` follows symlinks.
-/
import MdModel.Prelude
import MdModel.SymParse
namespace MdModel.CacheFs
open MdModel

abbrev Bytes := List UInt8
/-- the request URL as serialised by `Url::to_string` (ASCII, percent-encoded) -/
abbrev Url := Bytes
/-- a path relative to the cache directory (`FileLookup::cache_rel`) -/
abbrev Path := String

/-- What can sit at a name below the cache directory. -/
inductive Node where
  | file (b : Bytes)   -- a regular file
  | dir                -- a directory: `remove_file` fails on it
  | special            -- exists, not a regular file, removable (socket, fifo)
  | dangling           -- a symlink to nothing: `exists()` is false, yet the name is taken
  deriving DecidableEq, Repr

abbrev Cache := Path → Option Node

def Cache.set (c : Cache) (p : Path) (n : Option Node) : Cache :=
  fun q => if q = p then n else c q

/-- `"INFO URL "` -/
def infoUrlTag : Bytes := [73, 78, 70, 79, 32, 85, 82, 76, 32]

/-- `format!("INFO URL {url}\n")` (http.rs:165) -/
def trailer (u : Url) : Bytes := infoUrlTag ++ u ++ [10]

/-- body bytes received so far; the chunk list is kept newest-first -/
def bodyOf : List Bytes → Bytes
  | [] => []
  | b :: older => bodyOf older ++ b

/-! ### The parser, abstracted -/

structure ParserModel where
  /-- the symbol table (`SymbolFile`) -/
  Sym : Type
  /-- `SymbolFile::from_bytes` / `from_file`: the whole buffer; `none` = `Err` -/
  parse : Bytes → Option Sym
  /-- `symbol_file.url = Some(url)` -/
  setUrl : Sym → Url → Sym
  /-- every line of the input (an unterminated last one included) is shorter than
      `MAX_BUFFER_CAPACITY / 2` = 80 KiB: the domain on which C10 proves chunk independence (what the
      real parser does with a 80–160 KiB line depends on where it sits in the window) -/
  shortLines : Bytes → Prop
  /-- state of `parse_async`'s loop between two `response.chunk().await` -/
  σ : Type
  init : σ
  /-- one network chunk: `none` = the parser returned `Err` (the callback is not invoked for the
      failing `parse_more`); `some (s, cb)` = it went back to waiting, having passed `cb` to the
      tee callback -/
  feed : σ → Bytes → Option (σ × Bytes)
  /-- `response.chunk()` returned `None` (end of the response): `none` = `Err`,
      `some (cb, t)` = `Ok(t)` after passing `cb` to the callback -/
  finish : σ → Option (Bytes × Sym)

namespace ParserModel
variable (P : ParserModel)

/-- state and callback bytes after the chunks `rx` (newest first); `none` once the parser failed -/
def runRev : List Bytes → Option (P.σ × Bytes)
  | [] => some (P.init, [])
  | b :: older =>
    match runRev older with
    | none => none
    | some (s, cb) =>
      match P.feed s b with
      | none => none
      | some (s', cb') => some (s', cb ++ cb')

/-- the streaming parse of a complete response: callback bytes and table -/
def stream (rx : List Bytes) : Option (Bytes × P.Sym) :=
  match P.runRev rx with
  | none => none
  | some (s, cb) =>
    match P.finish s with
    | none => none
    | some (fin, t) => some (cb ++ fin, t)

/-- `parseOk`: the whole body parses -/
def parseOk (b : Bytes) : Bool := (P.parse b).isSome

end ParserModel

/-- what `Url::to_string` produces: ASCII (everything else is percent-encoded / punycoded) without
    blanks, tabs, CR, LF. The `INFO URL` line is cut at `\r`/`\n`, its leading blanks are skipped and
    its text must be valid UTF-8 when it is read back (parser.rs:150 `info_url`). -/
def UrlClean (u : Url) : Prop := ∀ b ∈ u, b ≠ 10 ∧ b ≠ 13 ∧ b ≠ 32 ∧ b ≠ 9 ∧ b < 128

/-- the body ends in a line feed -/
def EndsNl (b : Bytes) : Prop := ∃ pre, b = pre ++ [10]

/-- Facts about the parser used by the theorems of C16 — the interface between the cache protocol
    and the parser. For the parser model of C09/C10 driven by the loop of `parse_async` (`Real.model`
    below) all three are THEOREMS (`MdProofs.Lemmas.CacheFsReal`: `Real.laws`); for the small
    line-buffering instance `Toy.model` too (`Toy.laws`).
    * `callback_prefix`  (C10.7) the concatenated callback arguments are a prefix of what the
      reader delivered, and all of it when the result is `Ok`;
    * `chunk_independent` (C10.6, same hypothesis as there: all lines shorter than 80 KiB) a
      successful streaming parse yields the table of the whole-buffer parse of the same bytes;
    * `info_url_trailer` (DESIGN §6.C16) appending the `INFO URL` line to a body that parses AND
      ends in a line feed keeps the table and sets the URL — whatever the body contains (an open
      FUNC / STACK CFI INIT item is finished by the note; an `INFO URL` line of the body itself is
      overridden by the later note), on the same domain (all lines of the entry, the note included,
      shorter than 80 KiB: an over-long note would be dropped as corrupt like any over-long line).
      (Without "ends in a line feed" this is false for the real parser: a body whose unterminated
      last line is longer than the 160 KiB window parses `Ok` — over-long-line recovery discards it —
      and an appended note would be glued to that line and discarded with it. That was a genuine
      defect found by this check and repaired in /repo by 4002240: such a body is no longer
      committed, see `updNl`.) -/
structure ParserLaws (P : ParserModel) : Prop where
  callback_prefix : ∀ rx s cb, P.runRev rx = some (s, cb) →
    (∃ rest, cb ++ rest = bodyOf rx) ∧ (∀ fin t, P.finish s = some (fin, t) → cb ++ fin = bodyOf rx)
  chunk_independent : ∀ rx cb t, P.shortLines (bodyOf rx) → P.stream rx = some (cb, t) →
    P.parse (bodyOf rx) = some t
  info_url_trailer : ∀ body t u, UrlClean u → EndsNl body → P.shortLines (body ++ trailer u) →
    P.parse body = some t → P.parse (body ++ trailer u) = some (P.setUrl t u)

/-! ### One `locate_symbols` call as a state machine -/

/-- the static part of a call: which module (→ cache path, request URLs), which local files -/
structure Req where
  /-- `cache.join(sym_lookup.cache_rel)` -/
  path : Path
  /-- the module's file in one of the local symbol paths (searched before the cache), if any -/
  localHit : Option Bytes
  /-- the request URL at each configured server, in order -/
  urls : List Url

inductive Result where
  /-- `SimpleSymbolSupplier` found a file with these bytes: `SymbolFile::from_file` on them
      (`Ok` or `ParseError`, never `NotFound` — so nothing cascades) -/
  | localFile (b : Bytes)
  /-- stream-parsed `Ok` from the response whose chunks were `rx` (newest first);
      `symbol_file.url = Some(u)` -/
  | downloaded (rx : List Bytes) (u : Url)
  | notFound
  deriving DecidableEq, Repr

/-- extra i/o outcomes of the last step (`true` = the operation succeeds if the state allows it) -/
structure CommitIo where
  writeOk : Bool     -- callback writes during end-of-input handling
  trailerOk : Bool   -- `temp.write_all(cache_metadata)`
  removeOk : Bool    -- `fs::remove_file(final_path)`
  persistOk : Bool   -- `temp.persist_noclobber(final_path)`
  deriving DecidableEq, Repr

inductive Ev where
  /-- first poll: local symbol paths and the cache directory (no suspension point in there) -/
  | lookup
  /-- response head; `createOk` = `create_dir_all(parent)` and `NamedTempFile::new_in(tmp)` succeed -/
  | status (code : Nat) (createOk : Bool)
  /-- `response.chunk()` yields bytes; `writeOk` = the tee's `write_all` succeeds -/
  | chunk (b : Bytes) (writeOk : Bool)
  /-- `response.chunk()` yields `None` -/
  | eof (io : CommitIo)
  /-- `send()` or `response.chunk()` yields an error (refused, reset, body shorter than announced) -/
  | netError
  /-- the caller drops the future here -/
  | drop
  deriving DecidableEq, Repr

inductive Phase (P : ParserModel) where
  | start
  /-- `client.get(u).send().await` pending; `rest` = servers not tried yet -/
  | awaitStatus (u : Url) (rest : List Url)
  /-- inside `parse_async`: `temp` = contents of the live `NamedTempFile` (`none`: caching was given
      up), `nl` = `ends_with_newline` (the last byte the tee callback has seen is `\n`),
      `ps` = parser state, `rx` = chunks received (ghost) -/
  | streaming (u : Url) (rest : List Url) (temp : Option Bytes) (nl : Bool) (ps : P.σ) (rx : List Bytes)
  | done (r : Result)
  | dropped

/-- contents of the temp file this call holds in the tmp directory -/
def Phase.temp {P : ParserModel} : Phase P → Option Bytes
  | .streaming _ _ t _ _ _ => t
  | _ => none

/-- `error_for_status`: client and server errors -/
def isErrorStatus (code : Nat) : Bool := 400 ≤ code && code < 600

/-- the `for url in &self.urls` loop moves on -/
def nextUrl {P : ParserModel} : List Url → Phase P
  | [] => .done .notFound
  | u :: rest => .awaitStatus u rest

/-- the tee callback (http.rs:301-309): append, or give up on caching when the write fails -/
def tee (temp : Option Bytes) (cb : Bytes) (writeOk : Bool) : Option Bytes :=
  match temp with
  | none => none
  | some t => if writeOk then some (t ++ cb) else none

/-- `ends_with_newline` after the tee callback has been handed `cb` (http.rs: updated before the
    write attempt, whether or not caching has been given up) -/
def updNl (nl : Bool) (cb : Bytes) : Bool :=
  match cb.getLast? with
  | some b => b == 10
  | none => nl

/-- `commit_cache_file` (http.rs:157-178) on a temp file with contents `t`. Every failure returns
    early and drops `temp` (the file in the tmp directory disappears with it). -/
def commit (c : Cache) (p : Path) (u : Url) (t : Bytes) (io : CommitIo) : Cache :=
  if !io.trailerOk then c else
  let content := t ++ trailer u
  match c p with
  | none => if io.persistOk then c.set p (some (.file content)) else c
  | some .dangling => c          -- `exists()` is false; `persist_noclobber` finds the name taken
  | some .dir => c               -- `remove_file` fails (EISDIR)
  | some _ =>                    -- regular or special file: removed, then the new file is moved in
    if !io.removeOk then c
    else if io.persistOk then c.set p (some (.file content)) else c.set p none

/-- `SimpleSymbolSupplier::locate_file`: the local symbol paths in order, the cache directory last;
    only a regular file counts (`fs::metadata(..).is_file()`) -/
def lookupLocal (c : Cache) (req : Req) : Option Bytes :=
  match req.localHit with
  | some b => some b
  | none =>
    match c req.path with
    | some (.file b) => some b
    | _ => none

def step {P : ParserModel} (c : Cache) (req : Req) : Phase P → Ev → Cache × Phase P
  | .start, .lookup =>
    match lookupLocal c req with
    | some b => (c, .done (.localFile b))
    | none => (c, nextUrl req.urls)
  | .start, .drop => (c, .dropped)
  | .awaitStatus u rest, .status code createOk =>
    if isErrorStatus code then (c, nextUrl rest)
    else (c, .streaming u rest (if createOk then some [] else none) false P.init [])
  | .awaitStatus _ rest, .netError => (c, nextUrl rest)
  | .awaitStatus _ _, .drop => (c, .dropped)
  | .streaming u rest temp nl ps rx, .chunk b writeOk =>
    match P.feed ps b with
    | none => (c, nextUrl rest)
    | some (ps', cb) => (c, .streaming u rest (tee temp cb writeOk) (updNl nl cb) ps' (b :: rx))
  | .streaming u rest temp nl ps rx, .eof io =>
    match P.finish ps with
    | none => (c, nextUrl rest)
    | some (fin, _) =>
      -- `temp.filter(|_| ends_with_newline)`: a body that does not end in `\n` is not committed
      -- (its temp file is dropped)
      match tee temp fin io.writeOk with
      | none => (c, .done (.downloaded rx u))
      | some t =>
        if updNl nl fin then (commit c req.path u t io, .done (.downloaded rx u))
        else (c, .done (.downloaded rx u))
  | .streaming _ rest _ _ _ _, .netError => (c, nextUrl rest)
  | .streaming _ _ _ _ _ _, .drop => (c, .dropped)
  | ph, _ => (c, ph)

/-- one call driven by an event list -/
def runTask {P : ParserModel} (c : Cache) (req : Req) (ph : Phase P) : List Ev → Cache × Phase P
  | [] => (c, ph)
  | e :: es => let r := step c req ph e; runTask r.1 req r.2 es

/-! ### Several calls sharing the cache (same process), any interleaving -/

structure World (P : ParserModel) where
  cache : Cache
  tasks : List (Req × Phase P)

def World.step {P : ParserModel} (w : World P) (i : Nat) (e : Ev) : World P :=
  match w.tasks[i]? with
  | none => w
  | some (req, ph) =>
    let r := CacheFs.step w.cache req ph e
    { cache := r.1, tasks := w.tasks.set i (req, r.2) }

def World.run {P : ParserModel} (w : World P) : List (Nat × Ev) → World P
  | [] => w
  | (i, e) :: es => (w.step i e).run es

/-- the tmp directory: the temp files of all calls in flight -/
def World.liveTemps {P : ParserModel} (w : World P) : List Bytes :=
  w.tasks.filterMap fun t => t.2.temp

/-! ### A concrete, lawful parser instance for the executable model

  Line based like the real one: consumes up to the last `\n` of what has arrived; a line whose first
  byte is `!` is unparseable; an empty input or an unterminated last line fails at end of input;
  the table is the list of lines other than `INFO URL …` plus the URL of the last such line.
  (`MdProofs.Lemmas.CacheFsToy` proves `ParserLaws Toy.model`.) -/
namespace Toy

def hasNl (l : Bytes) : Bool := l.any (· == 10)

/-- the prefix up to and including the last `\n` (one pass; `consumed_cons` in
    `MdProofs.Lemmas.CacheFsToy` gives the defining equation
    `consumed (x :: xs) = if hasNl (x :: xs) then x :: consumed xs else []`) -/
def consumed : Bytes → Bytes
  | [] => []
  | x :: xs =>
    match consumed xs with
    | [] => if x == 10 then [x] else []
    | c => x :: c

/-- does a line start with `!`? (`atStart`: the previous byte ended a line) -/
def hasBadFrom : Bool → Bytes → Bool
  | _, [] => false
  | atStart, x :: xs => (atStart && x == 33) || hasBadFrom (x == 10) xs

/-- split into lines (without their `\n`); `cur` = current line, reversed -/
def linesAux : Bytes → Bytes → List Bytes
  | cur, [] => if cur.isEmpty then [] else [cur.reverse]
  | cur, x :: xs => if x == 10 then cur.reverse :: linesAux [] xs else linesAux (x :: cur) xs

structure Sym where
  recs : List Bytes
  url : Option Url
  deriving DecidableEq, Repr

def isInfoUrl (l : Bytes) : Bool := infoUrlTag.isPrefixOf l

def symOf (b : Bytes) : Sym :=
  let ls := linesAux [] b
  { recs := ls.filter (fun l => !isInfoUrl l),
    url := ((ls.filter isInfoUrl).getLast?).map (fun l => l.drop 9) }

def wholeOk (b : Bytes) : Bool := !b.isEmpty && consumed b == b && !hasBadFrom true b

def parse (b : Bytes) : Option Sym := if wholeOk b then some (symOf b) else none

structure St where
  seen : Bytes

def feed (s : St) (b : Bytes) : Option (St × Bytes) :=
  let seen' := s.seen ++ b
  let c' := consumed seen'
  if hasBadFrom true c' then none else some (⟨seen'⟩, c'.drop (consumed s.seen).length)

def finish (s : St) : Option (Bytes × Sym) :=
  match parse s.seen with
  | none => none
  | some t => some ([], t)

def model : ParserModel :=
  { Sym := Sym, parse := parse, setUrl := fun t u => { t with url := some u },
    shortLines := fun _ => True,
    σ := St, init := ⟨[]⟩, feed := feed, finish := finish }

end Toy

/-! ### The real parser: the C09/C10 model of the Breakpad symbol parser inside `parse_async`

  `SymbolFile::parse_async` (sym_file/mod.rs:198-328) is the loop of `SymbolFile::parse`
  (`MdModel.Stream`, the blocks `recoverBlock` / `readBlock` / `parseBlock` and the `size == 0`
  branch) around a different reader: the current HTTP chunk. One iteration is

      [recovery block]; if the chunk is exhausted { response.chunk().await }; read; fill;
      if size == 0 { … `!tried_to_grow && !(had_space && response_ended)` … } else …; parse_more; callback

  so the future is suspended AFTER the recovery block of an iteration and BEFORE its read. The state
  between two `response.chunk().await` (`σ`) is therefore a loop state (`Stream.St` with the
  symbol parser's state `Sym.PState`) taken at that point, with an exhausted reader (`unread = []`).
  `feed` hands it the next chunk and runs the loop until the chunk is exhausted again; `finish` is
  the loop after `response.chunk()` returned `None` (every further `chunk()` returns `None` again).
  The bytes reported to the tee callback are the entries the loop pushed on `cb` meanwhile.

  An EMPTY chunk is not an event of this model (`feed s [] = (s, [])`): hyper's HTTP/1 decoder never
  yields an empty data frame (`Conn::poll_read_body`), reqwest's gzip decoder neither (`BytesCodec`),
  and HTTP/2 is not compiled in. (`parse_async` itself would take an empty chunk for a zero-length
  read, i.e. possibly for the end of the input — recorded as an assumption about the transport.) -/
namespace Real
open MdModel.Gen.SymConsts

abbrev LoopSt := Stream.St Sym.PState
abbrev LoopOut := Stream.Out Sym.PState

/-- the `if size == 0 { … }` branch of `parse_async` (mod.rs:264-305): `Stream.zeroBlock` with the
    end-of-input test `!tried_to_grow && !(had_space && response_ended)` -/
def zeroBlockA (hadSpace ended : Bool) (s : LoopSt) : Sum LoopSt (LoopOut × LoopSt) :=
  if s.justFinished && !s.buf.data.isEmpty then Stream.parseBlock Sym.symOps s
  else if s.fullyConsumed then .inr (.ok s.ps, s)
  else if !s.triedToGrow && !(hadSpace && ended) then
    let newCap := Stream.satDouble s.buf.cap
    if newCap > MAX_BUFFER_CAPACITY then .inl { s with inRecovery := true }
    else .inl { s with buf := s.buf.grow newCap, triedToGrow := true }
  else if s.totalConsumed = 0 then .inr (.err Stream.errEmpty 0, s)
  else .inr (.err Stream.errEof (Sym.symOps.lines s.ps), s)

/-- the part of an iteration after the chunk fetch (mod.rs:258-326); `ended` = `response_ended`.
    The reader is the rest of the current chunk (`unread`, empty schedule: `impl Read for &[u8]`
    fills all the space it is given). -/
def afterFetch (ended : Bool) (s1 : LoopSt) : Sum LoopSt (LoopOut × LoopSt) :=
  let hadSpace : Bool := s1.buf.availableSpace > 0
  let r := Stream.readBlock s1
  if r.2.length = 0 then zeroBlockA hadSpace ended r.1
  else Stream.parseBlock Sym.symOps { r.1 with triedToGrow := false }

/-- the `if in_panic_recovery { … }` block at the top of the next iteration (mod.rs:214-241) -/
def recover (s : LoopSt) : LoopSt :=
  if s.inRecovery then Stream.recoverBlock Sym.symOps s else s

inductive Pumped where
  /-- the chunk is exhausted: `response.chunk().await` -/
  | await (s : LoopSt)
  /-- `parse_async` returned -/
  | returned (out : LoopOut) (sf : LoopSt)
  | fuel

/-- the loop while the current chunk lasts. Every iteration consumes input or changes a flag
    (`Stream.measure` decreases), so `fuel = measure + 1` is enough; `MdProofs.Lemmas.CacheFsReal`
    (`feed_total`) shows that `fuel` is never the answer. -/
def pump : Nat → LoopSt → Pumped
  | 0, _ => .fuel
  | fuel + 1, s1 =>
    match afterFetch false s1 with
    | .inr (out, sf) => .returned out sf
    | .inl s' =>
      let s1' := recover s'
      if s1'.unread.isEmpty then .await s1' else pump fuel s1'

/-- what the callback was given between two states: the entries pushed on `cb` (newest first) -/
def newCb (old new : LoopSt) : Bytes :=
  (new.cb.take (new.cb.length - old.cb.length)).reverse.flatten

def feedFuel (s : LoopSt) (b : Bytes) : Nat := 8 * b.length + 4 * s.buf.data.length + 4

/-- one `Some(chunk)`: `none` = `parse_async` returned (an `Err`: with bytes still unread it
    cannot be `Ok`, `feed_not_ok`) -/
def feed (s : LoopSt) (b : Bytes) : Option (LoopSt × Bytes) :=
  if b.isEmpty then some (s, []) else
  match pump (feedFuel s b) { s with unread := b } with
  | .await s' => some (s', newCb s s')
  | _ => none

/-- the loop after the end of the response -/
def drain : Nat → LoopSt → Option (LoopOut × LoopSt)
  | 0, _ => none
  | fuel + 1, s1 =>
    match afterFetch true s1 with
    | .inr r => some r
    | .inl s' => drain fuel (recover s')

def finishFuel (s : LoopSt) : Nat := 4 * s.buf.data.length + 4

/-- `response.chunk()` returned `None`: `Ok(parser.finish())` or an `Err` -/
def finish (s : LoopSt) : Option (Bytes × Sym.SymbolFile) :=
  match drain (finishFuel s) s with
  | some (.ok ps, sf) =>
    (match Sym.finish ps with
     | .ok f => some (newCb s sf, f)
     | .panic _ => none)
  | _ => none

/-- `SymbolFile::from_bytes` / `from_file` (a reader that fills the buffer: the empty schedule) -/
def parse (b : Bytes) : Option Sym.SymbolFile :=
  match (Sym.parseResult b []).1 with
  | .ok f => some f
  | _ => none

/-- every newline-free stretch (every line, an unterminated last one included) is shorter than
    `MAX_BUFFER_CAPACITY / 2` = 80 KiB (`MdModel.Stream.ShortLines` of the proof side) -/
def shortLines (input : Bytes) : Prop :=
  ∀ a seg b, input = a ++ seg ++ b → Stream.NL ∉ seg → seg.length < MAX_BUFFER_CAPACITY / 2

def init : LoopSt := Stream.init INITIAL_BUFFER_CAPACITY {} [] []

def model : ParserModel :=
  { Sym := Sym.SymbolFile, parse := parse, setUrl := fun t u => { t with url := some u },
    shortLines := shortLines, σ := LoopSt, init := init, feed := feed, finish := finish }

end Real

/-! ### The opaque download path: `locate_file` → `fetch_lookup` (http.rs:81-132, 378-411)

  Binaries and extra debug files are downloaded without looking at their contents:
  `locate_file_internal` first asks the local supplier (local symbol paths, then the cache; only a
  regular file counts), then tries `fetch_lookup` at every server in order — ANY error of a fetch
  (error status, network error, `create_cache_file` failing, a failing write, `persist_noclobber`
  finding the name taken) moves on to the next server — and finally returns `NotFound` (the CAB
  lookup is compiled out: `mozilla_cab_symbols` is off). `fetch_lookup` streams every chunk into a
  `NamedTempFile` in the tmp directory and then `persist_noclobber`s it to the cache path: no
  `INFO URL` note, no `remove_file`, and a write failure ends the fetch (it does not "give up on
  caching" like the symbol path). Same events as above (`Ev`); of `CommitIo` only `persistOk` is
  used. Not modelled: the per-supplier memo table (`cached_file_paths`): one call per supplier. -/
namespace File

inductive FResult where
  /-- the local supplier found a regular file (local symbol path or cache): `Ok((path, None))` -/
  | foundLocal
  /-- `fetch_lookup` returned `Ok((final_cache_path, Some(u)))` for the response `rx` -/
  | fetched (rx : List Bytes) (u : Url)
  | notFound
  deriving DecidableEq, Repr

inductive Phase where
  | start
  | awaitStatus (u : Url) (rest : List Url)
  /-- `temp` = contents of the live `NamedTempFile`; `rx` = chunks received (ghost) -/
  | streaming (u : Url) (rest : List Url) (temp : Bytes) (rx : List Bytes)
  | done (r : FResult)
  | dropped
  deriving DecidableEq, Repr

def Phase.temp : Phase → Option Bytes
  | .streaming _ _ t _ => some t
  | _ => none

/-- the `for url in &self.urls` loop moves on; after the last server `Err(FileError::NotFound)` -/
def nextUrl : List Url → Phase
  | [] => .done .notFound
  | u :: rest => .awaitStatus u rest

def step (c : Cache) (req : Req) : Phase → Ev → Cache × Phase
  | .start, .lookup =>
    match lookupLocal c req with
    | some _ => (c, .done .foundLocal)
    | none => (c, nextUrl req.urls)
  | .start, .drop => (c, .dropped)
  | .awaitStatus u rest, .status code createOk =>
    if isErrorStatus code then (c, nextUrl rest)
    else if createOk then (c, .streaming u rest [] [])
    else (c, nextUrl rest)                       -- `create_cache_file(..)?`
  | .awaitStatus _ rest, .netError => (c, nextUrl rest)
  | .awaitStatus _ _, .drop => (c, .dropped)
  | .streaming u rest temp rx, .chunk b writeOk =>
    if writeOk then (c, .streaming u rest (temp ++ b) (b :: rx))
    else (c, nextUrl rest)                       -- `temp.write_all(..)?`: the temp file is dropped
  | .streaming u rest temp rx, .eof io =>
    -- `temp.persist_noclobber(&final_cache_path)`: fails when ANYTHING has the name
    match c req.path with
    | none => if io.persistOk then (c.set req.path (some (.file temp)), .done (.fetched rx u)) else (c, nextUrl rest)
    | some _ => (c, nextUrl rest)
  | .streaming _ rest _ _, .netError => (c, nextUrl rest)
  | .streaming _ _ _ _, .drop => (c, .dropped)
  | ph, _ => (c, ph)

def runTask (c : Cache) (req : Req) (ph : Phase) : List Ev → Cache × Phase
  | [] => (c, ph)
  | e :: es => let r := step c req ph e; runTask r.1 req r.2 es

/-- several `locate_file` calls of one process sharing the cache, any interleaving -/
structure World where
  cache : Cache
  tasks : List (Req × Phase)

def World.step (w : World) (i : Nat) (e : Ev) : World :=
  match w.tasks[i]? with
  | none => w
  | some (req, ph) =>
    let r := File.step w.cache req ph e
    { cache := r.1, tasks := w.tasks.set i (req, r.2) }

def World.run (w : World) : List (Nat × Ev) → World
  | [] => w
  | (i, e) :: es => (w.step i e).run es

def World.liveTemps (w : World) : List Bytes := w.tasks.filterMap fun t => t.2.temp

end File

/-! ### line protocol

  request : `cache <p|q>:<hex path> n:<node> l:<none|hex> e:<ev,ev,…|-> d:<0|1> t:<none|hexurl;hexurl…> [t:…]`
    `p:` = a `locate_symbols` call (symbol file, real parser `Real.model`); `q:` = a `locate_file` call (`File`)
    node  : `none | dir | special | dangling | file:<hex>`        (what sits at the path initially)
    ev    : `<i>L` | `<i>S<code>:<0|1>` | `<i>C<hex>:<0|1>` | `<i>E<wtrp bits>` | `<i>N` | `<i>D`   (i = task digit)
    d:1   : additionally insert a `drop` for task 0 at every position and require a clean outcome
  answer  : `cache:<node'> tmp:<n> r:<res;res…> req:<log;log…> second:<res> drops:<clean|dirty|->`
    node' : as above with `file:<fnv64>:<len>`
    res   : `ok:<url|->#<fnv64 of the canonical dump of the table, url excluded>` `parse-error` `notfound`
            `dropped` `pending`; for `q:` requests `found` `notfound` `dropped` `pending`
-/

open Proto

def fnv64 (b : Bytes) : UInt64 :=
  b.foldl (fun h x => (h ^^^ x.toUInt64) * 0x100000001b3) 0xcbf29ce484222325

def hex16 (n : UInt64) : String :=
  let ds := Nat.toDigits 16 n.toNat
  String.ofList (List.replicate (16 - ds.length) '0' ++ ds)

def showBytes (b : Bytes) : String := String.ofList (b.map fun x => Char.ofNat x.toNat)

def Node.render : Option Node → String
  | none => "none"
  | some .dir => "dir"
  | some .special => "special"
  | some .dangling => "dangling"
  | some (.file b) => s!"file:{hex16 (fnv64 b)}:{b.length}"

def parseNode (s : String) : Option (Option Node) :=
  match s with
  | "none" => some none
  | "dir" => some (some .dir)
  | "special" => some (some .special)
  | "dangling" => some (some .dangling)
  | _ =>
    match s.splitOn ":" with
    | ["file", h] => (unhex h).map fun b => some (.file b)
    | _ => none

def parseBool (s : String) : Option Bool :=
  match s with
  | "0" => some false
  | "1" => some true
  | _ => none

def parseEv1 (s : String) : Option (Nat × Ev) :=
  match s.toList with
  | i :: k :: rest =>
    if !i.isDigit then none else
    let idx := i.toNat - '0'.toNat
    let body := String.ofList rest
    match k with
    | 'L' => if rest.isEmpty then some (idx, .lookup) else none
    | 'N' => if rest.isEmpty then some (idx, .netError) else none
    | 'D' => if rest.isEmpty then some (idx, .drop) else none
    | 'S' =>
      match body.splitOn ":" with
      | [code, ok] => do
        let c ← code.toNat?
        let o ← parseBool ok
        pure (idx, .status c o)
      | _ => none
    | 'C' =>
      match body.splitOn ":" with
      | [h, ok] => do
        let b ← unhex h
        let o ← parseBool ok
        pure (idx, .chunk b o)
      | _ => none
    | 'E' =>
      match rest.map (fun c => parseBool (String.singleton c)) with
      | [some w, some t, some r, some p] => some (idx, .eof ⟨w, t, r, p⟩)
      | _ => none
    | _ => none
  | _ => none

/-- an event token, optionally tagged `@k`: it belongs to the response of server `k` and reaches the
    client only while the call is talking to that server (a response the client has abandoned is
    never read any further) -/
def parseEv (s : String) : Option (Nat × Option Nat × Ev) :=
  match s.splitOn "@" with
  | [e] => (parseEv1 e).map fun (i, ev) => (i, none, ev)
  | [e, k] => do
    let (i, ev) ← parseEv1 e
    let k ← k.toNat?
    pure (i, some k, ev)
  | _ => none

def parseUrls (s : String) : Option (List Url) :=
  if s == "none" then some [] else (s.splitOn ";").mapM unhex

/-- what the driver needs from a machine (`locate_symbols` with a parser, or `locate_file`) to run a
    tagged event script against it -/
structure Machine where
  Ph : Type
  start : Ph
  step : Cache → Req → Ph → Ev → Cache × Ph
  temp : Ph → Option Bytes
  /-- index of the server the call is waiting for the response head of -/
  awaiting : Req → Ph → Option Nat
  /-- index of the server the call is talking to -/
  current : Req → Ph → Option Nat
  isDropped : Ph → Bool
  isDone : Ph → Bool
  render : Ph → String
  /-- a later network-less lookup on the given cache -/
  second : Cache → Path → String

structure MWorld (M : Machine) where
  cache : Cache
  tasks : List (Req × M.Ph)

def MWorld.step {M : Machine} (w : MWorld M) (i : Nat) (e : Ev) : MWorld M :=
  match w.tasks[i]? with
  | none => w
  | some (req, ph) =>
    let r := M.step w.cache req ph e
    { cache := r.1, tasks := w.tasks.set i (req, r.2) }

def MWorld.liveTemps {M : Machine} (w : MWorld M) : List Bytes := w.tasks.filterMap fun t => M.temp t.2

/-- deliver a (possibly tagged) event -/
def deliver {M : Machine} (w : MWorld M) (i : Nat) (tag : Option Nat) (e : Ev) : MWorld M :=
  match tag with
  | none => w.step i e
  | some k =>
    match w.tasks[i]? with
    | none => w
    | some (req, ph) => if M.current req ph == some k then w.step i e else w

def runTagged {M : Machine} (w : MWorld M) : List (Nat × Option Nat × Ev) → MWorld M
  | [] => w
  | (i, tag, e) :: es => runTagged (deliver w i tag e) es

/-- run the world event by event, logging for each task the servers it sends a request to -/
def runLogged {M : Machine} (w : MWorld M) (logs : List (List Nat)) :
    List (Nat × Option Nat × Ev) → MWorld M × List (List Nat)
  | [] => (w, logs)
  | (i, tag, e) :: es =>
    let w' := deliver w i tag e
    let logs' :=
      match w.tasks[i]?, w'.tasks[i]? with
      | some (_, before), some (req, after) =>
        -- a new request is sent whenever the step enters `awaitStatus` (from any other phase, or
        -- from `awaitStatus` of the previous server)
        let entered :=
          match M.awaiting req after with
          | none => none
          | some k => if M.awaiting req before == some k then none else some k
        match entered with
        | none => logs
        | some k => logs.modify i (· ++ [k])
      | _, _ => logs
    runLogged w' logs' es

/-- drop task 0 before every event position in turn (and after the last): the drop itself and
    whatever follows leave no temp file and the node at `p` as it was initially -/
def dropsCleanFrom {M : Machine} (n0 : String) (p : Path) (w : MWorld M) (evs : List (Nat × Option Nat × Ev)) : Bool :=
  let here :=
    match w.tasks[0]? with
    | none => false
    | some (_, ph) =>
      if M.isDone ph || M.isDropped ph then true   -- already complete: a later drop is not a drop of the future
      else
        let wd := w.step 0 .drop
        wd.liveTemps.isEmpty && (Node.render (wd.cache p) == n0) &&
          ((wd.tasks[0]?).any fun t => M.isDropped t.2) &&
          -- and nothing that follows changes that
          (let we := runTagged wd evs
           we.liveTemps.isEmpty && Node.render (we.cache p) == n0)
  here && (match evs with
    | [] => true
    | (i, tag, e) :: rest => dropsCleanFrom n0 p (deliver w i tag e) rest)

/-! #### the two machines -/

namespace Real

/-- fnv64 of the canonical dump (`MdModel.Sym.dump`, the one engine `sym` compares) without the URL -/
def tableTag (t : Sym.SymbolFile) : String :=
  hex16 (Sym.fnvString (Sym.dump { t with url := none }))

def renderSym (t : Sym.SymbolFile) : String :=
  "ok:" ++ (match t.url with | none => "-" | some u => showBytes u) ++ "#" ++ tableTag t

def renderResult (r : Result) : String :=
  match r with
  | .localFile b =>
    match parse b with
    | none => "parse-error"
    | some t => renderSym t
  | .downloaded rx u =>
    -- (`downloaded_is_complete`: the stream parse of `rx` did succeed)
    match model.stream rx with
    | some (_, t) => renderSym { t with url := some u }
    | none => "MODEL-INCONSISTENT"
  | .notFound => "notfound"

def machine : Machine :=
  { Ph := Phase model, start := .start, step := CacheFs.step (P := model), temp := Phase.temp
    awaiting := fun req ph => match ph with
      | .awaitStatus _ rest => some (req.urls.length - rest.length - 1)
      | _ => none
    current := fun req ph => match ph with
      | .awaitStatus _ rest => some (req.urls.length - rest.length - 1)
      | .streaming _ rest _ _ _ _ => some (req.urls.length - rest.length - 1)
      | _ => none
    isDropped := fun ph => match ph with | .dropped => true | _ => false
    isDone := fun ph => match ph with | .done _ => true | _ => false
    render := fun ph => match ph with
      | .done r => renderResult r
      | .dropped => "dropped"
      | _ => "pending"
    second := fun c p =>
      match (CacheFs.step (P := model) c ⟨p, none, []⟩ .start .lookup).2 with
      | .done r => renderResult r
      | .dropped => "dropped"
      | _ => "pending" }

end Real

namespace File

def machine : Machine :=
  { Ph := Phase, start := .start, step := File.step, temp := Phase.temp
    awaiting := fun req ph => match ph with
      | .awaitStatus _ rest => some (req.urls.length - rest.length - 1)
      | _ => none
    current := fun req ph => match ph with
      | .awaitStatus _ rest => some (req.urls.length - rest.length - 1)
      | .streaming _ rest _ _ => some (req.urls.length - rest.length - 1)
      | _ => none
    isDropped := fun ph => match ph with | .dropped => true | _ => false
    isDone := fun ph => match ph with | .done _ => true | _ => false
    render := fun ph => match ph with
      | .done .foundLocal => "found"
      | .done (.fetched _ _) => "found"
      | .done .notFound => "notfound"
      | .dropped => "dropped"
      | _ => "pending"
    second := fun c p =>
      match (File.step c ⟨p, none, []⟩ .start .lookup).2 with
      | .done .notFound => "notfound"
      | .done _ => "found"
      | _ => "pending" }

end File

def field (key : String) (s : String) : Option String :=
  if s.startsWith (key ++ ":") then some ((s.drop (key.length + 1)).toString) else none

def answer (M : Machine) (path : Path) (node : Option Node) (localHit : Option Bytes)
    (evs : List (Nat × Option Nat × Ev)) (d : Bool) (urlss : List (List Url)) : String :=
  let c0 : Cache := fun q => if q = path then node else none
  let w0 : MWorld M := { cache := c0, tasks := urlss.map fun us => (⟨path, localHit, us⟩, M.start) }
  let (w, logs) := runLogged w0 (urlss.map fun _ => []) evs
  let res := joinWith ";" (w.tasks.map fun t => M.render t.2)
  let req := joinWith ";" (logs.map fun lg =>
    if lg.isEmpty then "-" else joinWith "," (lg.map toString))
  let drops := if d then (if dropsCleanFrom (Node.render (c0 path)) path w0 evs then "clean" else "dirty") else "-"
  s!"cache:{Node.render (w.cache path)} tmp:{w.liveTemps.length} r:{res} req:{req} second:{M.second w.cache path} drops:{drops}"

def handle (_engine : String) (args : List String) : String :=
  match args with
  | fp :: fn :: fl :: fe :: fd :: fts =>
    let parsed : Option String := do
      let (isFile, ph) ← (match field "p" fp, field "q" fp with
        | some h, _ => some (false, h)
        | none, some h => some (true, h)
        | none, none => none)
      let p ← unhex ph
      let path := showBytes p
      let node ← (field "n" fn) >>= parseNode
      let l ← field "l" fl
      let localHit ← (if l == "none" then some none else (unhex l).map some)
      let e ← field "e" fe
      let evs ← (if e == "-" then some [] else (e.splitOn ",").mapM parseEv)
      let d ← (field "d" fd) >>= parseBool
      let urlss ← fts.mapM fun t => (field "t" t) >>= parseUrls
      if urlss.isEmpty then none else
      pure (if isFile then answer File.machine path node localHit evs d urlss
            else answer Real.machine path node localHit evs d urlss)
    parsed.getD "bad-op"
  | _ => "bad-op"

end MdModel.CacheFs
