/-
  MdModel.DumpIds — what the accessors of the property's "module identifiers" compute from records
  read off ARBITRARY bytes (line numbers of the pinned minidump/src/minidump.rs in brackets).

    read_debug_id [795], Module::code_identifier [1085], debug_file [1129], version [1141]
        on a `MinidumpModule` whose CodeView record is whatever `read_codeview` accepted: the
        derivations are C02's (`MdModel.Encode.debugId / codeId / version`, proved equal to the
        documented strings for ALL values by `ids_as_documented`); added here: `string_from_bytes_nul`
        [764] with `String::from_utf8_lossy` for file names that are NOT UTF-8, the allocation log,
        and the printer's `raw.signature.data4[0..=7]` / `bytes_to_hex` [769]  -> `moduleIds`, `modulePrint`
    MinidumpUnloadedModule's accessors [1237]                                -> `unloadedIds`
    MinidumpSystemInfo::os_parts [3406]                                      -> `osParts`
    MinidumpSoftErrors::read [3944] (`str::from_utf8`)                       -> `readSoftErrors`
-/
import MdModel.Dump
import MdModel.DumpCtx
import MdModel.Encode
namespace MdModel.Dump
open MdModel

/-! ## `String::from_utf8_lossy` -/

/-- `utf8_char_width` (core::str::validations): 0 for bytes that cannot start a character -/
def utf8Width (b : UInt8) : Nat :=
  if b < 0x80 then 1 else if 0xC2 ≤ b ∧ b ≤ 0xDF then 2 else if 0xE0 ≤ b ∧ b ≤ 0xEF then 3
  else if 0xF0 ≤ b ∧ b ≤ 0xF4 then 4 else 0

/-- the second byte a three-byte lead accepts (`Utf8Chunks::next`) -/
def utf8Second3 (b0 b1 : UInt8) : Bool :=
  (b0 == 0xE0 && 0xA0 ≤ b1 && b1 ≤ 0xBF) || (0xE1 ≤ b0 && b0 ≤ 0xEC && isCont b1) ||
  (b0 == 0xED && 0x80 ≤ b1 && b1 ≤ 0x9F) || (0xEE ≤ b0 && b0 ≤ 0xEF && isCont b1)

/-- the second byte a four-byte lead accepts -/
def utf8Second4 (b0 b1 : UInt8) : Bool :=
  (b0 == 0xF0 && 0x90 ≤ b1 && b1 ≤ 0xBF) || (0xF1 ≤ b0 && b0 ≤ 0xF3 && isCont b1) ||
  (b0 == 0xF4 && 0x80 ≤ b1 && b1 ≤ 0x8F)

def REPLACEMENT : Nat := 0xFFFD

/-- `String::from_utf8_lossy(bytes)` as scalar values: every maximal invalid prefix `Utf8Chunks`
    reports (the lead byte and the continuation bytes that still matched) becomes ONE U+FFFD -/
def utf8LossyGo : Nat → List UInt8 → List Nat
  | 0, _ => []
  | _, [] => []
  | fuel + 1, b0 :: rest =>
    match utf8Width b0 with
    | 1 => b0.toNat :: utf8LossyGo fuel rest
    | 2 =>
      (match rest with
       | b1 :: r2 =>
         if isCont b1 then ((b0.toNat - 0xC0) * 64 + (b1.toNat - 0x80)) :: utf8LossyGo fuel r2
         else REPLACEMENT :: utf8LossyGo fuel rest
       | [] => [REPLACEMENT])
    | 3 =>
      (match rest with
       | b1 :: r2 =>
         if utf8Second3 b0 b1 then
           (match r2 with
            | b2 :: r3 =>
              if isCont b2 then
                ((b0.toNat - 0xE0) * 4096 + (b1.toNat - 0x80) * 64 + (b2.toNat - 0x80)) :: utf8LossyGo fuel r3
              else REPLACEMENT :: utf8LossyGo fuel r2
            | [] => [REPLACEMENT])
         else REPLACEMENT :: utf8LossyGo fuel rest
       | [] => [REPLACEMENT])
    | 4 =>
      (match rest with
       | b1 :: r2 =>
         if utf8Second4 b0 b1 then
           (match r2 with
            | b2 :: r3 =>
              if isCont b2 then
                (match r3 with
                 | b3 :: r4 =>
                   if isCont b3 then
                     ((b0.toNat - 0xF0) * 262144 + (b1.toNat - 0x80) * 4096 + (b2.toNat - 0x80) * 64 + (b3.toNat - 0x80))
                       :: utf8LossyGo fuel r4
                   else REPLACEMENT :: utf8LossyGo fuel r3
                 | [] => [REPLACEMENT])
              else REPLACEMENT :: utf8LossyGo fuel r2
            | [] => [REPLACEMENT])
         else REPLACEMENT :: utf8LossyGo fuel rest
       | [] => [REPLACEMENT])
    | _ => REPLACEMENT :: utf8LossyGo fuel rest

def utf8Lossy (s : List UInt8) : List Nat := utf8LossyGo s.length s

/-! ## module identifiers -/

/-- the bytes of a CodeView record that the accessors copy / print -/
def CodeView.payload : CodeView → Nat
  | .pdb70 _ _ name => name.size
  | .pdb20 _ _ _ name => name.size
  | .elf bid => bid.size
  | .unknown raw => raw.size

/-- what the engine compares per module -/
structure ModIds where
  /-- `debug_identifier().map(|d| d.breakpad())` -/
  debugId : Option String
  /-- `code_identifier()` -/
  codeId : Option String
  /-- `debug_file()` as scalar values -/
  debugFile : Option (List Nat)
  version : Option String
  deriving Repr

/-- `string_from_bytes_nul` [764]: `bytes.split(|&b| b == 0).next().map(String::from_utf8_lossy)`;
    the lossy copy (only made when the bytes are not UTF-8) is logged with its worst case of three
    bytes per input byte -/
def stringFromBytesNul (bs : List UInt8) : M (List Nat) :=
  let head := Encode.bytesToNul bs
  (if utf8Valid head then pure () else M.alloc head.length 3 false) >>= fun _ =>
  pure (utf8Lossy head)

/-- `debug_file` [1129] -/
def debugFileX (m : Module) : M (Option (List Nat)) :=
  match m.codeview with
  | some (.pdb70 _ _ name) => stringFromBytesNul name.toList >>= fun s => pure (some s)
  | some (.pdb20 _ _ _ name) => stringFromBytesNul name.toList >>= fun s => pure (some s)
  | some (.elf _) => pure (some m.name)
  | _ => pure none

/-- the four accessors of `impl Module for MinidumpModule` [1074] (`os` = the dump's `Os`, which the
    module list reader stores in every module). `code_identifier` of an ELF record allocates the
    hex string of the whole build id. -/
def moduleIds (os : Encode.Os) (e : Endian) (m : Module) : M ModIds :=
  let mm := Encode.mmoduleOf e m
  (match m.codeview with
   | some (.elf bid) => M.alloc bid.size 2 false
   | _ => pure ()) >>= fun _ =>
  debugFileX m >>= fun df =>
  pure { debugId := (mm.cv.bind fun cv => Encode.debugId e cv), codeId := Encode.codeId os mm, debugFile := df,
         version := Encode.version os mm }

/-- `MinidumpModule::print` [920] beyond the accessors: `raw.signature.data4[i]` for `i` in `0..=7`
    (a fixed `[u8; 8]`: the index panic is explicit), and `bytes_to_hex` [769] of an ELF build id /
    an unknown record — a `Vec<String>` with one element per byte (24 bytes each) and the joined
    string. Returns the number of bytes printed as hex. -/
def modulePrint (m : Module) : M Nat :=
  match m.codeview with
  | some (.pdb70 guid _ _) =>
    M.loop 8 0 (fun acc i =>
      match guid[3 + i]? with
      | some _ => pure acc
      | none => M.panic "MinidumpModule::print: raw.signature.data4[i]")
  | some (.pdb20 ..) => pure 0
  | some (.elf bid) => M.alloc bid.size 24 false >>= fun _ => M.alloc bid.size 2 false >>= fun _ => pure bid.size
  | some (.unknown raw) => M.alloc raw.size 24 false >>= fun _ => M.alloc raw.size 2 false >>= fun _ => pure raw.size
  | none => pure 0

structure ModOut where
  ids : ModIds
  hexPrinted : Nat
  deriving Repr

def modulesOut (os : Encode.Os) (e : Endian) : List Module → M (List ModOut)
  | [] => pure []
  | m :: ms =>
    moduleIds os e m >>= fun ids =>
    modulePrint m >>= fun n =>
    modulesOut os e ms >>= fun rest =>
    pure (⟨ids, n⟩ :: rest)

/-- `impl Module for MinidumpUnloadedModule` [1237]: only `code_identifier` is not `None` -/
def unloadedIds (u : UnloadedModule) : String := Encode.timeSizeId u.time u.size

/-! ## `MinidumpSystemInfo::os_parts` -/

/-- `char::is_whitespace` (the `White_Space` property) -/
def isWhiteSpace (c : Nat) : Bool :=
  (9 ≤ c && c ≤ 13) || c == 32 || c == 0x85 || c == 0xA0 || c == 0x1680 || (0x2000 ≤ c && c ≤ 0x200A) ||
  c == 0x2028 || c == 0x2029 || c == 0x202F || c == 0x205F || c == 0x3000

/-- `str::trim` on scalar values -/
def trimScalars (s : List Nat) : List Nat :=
  ((s.dropWhile isWhiteSpace).reverse.dropWhile isWhiteSpace).reverse

/-- `str::split(' ')`: at least one piece -/
def splitOnScalar (c : Nat) : List Nat → List (List Nat)
  | [] => [[]]
  | x :: xs =>
    if x == c then [] :: splitOnScalar c xs
    else
      match splitOnScalar c xs with
      | [] => [[x]]
      | p :: ps => (x :: p) :: ps

def scalarsOf (s : String) : List Nat := s.toList.map Char.toNat

def joinScalars (sep : List Nat) : List (List Nat) → List Nat
  | [] => []
  | [p] => p
  | p :: ps => p ++ sep ++ joinScalars sep ps

/-- `os_parts` [3406]: `(version, build)`; on Linux with version `0.0.0` both are taken from the
    `uname -srvmo` text in the CSD string: `Linux <version> <build…> <arch> [Linux/GNU]` -/
def osParts (major minor build platform : Nat) (csd : Option (List Nat)) : List Nat × Option (List Nat) :=
  let osVersion := scalarsOf s!"{major}.{minor}.{build}"
  let osBuild := (csd.map trimScalars).filter (fun v => !v.isEmpty)
  if platform ≠ Gen.LayoutsC02.PLATFORM_Linux ∨ osVersion ≠ scalarsOf "0.0.0" then (osVersion, osBuild)
  else
    let rawBuild := csd.getD []
    let parts := splitOnScalar 32 rawBuild
    let version := parts[1]?.getD (scalarsOf "0.0.0")
    let rest := parts.drop 2
    -- `parts.next_back()`, and once more when it was "Linux/GNU"
    let last := rest.getLast?.getD []
    let rest1 := rest.dropLast
    let rest2 := if last == scalarsOf "Linux/GNU" then rest1.dropLast else rest1
    let buildText := joinScalars [32] rest2
    if version == scalarsOf "0.0.0" then (osVersion, osBuild) else (version, some buildText)

def osPartsOf (si : SysInfo) : List Nat × Option (List Nat) :=
  osParts (fld si.vals 5) (fld si.vals 6) (fld si.vals 7) si.platform si.csd

/-! ## soft errors -/

/-- `MinidumpSoftErrors::read` [3944]: the stream must be UTF-8 (`Error::DataError` otherwise);
    the JSON text is not looked at. Returns its length. -/
def readSoftErrors (b : Bytes) : M Nat :=
  if utf8Valid b.toList then pure b.size else M.fail .DataError

end MdModel.Dump
