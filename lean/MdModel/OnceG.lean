/-
  MdModel.OnceG (namespace MdModel.Once) — the interleaving machine of `OnceCore` over programs whose
  CONTINUATION DEPENDS ON THE RESULT A LOOKUP OBSERVED.

  Why: `MultiSymbolProvider::walk_frame` (minidump-unwind/src/symbols/mod.rs:216-228) consults its
  providers in order and returns as soon as one of them walked the frame — what a task does next
  is decided by what it has just seen. In `OnceCore` a program is a fixed list of keys. Here a
  program is a list of `Item`s: the cache slot to look up, and `skipOk` — how many of the following
  items are dropped when the observed result is `ok` (0 for every request that goes on regardless
  of the result: `fill_symbol`, `get_file_path`, and a walk whose symbol file has no usable CFI).
  Nothing else differs from `OnceCore`: same slots, same waiter slab, same wake flags, same counters,
  same events. The decision is taken from the value the task OBSERVED (the slot's remembered value,
  or what the supplier call it performed itself returned) — not from the supplier table.

  `compile` is the static reading of such a program: the keys a task would look up if every lookup
  observed the supplier's own outcome. `MdProofs/Lemmas/OnceSim.lean` proves that the dynamic machine
  of this file and `OnceCore` on the compiled programs are in lock step for EVERY schedule
  (`sim_exec`), so every theorem about `OnceCore` holds for this machine.
-/
import MdModel.OnceCore
namespace MdModel.Once
open MdModel

/-- one lookup of a task's program -/
structure Item where
  /-- the `CachedAsyncResult` slot that is looked up -/
  slot : Nat
  /-- number of following items that are dropped if this lookup observes `ok` -/
  skipOk : Nat
  deriving DecidableEq, Repr, Inhabited

/-- a configuration: one program (list of items) per task, and the supplier behaviour per slot -/
structure ICfg where
  progs : List (List Item)
  sup : Nat → Sup

def ICfg.prog (cfg : ICfg) (t : Nat) : List Item := cfg.progs.getD t []
def ICfg.ntasks (cfg : ICfg) : Nat := cfg.progs.length
def ICfg.outcome (cfg : ICfg) (k : Nat) : Res := (cfg.sup k).res

/-- how many following items a task drops after it has observed `res` for item `i` -/
def skipOf (res : Res) (i : Item) : Nat := if res = .ok then i.skipOk else 0

inductive GCtl where
  | ready
  | waiting (i : Item)
  | inSup (i : Item) (n : Nat)
  | fin
  deriving DecidableEq, Repr, Inhabited

structure GTask where
  ctl : GCtl
  /-- items after the current one (nothing dropped yet for the current one) -/
  rest : List Item
  woken : Bool
  deriving Repr, Inhabited

structure GState where
  task : Nat → GTask
  slot : Nat → Slot
  waiters : Nat → List (Nat × Bool)
  requested : Nat
  processed : Nat
  log : List Event

def ginit (cfg : ICfg) : GState where
  task := fun t => if t < cfg.ntasks then ⟨.ready, cfg.prog t, true⟩ else ⟨.fin, [], false⟩
  slot := fun _ => .empty
  waiters := fun _ => []
  requested := 0
  processed := 0
  log := []

def gsetCtl (s : GState) (t : Nat) (c : GCtl) (r : List Item) : GState :=
  { s with task := upd s.task t { ctl := c, rest := r, woken := (s.task t).woken } }

def gsetWoken (s : GState) (t : Nat) (b : Bool) : GState :=
  { s with task := upd s.task t { ctl := (s.task t).ctl, rest := (s.task t).rest, woken := b } }

def gemit (s : GState) (e : Event) : GState := { s with log := s.log ++ [e] }

def gsetSlot (s : GState) (k : Nat) (v : Slot) : GState := { s with slot := upd s.slot k v }

def gsetWaiters (s : GState) (k : Nat) (ws : List (Nat × Bool)) : GState :=
  { s with waiters := upd s.waiters k ws }

/-- `Mutex::unlock` (as in `OnceCore.unlock`) -/
def gunlock (s : GState) (k : Nat) : GState :=
  match s.waiters k with
  | (u, false) :: ws => gsetWoken (gsetWaiters s k ((u, true) :: ws)) u true
  | _ => s

/-- the supplier call of task `t` for item `i` returns `res := cfg.outcome i.slot`: the value is
    stored, the guard dropped, the task has observed `res` and goes on with what is left of `r`
    after dropping `skipOf res i` items. Returns the observed result as well. -/
def gcomplete (cfg : ICfg) (t : Nat) (i : Item) (r : List Item) (s : GState) : GState :=
  let res := cfg.outcome i.slot
  let s := gemit { s with processed := s.processed + 1 } (.ret i.slot)
  let s := gsetSlot s i.slot (.done res)
  gunlock (gsetCtl (gemit s (.seen t i.slot res)) t .ready (r.drop (skipOf res i))) i.slot

/-- task `t` polls its lock future for item `i`; `r` = its program after this item. Returns the new
    state and the result it observed if the lookup completed. -/
def glookup (cfg : ICfg) (t : Nat) (i : Item) (r : List Item) (s : GState) : GState × Option Res :=
  match s.slot i.slot with
  | .held _ =>
    (gsetCtl (gsetWaiters s i.slot (register (s.waiters i.slot) t)) t (.waiting i) r, none)
  | .done res =>
    let s := gsetWaiters s i.slot (deregister (s.waiters i.slot) t)
    (gunlock (gsetCtl (gemit s (.seen t i.slot res)) t .ready (r.drop (skipOf res i))) i.slot, some res)
  | .empty =>
    let s := gsetWaiters s i.slot (deregister (s.waiters i.slot) t)
    let s := gsetSlot (gemit { s with requested := s.requested + 1 } (.call i.slot)) i.slot (.held t)
    match (cfg.sup i.slot).delay with
    | 0 => (gcomplete cfg t i r (gsetCtl s t (.inSup i 0) r), some (cfg.outcome i.slot))
    | n + 1 => (gsetWoken (gsetCtl s t (.inSup i n) r) t true, none)

/-- the rest of a poll of task `t`: `skip` items of the list are dropped first (they belong to a
    request that has already been answered), then the items are looked up one after another -/
def grunReady (cfg : ICfg) (t : Nat) : Nat → List Item → GState → GState
  | _, [], s => gsetCtl s t .fin []
  | skip + 1, _ :: r, s => grunReady cfg t skip r s
  | 0, i :: r, s =>
    match glookup cfg t i r s with
    | (s', some res) => grunReady cfg t (skipOf res i) r s'
    | (s', none) => s'

/-- THE transition (as `OnceCore.poll`) -/
def gpoll (cfg : ICfg) (t : Nat) (s : GState) : GState :=
  let T := s.task t
  match T.ctl with
  | .fin => s
  | .ready => grunReady cfg t 0 T.rest (gsetWoken s t false)
  | .waiting i =>
    match glookup cfg t i T.rest (gsetWoken s t false) with
    | (s', some res) => grunReady cfg t (skipOf res i) T.rest s'
    | (s', none) => s'
  | .inSup i (n + 1) => gsetWoken (gsetCtl s t (.inSup i n) T.rest) t true
  | .inSup i 0 =>
    grunReady cfg t (skipOf (cfg.outcome i.slot) i) T.rest
      (gcomplete cfg t i T.rest (gsetWoken s t false))

def gexec (cfg : ICfg) : List Nat → GState → GState
  | [], s => s
  | t :: ts, s => gexec cfg ts (gpoll cfg t s)

def gisFin (s : GState) (t : Nat) : Bool := (s.task t).ctl == .fin

def gallFin (cfg : ICfg) (s : GState) : Bool := (List.range cfg.ntasks).all (gisFin s)

def grunnable (cfg : ICfg) (s : GState) : List Nat :=
  (List.range cfg.ntasks).filter fun t => (s.task t).woken && !gisFin s t

def groundRobin (cfg : ICfg) (s : GState) : GState := gexec cfg (List.range cfg.ntasks) s

def gfinish (cfg : ICfg) : Nat → GState → GState
  | 0, s => s
  | f + 1, s => if gallFin cfg s then s else gfinish cfg f (groundRobin cfg s)

/-- completion phase of a waker-respecting executor: rounds that poll the tasks that are woken at
    the start of the round (stops when there is none) -/
def gfinishW (cfg : ICfg) : Nat → GState → GState
  | 0, s => s
  | f + 1, s =>
    if gallFin cfg s then s
    else if (grunnable cfg s).isEmpty then s
    else gfinishW cfg f (gexec cfg (grunnable cfg s) s)

/-! ### the static reading -/

/-- the keys a task looks up when every lookup observes the supplier's own outcome
    (first argument: number of leading items to drop) -/
def compS (cfg : ICfg) : Nat → List Item → List Nat
  | _, [] => []
  | n + 1, _ :: r => compS cfg n r
  | 0, i :: r => i.slot :: compS cfg (skipOf (cfg.outcome i.slot) i) r

def compile (cfg : ICfg) : Cfg := ⟨cfg.progs.map (compS cfg 0), cfg.sup⟩

/-- a fuel that suffices for the completion phase: the measure of the compiled configuration -/
def gfuel (cfg : ICfg) : Nat := measure (compile cfg) (init (compile cfg)) + 1

end MdModel.Once
