/-
  MdModel.Regs — placeholder (model not written yet).
-/
import MdModel.Prelude
namespace MdModel.Regs

/-- line-protocol entry point of this model (engine(s): regs) -/
def handle (_engine : String) (_args : List String) : String := "bad-op"

end MdModel.Regs
