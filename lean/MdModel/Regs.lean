/-
  MdModel.Regs — C18: register access by name, for the nine CPU context types.

  The TABLES (`REGISTERS`, the arms of `get_register_always` / `set_register`, the alias arms of
  `memoize_register` / `register_is_valid`, `sparc_alias_index`'s parameters, sp/ip names, register
  width, struct fields, `*RegisterNumbers`, the `MinidumpContext` dispatch) are GENERATED from
  minidump/src/context.rs and minidump-common/src/format.rs by translators/regs.py into
  `MdModel.Gen.Regs` on every run.  This file is the hand-written INTERPRETATION of those tables:
  it mirrors the provided methods of `trait CpuContext`, `default_memoize_register`, the
  `CpuRegisters` iterator and `MinidumpContext::{get_register, get_register_always,
  format_register, registers, valid_registers, register_size, get_stack_pointer,
  get_instruction_pointer}` (whose exact text the translator pins).

  Conventions
  * a context's state is a FUNCTION from storage cells (`field` / `field[i]`) to values; values
    are arbitrary naturals (a `u32 → u64` `.into()` / `as u64` is the identity on them);
  * a Rust `match reg { "a" | "b" => …, _ => … }` is a first-match lookup in an association list;
  * `unreachable!`, an out-of-range array index and `REGISTERS[idx]` out of range are the explicit
    `Outcome.panic`, never a totalised default.
-/
import MdModel.Prelude
import MdModel.Gen.Regs
namespace MdModel.Regs
open MdModel MdModel.Gen.Regs

/-! ## lookups -/

/-- first-match lookup (a Rust `match` on string literals) -/
def assoc {β : Type} : List (String × β) → String → Option β
  | [], _ => none
  | (a, b) :: t, k => if a = k then some b else assoc t k

/-- a resolved storage cell: `field` (scalar) or `field[i]` -/
structure Cell where
  field : String
  idx : Option Nat
  deriving DecidableEq, Repr

/-- the register file: every cell holds a value -/
abbrev State := Cell → Nat

def State.zero : State := fun _ => 0

/-- `self.cell = val` -/
def State.write (st : State) (c : Cell) (v : Nat) : State :=
  fun c' => if c' = c then v else st c'

/-- `md::<Enum>::<Variant> as usize` -/
def enumVal (ty variant : String) : Option Nat :=
  match assoc enums ty with
  | some vs => assoc vs variant
  | none => none

def resolve (r : CellRef) : Option Cell :=
  match r.idx with
  | none => some ⟨r.field, none⟩
  | some (.lit n) => some ⟨r.field, some n⟩
  | some (.enum ty v) =>
    match enumVal ty v with
    | some n => some ⟨r.field, some n⟩
    | none => none

def fieldOf (c : Ctx) (name : String) : Option Field :=
  (fields c).find? (fun f => f.name = name)

/-- the place exists in the struct: a scalar field used as a scalar, or an index below the array
    length (`self.iregs[16]` on a `[u32; 16]` would be the index panic) -/
def inBounds (c : Ctx) (cell : Cell) : Bool :=
  match fieldOf c cell.field, cell.idx with
  | some f, none => f.len.isNone
  | some f, some i =>
    (match f.len with
     | some n => decide (i < n)
     | none => false)
  | none, _ => false

/-- evaluate a place expression of the source: the cell, or the index panic -/
def place (c : Ctx) (r : CellRef) : Outcome Cell :=
  match resolve r with
  | none => .panic "enum variant not found"
  | some cell => if inBounds c cell then .ok cell else .panic "index out of bounds"

/-! ## `impl CpuContext for md::CONTEXT_*` -/

/-- `get_register_always`: the first matching arm; no arm = `unreachable!` -/
def getAlways (c : Ctx) (st : State) (n : String) : Outcome Nat :=
  match assoc (getArms c) n with
  | none => .panic "unreachable: invalid register"
  | some r =>
    match place c r with
    | .ok cell => .ok (st cell)
    | .panic s => .panic s

/-- `set_register`: `Some(())` with the new state, or `None` for an unsupported name -/
def setRegister (c : Ctx) (st : State) (n : String) (v : Nat) : Outcome (Option State) :=
  match assoc (setArms c) n with
  | none => .ok none
  | some r =>
    match place c r with
    | .ok cell => .ok (some (st.write cell v))
    | .panic s => .panic s

/-- `default_memoize_register`: the static copy of the first equal element of `REGISTERS` -/
def defaultMemo (regs : List String) (n : String) : Option String :=
  regs.find? (fun r => r = n)

/-- `sparc_alias_index`.  The source works on bytes (`len == 2`, `bytes[1]` in the digit range,
    `bytes[0]` selects the base); on characters this is the same function: a two-byte string whose
    second byte is an ASCII digit consists of two ASCII characters, and a two-character string with
    a non-ASCII character has more than two bytes and fails the range/base tests here as well. -/
def aliasIndex (sa : SparcAlias) (n : String) : Option Nat :=
  match n.toList with
  | [c0, c1] =>
    if sa.digitLo.toNat ≤ c1.toNat ∧ c1.toNat ≤ sa.digitHi.toNat then
      match sa.bases.find? (fun b => b.1 = c0) with
      | some b => some (b.2 + (c1.toNat - sa.digitLo.toNat))
      | none => none
    else none
  | _ => none

/-- `memoize_register` (trait default or the context's override) -/
def memoize (c : Ctx) (n : String) : Outcome (Option String) :=
  match memoRule c with
  | .default => .ok (defaultMemo (registers c) n)
  | .arms as =>
    match assoc as n with
    | some r => .ok (some r)
    | none => .ok (defaultMemo (registers c) n)
  | .sparcIndex =>
    match aliasIndex sparcAlias n with
    | some i =>
      (match (registers c)[i]? with
       | some r => .ok (some r)
       | none => .panic "index out of bounds")
    | none => .ok (defaultMemo (registers c) n)

/-- `MinidumpContextValidity` (the hash set is a duplicate-free list) -/
inductive Validity where
  | all
  | some (s : List String)
  deriving Repr

/-- `which.iter().any(|other| self.memoize_register(other) == Some(canonical))` — some element of
    the set has the canonical name `r` (short-circuiting like `Iterator::any`; `memoize_register`
    never panics — theorem `memoize_total` — so the hash set's iteration order is immaterial) -/
def anyMemoIs (c : Ctx) (r : String) : List String → Outcome Bool
  | [] => .ok false
  | o :: t =>
    match memoize c o with
    | .panic s => .panic s
    | .ok m => if m = some r then .ok true else anyMemoIs c r t

/-- `register_is_valid` (trait default or the context's override) -/
def isValid (c : Ctx) (n : String) : Validity → Outcome Bool
  | .all =>
    match memoize c n with
    | .ok m => .ok m.isSome
    | .panic s => .panic s
  | .some S =>
    match validRule c with
    | .default => .ok (S.contains n)
    | .groups gs =>
      (match gs.find? (fun g => g.1.contains n) with
       | some g => .ok (g.2.any fun a => S.contains a)
       | none => .ok (S.contains n))
    | .sparcMemo =>
      if S.contains n then .ok true
      else
        match memoize c n with
        | .ok (some r) => .ok (S.contains r)
        | .ok none => .ok false
        | .panic s => .panic s
    | .sparcCanon =>
      if S.contains n then .ok true
      else
        match memoize c n with
        | .ok (some r) => anyMemoIs c r S
        | .ok none => .ok false
        | .panic s => .panic s

/-- `get_register` (provided method): `Some(get_register_always(reg))` iff valid.
    `MinidumpContext::get_register` is the same computation (`register_is_valid` of the variant's
    context, then `get_register_always`, widened to `u64`). -/
def getRegister (c : Ctx) (st : State) (n : String) (valid : Validity) : Outcome (Option Nat) :=
  match isValid c n valid with
  | .panic s => .panic s
  | .ok false => .ok none
  | .ok true =>
    match getAlways c st n with
    | .ok v => .ok (some v)
    | .panic s => .panic s

/-- `iter.map(|reg| (reg, get_register_always(reg)))`, stopping at the first panic -/
def collect (c : Ctx) (st : State) : List String → Outcome (List (String × Nat))
  | [] => .ok []
  | n :: t =>
    match getAlways c st n with
    | .panic s => .panic s
    | .ok v =>
      match collect c st t with
      | .panic s => .panic s
      | .ok r => .ok ((n, v) :: r)

/-- `CpuContext::registers()` = `valid_registers(&All)`: `REGISTERS` in order -/
def cpuRegisters (c : Ctx) (st : State) : Outcome (List (String × Nat)) :=
  collect c st (registers c)

/-- `CpuContext::valid_registers(valid)`: `REGISTERS`, or the elements of the set as given
    (hash-set order is arbitrary; the set is presented here in the order of the list) -/
def cpuValidRegisters (c : Ctx) (st : State) : Validity → Outcome (List (String × Nat))
  | .all => collect c st (registers c)
  | .some S => collect c st S

/-- `MinidumpContext::registers()`: `general_purpose_registers()` mapped through
    `get_register_always` -/
def mdRegisters (c : Ctx) (st : State) : Outcome (List (String × Nat)) :=
  collect c st (registers (gprOf c))

/-- `MinidumpContext::valid_registers()`: `registers().filter(register_is_valid)`; the value is
    computed (and may panic) before the filter looks at the name -/
def mdValidFrom (c : Ctx) (st : State) (valid : Validity) : List String → Outcome (List (String × Nat))
  | [] => .ok []
  | n :: t =>
    match getAlways c st n with
    | .panic s => .panic s
    | .ok v =>
      match isValid c n valid with
      | .panic s => .panic s
      | .ok keep =>
        match mdValidFrom c st valid t with
        | .panic s => .panic s
        | .ok r => .ok (if keep then (n, v) :: r else r)

def mdValidRegisters (c : Ctx) (st : State) (valid : Validity) : Outcome (List (String × Nat)) :=
  mdValidFrom c st valid (registers (gprOf c))

/-- `register_size()` = `size_of::<Register>()` -/
def registerSize (c : Ctx) : Nat := regBits c / 8

/-- `MinidumpContext::get_stack_pointer` -/
def stackPointer (c : Ctx) (st : State) : Outcome Nat :=
  match place c (spCell c) with
  | .ok cell => .ok (st cell)
  | .panic s => .panic s

/-- `MinidumpContext::get_instruction_pointer` -/
def instructionPointer (c : Ctx) (st : State) : Outcome Nat :=
  match place c (ipCell c) with
  | .ok cell => .ok (st cell)
  | .panic s => .panic s

/-- lower-case hex, left-padded with zeros to at least `w` digits (`{:0w$x}`) -/
def hexPad (v w : Nat) : String :=
  let d := Nat.toDigits 16 v
  String.ofList (List.replicate (w - d.length) '0' ++ d)

/-- `format_register`: `format!("0x{:01$x}", value, size_of::<Register>() * 2)` -/
def formatRegister (c : Ctx) (st : State) (n : String) : Outcome String :=
  match getAlways c st n with
  | .ok v => .ok ("0x" ++ hexPad v (registerSize c * 2))
  | .panic s => .panic s

/-! ## name universes read off the tables -/

def dedup : List String → List String
  | [] => []
  | a :: t => if t.contains a then dedup t else a :: dedup t

/-- the window aliases `sparc_alias_index` maps, spelled out: base letter × digit -/
def sparcAliasNames (sa : SparcAlias) : List String :=
  sa.bases.flatMap fun b =>
    (List.range (sa.digitHi.toNat + 1 - sa.digitLo.toNat)).map fun k =>
      String.ofList [b.1, Char.ofNat (sa.digitLo.toNat + k)]

def memoKeys (c : Ctx) : List String :=
  match memoRule c with
  | .default => []
  | .arms as => as.map (·.1)
  | .sparcIndex => sparcAliasNames sparcAlias

def validKeys (c : Ctx) : List String :=
  match validRule c with
  | .groups gs => gs.flatMap fun g => g.1 ++ g.2
  | _ => []

/-- every name that occurs in any table of the context: `REGISTERS`, getter and setter patterns,
    alias arms of `memoize_register` and `register_is_valid`, the sp/ip names -/
def knownNames (c : Ctx) : List String :=
  dedup (registers c ++ (getArms c).map (·.1) ++ (setArms c).map (·.1) ++ memoKeys c ++ validKeys c
         ++ [spName c, ipName c])

/-- the resolved cell a name denotes for the getter (none: no arm / unresolvable) -/
def getCell (c : Ctx) (n : String) : Option Cell :=
  match assoc (getArms c) n with
  | some r => resolve r
  | none => none

def setCell (c : Ctx) (n : String) : Option Cell :=
  match assoc (setArms c) n with
  | some r => resolve r
  | none => none

/-! ## line protocol

  request : `regs <CTX> <valid> <op> <op> …`
    CTX    X86 | AMD64 | ARM | ARM64_OLD | ARM64 | PPC | PPC64 | MIPS | SPARC
    valid  `all` | `some:` name-tokens separated by `,` (duplicate-free, may be empty)
    name-token   `[A-Za-z0-9_]+` verbatim, anything else `%` + hex(utf-8 bytes)  (`%` = empty name)
    ops (state starts all-zero; `set` is the only op that changes it)
      set:<n>:<hex>  -> ok | none          geta:<n> -> hex            get:<n> / mget:<n> -> hex | none
      fmt:<n> / mfmt:<n> -> text           memo:<n> -> token | none   valid:<n> -> 0 | 1
      regs | vregs | mregs | mvregs -> n=hex,…      gpr -> n,…       size | sp | ip | spname | ipname
      names -> every name of the tables    dump -> non-zero cells of the register-bearing fields
    any panic -> `PANIC` for that op
  answer  : op results joined by `;`
-/
open Proto

def isPlainChar (ch : Char) : Bool :=
  ('a' ≤ ch ∧ ch ≤ 'z') ∨ ('A' ≤ ch ∧ ch ≤ 'Z') ∨ ('0' ≤ ch ∧ ch ≤ '9') ∨ ch = '_'

def encName (n : String) : String :=
  if n ≠ "" ∧ n.toList.all isPlainChar then n
  else "%" ++ (if n = "" then "" else hex n.toUTF8.data.toList)

def decName (t : String) : Option String :=
  match t.toList with
  | [] => none
  | '%' :: rest =>
    if rest.isEmpty then some "" else
    match unhex (String.ofList rest) with
    | some bs => if bs.isEmpty then none else String.fromUTF8? (ByteArray.mk bs.toArray)
    | none => none
  | cs => if cs.all isPlainChar then some t else none

def parseCtx (s : String) : Option Ctx := Ctx.all.find? (fun c => c.name = s)

def hasDup : List String → Bool
  | [] => false
  | a :: t => t.contains a || hasDup t

def parseValid (s : String) : Option Validity :=
  if s = "all" then some .all
  else if s.startsWith "some:" then
    let toks := pieces ((s.drop 5).toString) ","
    let names := toks.filterMap decName
    if names.length ≠ toks.length ∨ hasDup names then none else some (.some names)
  else none

def showPairs (ps : List (String × Nat)) : String :=
  if ps.isEmpty then "-" else joinWith "," (ps.map fun p => encName p.1 ++ "=" ++ natToHex p.2)

def showOut {α : Type} (f : α → String) : Outcome α → String
  | .ok a => f a
  | .panic _ => "PANIC"

/-- fields that hold a named register (referenced by a getter/setter arm or an accessor), in
    struct order, with all their indices -/
def dumpCells (c : Ctx) : List Cell :=
  let used := ((getArms c).map (·.2.field)) ++ ((setArms c).map (·.2.field)) ++ [(spCell c).field, (ipCell c).field]
  (fields c).flatMap fun f =>
    if used.contains f.name then
      match f.len with
      | none => [⟨f.name, none⟩]
      | some n => (List.range n).map fun i => ⟨f.name, some i⟩
    else []

def showCell (cell : Cell) : String :=
  match cell.idx with
  | none => cell.field
  | some i => cell.field ++ "[" ++ toString i ++ "]"

def showDump (c : Ctx) (st : State) : String :=
  let nz := (dumpCells c).filter fun cell => st cell ≠ 0
  if nz.isEmpty then "-" else joinWith "," (nz.map fun cell => showCell cell ++ "=" ++ natToHex (st cell))

def insertSorted (a : String) : List String → List String
  | [] => [a]
  | b :: t => if a < b then a :: b :: t else b :: insertSorted a t

def sortNames (l : List String) : List String := l.foldr insertSorted []

/-- one op: (answer, new state) or none for a malformed op -/
def runOp (c : Ctx) (valid : Validity) (st : State) (op : String) : Option (String × State) :=
  let optv (o : Outcome (Option Nat)) : String :=
    showOut (fun | some v => natToHex v | none => "none") o
  match op.splitOn ":" with
  | ["set", n, v] =>
    match decName n, parseHexNat v with
    | some n, some v =>
      if v ≥ 2 ^ regBits c then none else
      (match setRegister c st n v with
       | .ok (some st') => some ("ok", st')
       | .ok none => some ("none", st)
       | .panic _ => some ("PANIC", st))
    | _, _ => none
  | [k, n] =>
    match decName n with
    | none => none
    | some n =>
      match k with
      | "geta" | "mgeta" => some (showOut natToHex (getAlways c st n), st)
      | "get" | "mget" => some (optv (getRegister c st n valid), st)
      | "fmt" | "mfmt" => some (showOut id (formatRegister c st n), st)
      | "memo" => some (showOut (fun | some r => encName r | none => "none") (memoize c n), st)
      | "valid" => some (showOut (fun b => if b then "1" else "0") (isValid c n valid), st)
      | _ => none
  | [k] =>
    match k with
    | "regs" => some (showOut showPairs (cpuRegisters c st), st)
    | "vregs" => some (showOut showPairs (cpuValidRegisters c st valid), st)
    | "mregs" => some (showOut showPairs (mdRegisters c st), st)
    | "mvregs" => some (showOut showPairs (mdValidRegisters c st valid), st)
    | "gpr" => some (joinWith "," ((registers (gprOf c)).map encName), st)
    | "size" => some (toString (registerSize c), st)
    | "sp" => some (showOut natToHex (stackPointer c st), st)
    | "ip" => some (showOut natToHex (instructionPointer c st), st)
    | "spname" => some (encName (spName c), st)
    | "ipname" => some (encName (ipName c), st)
    | "names" => some (joinWith "," ((sortNames (knownNames c)).map encName), st)
    | "dump" => some (showDump c st, st)
    | _ => none
  | _ => none

def runOps (c : Ctx) (valid : Validity) : State → List String → List String → Option (List String)
  | _, [], acc => some acc.reverse
  | st, op :: rest, acc =>
    match runOp c valid st op with
    | some (a, st') => runOps c valid st' rest (a :: acc)
    | none => none

/-- line-protocol entry point of this model (engine: regs) -/
def handle (_engine : String) (args : List String) : String :=
  match args with
  | ctx :: valid :: ops =>
    (match parseCtx ctx, parseValid valid with
     | some c, some v =>
       if ops.isEmpty then "bad-op" else
       (match runOps c v State.zero ops [] with
        | some outs => joinWith ";" outs
        | none => "bad-op")
     | _, _ => "bad-op")
  | _ => "bad-op"

end MdModel.Regs
