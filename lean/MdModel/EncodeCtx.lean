/-
  MdModel.EncodeCtx — C02, thread contexts as REGISTER FILES.

  `MdModel.Encode` carries a thread's context as raw bytes. This file adds the serializer of a CPU
  context from a register file in C18's representation (`MdModel.Regs.State = Cell → Nat`, a cell
  being `field` / `field[i]` of the CONTEXT_* record) and uses C01's reader side as the decoder:

    `regCells k`        the cells of CONTEXT_<k> that hold a named register (C18's `dumpCells`)
    `ctxScalar`         the value written into the scalar the generated layout calls `n`:
                          the `context_flags` word | the register file's cell of that spelling |
                          the caller's raw part for every other field (debug registers, float /
                          vector save areas, padding)
    `encodeContext`     `encFields e (CONTEXT_<k> layout) (those values)`; layouts regenerated from
                          format.rs (MdModel.Gen.LayoutsX), integers in byte order `e`
    decoder             `MdModel.Dump.contextRead` (`MinidumpContext::read`: dispatch on the system
                          info's processor architecture, `gread_with` of the record, CPU bits of
                          `context_flags`) + `regState` + C18's accessors (`MdModel.DumpRegs`)
    `threadContext`     `MinidumpThread::context(system_info, misc)` on a thread as `decode` reports it

  Theorems: MdProofs.C02Ctx (`context_roundtrip`, `context_roundtrip_endian`, `thread_context_roundtrip`).

  line protocol (engine `roundtrip`, first argument `ctx`):
      roundtrip ctx <arch> <flags hex> <seed> <cell=hex,..|-> <hex|-> <hex|->
        arch   the system info's `processor_architecture` (decimal)
        cells  the register file: `showCell` spelling = value; cells not listed hold 0
        seed   selects the raw parts (`patOther`)
        the two hex strings: a FOREIGN writer's little- and big-endian record (or `-`)
    -> hex(encodeContext .. LE) ## hex(.. BE) ## read(foreign LE) ## read(foreign BE)
       ## read(own LE) ## read(own BE) ## expected
      read(..)  = `err ReadFailure` | `err UnknownCpuContext`
                | `<Variant> fl=<hex> ip=<hex> sp=<hex> get[<name>=<hex|none>,..] valid[<name>=<hex>,..]`
                  (every name of C18's tables, sorted; `valid_registers()` under `All`)
      expected  = the same text computed from the REGISTER FILE (the right-hand side of
                  `context_roundtrip`), `err ..` when no record type is selected
-/
import MdModel.Encode
import MdModel.DumpRegs
namespace MdModel.EncodeCtx
open MdModel MdModel.Dump MdModel.Encode
open MdModel.Gen.Layouts (Layout)

/-- the cells of the record that hold a named register -/
def regCells (k : CtxKind) : List Regs.Cell := Regs.dumpCells (regsCtxOf k)

/-- the value of the scalar the generated layout calls `n` -/
def ctxScalar (k : CtxKind) (rf : Regs.State) (flags : Nat) (other : String → Nat) (n : String) : Nat :=
  if n = "context_flags" then flags
  else
    match (regCells k).find? (fun c => Regs.showCell c == n) with
    | some c => rf c
    | none => other n

/-- the scalars of the record in layout order -/
def ctxVals (k : CtxKind) (rf : Regs.State) (flags : Nat) (other : String → Nat) : List Nat :=
  k.layout.map fun f => ctxScalar k rf flags other f.1

/-- **the serializer of a CPU context**: every cell of CONTEXT_<k> from the register file, the
    `context_flags` word, the remaining fields from `other`, in byte order `e` -/
def encodeContext (k : CtxKind) (rf : Regs.State) (flags : Nat) (other : String → Nat) (e : Endian) : List UInt8 :=
  encFields e k.layout (ctxVals k rf flags other)

/-- `MinidumpThread::context(system_info, misc)` [minidump.rs 2855] on a thread as `decode` reports
    it: `self.context?` are the raw bytes, the CPU comes from the system-info stream of the same dump
    (`None` when there is no context or no readable system info: the caller has nothing to pass). -/
def threadContext (r : Reported) (t : RThread) : Option (Except CtxErr Context) :=
  match t.ctx, r.sysInfo with
  | some bytes, .ok si => some (contextRead bytes.toArray r.endian si.arch)
  | _, _ => none

/-! ## line protocol -/
open Proto

/-- the raw parts used by the driver: a value per field position that fits every width ≥ 1 byte
    pattern-wise (reduced modulo the field's width) -/
def patOther (k : CtxKind) (seed : Nat) (n : String) : Nat :=
  match k.layout.findIdx? (fun f => f.1 == n), k.layout.find? (fun f => f.1 == n) with
  | some i, some f => ((seed + 1) * 2654435761 + i * 40503 + seed * i * 7919) % (256 ^ f.2)
  | _, _ => 0

def parseCells (s : String) : Option (List (String × Nat)) :=
  if s = "-" then some []
  else (pieces s ",").mapM fun it =>
    match it.splitOn "=" with
    | [n, v] => (parseHexNat v).map fun x => (n, x)
    | _ => none

def rfOf (cells : List (String × Nat)) : Regs.State :=
  fun cell => (Regs.assoc cells (Regs.showCell cell)).getD 0

def showOutNat : Outcome Nat → String
  | .ok v => natToHex v
  | .panic _ => "PANIC"

def showOptNat : Outcome (Option Nat) → String
  | .ok (some v) => natToHex v
  | .ok none => "none"
  | .panic _ => "PANIC"

def showMNat (m : M Nat) : String :=
  match m.res with
  | .ok v => natToHex v
  | .err e => "err " ++ e.name
  | .panic _ => "PANIC"

/-- the text of one read context: the accessors the property names -/
def showContext (c : Context) : String :=
  let ctx := regsCtxOf c.kind
  let st := regState c
  let names := Regs.sortNames (Regs.knownNames ctx)
  c.kind.name ++ " fl=" ++ natToHex c.flags ++ " ip=" ++ showMNat c.ip ++ " sp=" ++ showMNat c.sp ++
    " get[" ++ joinWith "," (names.map fun n => Regs.encName n ++ "=" ++ showOptNat (Regs.getRegister ctx st n .all)) ++ "]" ++
    " valid[" ++ (match Regs.mdValidRegisters ctx st .all with
      | .ok vs => joinWith "," (vs.map fun p => Regs.encName p.1 ++ "=" ++ natToHex p.2)
      | .panic _ => "PANIC") ++ "]"

def showRead (bytes : Bytes) (e : Endian) (arch : Nat) : String :=
  match contextRead bytes e arch with
  | .error .readFailure => "err ReadFailure"
  | .error .unknownCpu => "err UnknownCpuContext"
  | .ok c => showContext c

/-- the same text from the register file: what `context_roundtrip` says a reader reports -/
def showExpected (arch : Nat) (rf : Regs.State) (flags : Nat) : String :=
  match ctxKindOfArch arch with
  | none => "err UnknownCpuContext"
  | some k =>
    if contextFlagsCpu flags ≠ k.cpuFlag then "err ReadFailure" else
    let ctx := regsCtxOf k
    let names := Regs.sortNames (Regs.knownNames ctx)
    let cellOf (n : String) : String :=
      match Regs.getCell ctx n with
      | some cell => natToHex (rf cell)
      | none => "none"
    k.name ++ " fl=" ++ natToHex flags ++ " ip=" ++ cellOf (Gen.Regs.ipName ctx) ++ " sp=" ++ cellOf (Gen.Regs.spName ctx) ++
      " get[" ++ joinWith "," (names.map fun n => Regs.encName n ++ "=" ++ cellOf n) ++ "]" ++
      " valid[" ++ joinWith "," ((Gen.Regs.registers ctx).map fun n => Regs.encName n ++ "=" ++ cellOf n) ++ "]"

def showForeign (h : String) (e : Endian) (arch : Nat) : Option String :=
  if h = "-" then some "-"
  else (unhex h).map fun bs => showRead bs.toArray e arch

/-- line-protocol entry point (engine `roundtrip`, op `ctx`) -/
def handle (args : List String) : String :=
  match args with
  | ["ctx", arch, flags, seed, cells, fle, fbe] =>
    match arch.toNat?, parseHexNat flags, seed.toNat?, parseCells cells with
    | some arch, some flags, some seed, some cells =>
      let rf := rfOf cells
      match showForeign fle .little arch, showForeign fbe .big arch with
      | some rl, some rb =>
        (match ctxKindOfArch arch with
         | none => joinWith " ## " ["-", "-", rl, rb, "-", "-", showExpected arch rf flags]
         | some k =>
           let le := encodeContext k rf flags (patOther k seed) .little
           let be := encodeContext k rf flags (patOther k seed) .big
           joinWith " ## " [hex le, hex be, rl, rb, showRead le.toArray .little arch, showRead be.toArray .big arch,
                            showExpected arch rf flags])
      | _, _ => "bad-op"
    | _, _, _, _ => "bad-op"
  | _ => "bad-op"

end MdModel.EncodeCtx
