/-
  MdModel.TimeFmt — the text `format_time_t` / `format_system_time` (minidump/src/minidump.rs 669-694)
  produce through the crate `time` 0.3 (`OffsetDateTime::from_unix_timestamp`, `Date::from_calendar_date`,
  `Date::with_hms_milli`, `format(&Rfc3339)`), as total functions on naturals.

  * `format_time_t(t: u32)`: `from_unix_timestamp(t as i64)` accepts -377705116800 ..= 253402300799
    (years -9999 ..= 9999 without the `large-dates` feature); a `u32` is always inside, the formatter
    `Rfc3339` accepts years 0 ..= 9999, offset UTC prints `Z`, nanosecond 0 prints no fraction. An error of
    either step becomes the EMPTY string (`unwrap_or_default`): modelled for every natural number
    (`formatUnix`), unreachable from a `u32` (theorem `format_total`).
  * `format_system_time(&SYSTEMTIME)`: eight `u16`; month / day / hour / minute / second are cast `as u8`
    (truncation!) before validation, the year `as i32` (0 ..= 65535, accepted up to 9999), milliseconds go in
    as `u16` (< 1000); any failure prints `<invalid date>`. The fraction is printed without trailing zeros
    (`.5`, `.25`, `.125`), absent when the milliseconds are 0.

  Core-only imports.
-/
import MdModel.Prelude

namespace MdModel.TimeFmt

/-- Gregorian leap year. -/
def isLeap (y : Nat) : Bool := y % 4 == 0 && (y % 100 != 0 || y % 400 == 0)

/-- `Month::length(year)`. -/
def daysInMonth (y m : Nat) : Nat :=
  if m == 2 then (if isLeap y then 29 else 28)
  else if m == 4 || m == 6 || m == 9 || m == 11 then 30 else 31

/-- Within one 400-year era (day 0 = 1 March of a year ≡ 0 mod 400): day of era → (year of era, month, day).
    The year of era counts from March; the civil year is one more for January / February. -/
def doeParts (doe : Nat) : Nat × Nat × Nat :=
  let yoe := (doe - doe / 1460 + doe / 36524 - doe / 146096) / 365
  let doy := doe - (365 * yoe + yoe / 4 - yoe / 100)
  let mp := (5 * doy + 2) / 153
  let d := doy - (153 * mp + 2) / 5 + 1
  let m := if mp < 10 then mp + 3 else mp - 9
  (yoe, m, d)

/-- The inverse: (year of era, month, day) → day of era. -/
def doeOfParts (yoe m d : Nat) : Nat :=
  let mp := if m > 2 then m - 3 else m + 9
  let doy := (153 * mp + 2) / 5 + d - 1
  yoe * 365 + yoe / 4 - yoe / 100 + doy

/-- Days since 1970-01-01 → (year, month, day) (the era-based algorithm; total on the naturals). -/
def civilFromDays (z : Nat) : Nat × Nat × Nat :=
  let z' := z + 719468
  let era := z' / 146097
  let doe := z' % 146097
  let p := doeParts doe
  (p.1 + era * 400 + (if p.2.1 ≤ 2 then 1 else 0), p.2.1, p.2.2)

/-- (year, month, day) → days since 1970-01-01 (for dates from 1970-01-01 on; truncated subtraction below). -/
def daysFromCivil (y m d : Nat) : Nat :=
  let y' := y - (if m ≤ 2 then 1 else 0)
  let era := y' / 400
  let yoe := y' % 400
  era * 146097 + doeOfParts yoe m d - 719468

def digit (k : Nat) : Char := Char.ofNat (48 + k % 10)

def pad2 (n : Nat) : List Char := [digit (n / 10), digit n]
def pad4 (n : Nat) : List Char := [digit (n / 1000), digit (n / 100), digit (n / 10), digit n]

/-- The six fields of a second count: (year, month, day, hour, minute, second). -/
structure Fields where
  y : Nat
  mo : Nat
  d : Nat
  h : Nat
  mi : Nat
  s : Nat
  deriving DecidableEq, Repr

def fieldsOf (n : Nat) : Fields :=
  let c := civilFromDays (n / 86400)
  let r := n % 86400
  { y := c.1, mo := c.2.1, d := c.2.2, h := r / 3600, mi := r % 3600 / 60, s := r % 60 }

/-- `YYYY-MM-DDTHH:MM:SS` -/
def renderChars (f : Fields) : List Char :=
  pad4 f.y ++ ['-'] ++ pad2 f.mo ++ ['-'] ++ pad2 f.d ++ ['T'] ++ pad2 f.h ++ [':'] ++ pad2 f.mi ++ [':'] ++ pad2 f.s

/-- The largest timestamp `from_unix_timestamp` accepts: 9999-12-31T23:59:59Z. -/
def MAX_TS : Nat := 253402300799

/-- The characters of `format_time_t`-style output for a non-negative timestamp. -/
def formatUnixChars (n : Nat) : List Char :=
  if n ≤ MAX_TS then renderChars (fieldsOf n) ++ ['Z'] else []

/-- `from_unix_timestamp(n).ok().and_then(|d| d.format(&Rfc3339).ok()).unwrap_or_default()` for n ≥ 0. -/
def formatUnix (n : Nat) : String := String.ofList (formatUnixChars n)

/-- `format_time_t(t: u32)`; the argument is reduced like the `u32` it stands for. -/
def formatTimeT (t : Nat) : String := formatUnix (t % 4294967296)

/-- The Rfc3339 fraction for a whole number of milliseconds (< 1000): none, or `.` and 1–3 digits without
    trailing zeros. -/
def fracChars (ms : Nat) : List Char :=
  if ms == 0 then []
  else if ms % 10 != 0 then ['.', digit (ms / 100), digit (ms / 10), digit ms]
  else if ms / 10 % 10 != 0 then ['.', digit (ms / 100), digit (ms / 10)]
  else ['.', digit (ms / 100)]

/-- A `SYSTEMTIME` (eight `u16`; `day_of_week` is dropped by the code). -/
structure SysTime where
  year : Nat
  month : Nat
  day : Nat
  hour : Nat
  minute : Nat
  second : Nat
  ms : Nat

def formatSystemTimeChars (t : SysTime) : Option (List Char) :=
  let mo := t.month % 256       -- `time.month as u8`
  let d := t.day % 256
  let h := t.hour % 256
  let mi := t.minute % 256
  let s := t.second % 256
  if !(1 ≤ mo && mo ≤ 12) then none                    -- Month::try_from
  else if t.year > 9999 then none                      -- ensure_ranged!(Year) (the u16 is never negative)
  else if !(1 ≤ d && d ≤ daysInMonth t.year mo) then none
  else if h > 23 || mi > 59 || s > 59 || t.ms > 999 then none
  else some (renderChars { y := t.year, mo := mo, d := d, h := h, mi := mi, s := s } ++ fracChars t.ms ++ ['Z'])

def formatSystemTime (t : SysTime) : String :=
  match formatSystemTimeChars t with
  | some cs => String.ofList cs
  | none => "<invalid date>"

/-- Protocol: `timefmt t <n>` → the string (`-` for the empty one);
    `timefmt st <year> <month> <day> <hour> <minute> <second> <ms>` (each a `u16`). -/
def handle (args : List String) : String :=
  let shown (s : String) : String := if s.isEmpty then "-" else s
  match args with
  | ["t", n] =>
    match n.toNat? with
    | some n => if n ≤ U32MAX then shown (formatTimeT n) else "bad-op"
    | none => "bad-op"
  | ["unix", n] =>
    match n.toNat? with
    | some n => shown (formatUnix n)
    | none => "bad-op"
  | ["st", y, mo, d, h, mi, s, ms] =>
    match y.toNat?, mo.toNat?, d.toNat?, h.toNat?, mi.toNat?, s.toNat?, ms.toNat? with
    | some y, some mo, some d, some h, some mi, some s, some ms =>
      if y ≤ 65535 && mo ≤ 65535 && d ≤ 65535 && h ≤ 65535 && mi ≤ 65535 && s ≤ 65535 && ms ≤ 65535 then
        shown (formatSystemTime { year := y, month := mo, day := d, hour := h, minute := mi, second := s, ms := ms })
      else "bad-op"
    | _, _, _, _, _, _, _ => "bad-op"
  | _ => "bad-op"

end MdModel.TimeFmt
