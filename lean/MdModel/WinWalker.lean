/-
  MdModel.WinWalker — STACK WIN evaluation running against the REAL `FrameWalker`.

    SymbolFile::walk_frame                    breakpad-symbols/src/sym_file/mod.rs:493-524
    walk_with_stack_win_framedata / _fpo      sym_file/walker.rs:969-1045
    eval_win_expr                             walker.rs:758-937
    clear_stack_win_caller_registers          walker.rs:1048-1053
  with `walker` = `CfiStackWalker<CONTEXT_X86>` (minidump-unwind/src/lib.rs:553-655).

  C07's evaluator (`MdModel.Win`) computes, from the read-only half of a walker, the *plan* of a
  STACK WIN routine (the `set_caller_register` calls in order + whether it then returns `Some`)
  and applies it to its own six-register record `Win.Caller`. Here the same plans are computed
  from what the REAL walker answers (`readOf`: `get_callee_register` through C18's register
  tables and the validity set, `get_register_at_address` through the stack memory,
  `has_grand_callee`, `get_grand_callee_parameter_size`) and applied with the REAL walker's
  writes (`CfiStackWalker.setCallerRegister` / `clearCallerRegister` of `MdModel.CfiWalker`:
  `memoize_register`, the `u32::try_from(u64)` width test, the `HashSet` of canonical names,
  `set_register`). `MdProofs.C07Walker` proves that the two runs agree register by register
  (`win_walk_refines`), so C07's theorems hold of the real x86 walker.

  The `win rw …` cases of engine `win` run the real `SymbolFile::walk_frame` on the real private
  struct inside `minidump_unwind::walk_stack` and compare the frame it pushes with `handle` below
  (`getCallerByCfi` / `frameTail` are `MdModel.CfiWalker`'s, with `walk_frame` = `walkFrameReal`).

  Core-only imports.
-/
import MdModel.Win
import MdModel.CfiWalker
namespace MdModel.WinWalker
open MdModel MdModel.CfiWalker

/-- What `eval_win_expr` / `walk_with_stack_win_fpo` observe of the real walker. Callee registers
    and memory words are `u32` on x86 (`C::Register = u32`, widened to `u64` by the trait and cast
    back with `as u32` by `eval_win_expr`); `grand_callee_parameter_size` is a `u32` field. A name
    the context type does not know, or a register the validity set does not cover, reads `None`. -/
def readOf (w : CfiStackWalker) : Win.Walker :=
  { hasGC := w.hasGrandCallee
    gcParam := UInt32.ofNat w.grandCalleeParameterSize
    reg := fun n => (okOr none (w.getCalleeRegister n)).map UInt32.ofNat
    mem := fun a => (w.getRegisterAtAddress a).map UInt32.ofNat }

/-- the `walker.set_caller_register(name, val)?` calls of a plan, in order, on the real walker -/
def applySetsReal : CfiStackWalker → List (String × Nat) → Outcome (Bool × CfiStackWalker)
  | w, [] => .ok (true, w)
  | w, (n, v) :: rest =>
    match w.setCallerRegister n v with
    | .panic s => .panic s
    | .ok (false, w') => .ok (false, w')
    | .ok (true, w') => applySetsReal w' rest

def runPlanReal (w : CfiStackWalker) (p : Win.Plan) : Outcome (Bool × CfiStackWalker) :=
  match applySetsReal w p.sets with
  | .panic s => .panic s
  | .ok (ok, w') => .ok (ok && p.done, w')

/-- `walk_with_stack_win_framedata(info, walker)`: `clear_stack_win_caller_registers`, then
    `eval_win_expr` (`names` = the names the clear passes: `Win.clearNamesActual` today) -/
def walkFramedataReal (names : List String) (i : Win.SInfo) (w : CfiStackWalker) :
    Outcome (Bool × CfiStackWalker) :=
  match i.thing with
  | .prog expr =>
    match clearAllReal names w with
    | .panic s => .panic s
    | .ok w1 =>
      match Win.evalWin expr i.info (readOf w1) with
      | .panic s => .panic s
      | .ok p => runPlanReal w1 p
  | .abp _ => .panic "walk_with_stack_win_framedata: unreachable!()"

/-- `walk_with_stack_win_fpo(info, walker)` -/
def walkFpoReal (names : List String) (i : Win.SInfo) (w : CfiStackWalker) :
    Outcome (Bool × CfiStackWalker) :=
  match i.thing with
  | .abp b =>
    match clearAllReal names w with
    | .panic s => .panic s
    | .ok w1 =>
      match Win.fpoPlan i.info b (readOf w1) with
      | .panic s => .panic s
      | .ok p => runPlanReal w1 p
  | .prog _ => .panic "walk_with_stack_win_fpo: unreachable!()"

/-- the STACK WIN half of `SymbolFile::walk_frame`: framedata preferred to fpo -/
def winResultReal (names : List String) (fd fpo : Option Win.SInfo) (w : CfiStackWalker) :
    Outcome (Bool × CfiStackWalker) :=
  match fd, fpo with
  | some i, _ => walkFramedataReal names i w
  | none, some i => walkFpoReal names i w
  | none, none => .ok (false, w)

/-- `win_stack_result.or_else(|| walk_with_stack_cfi(..))`, the CFI running on the walker AS
    STACK WIN LEFT IT. (When the CFI fails too `walk_frame` returns `None` and the unwinder drops
    the walker; the state reported for that case is the one before the CFI ran, as in
    `Win.orElseCfi`.) -/
def orElseCfiReal (cfi : Option Script) :
    Outcome (Bool × CfiStackWalker) → Outcome (Bool × CfiStackWalker)
  | .panic s => .panic s
  | .ok (true, w') => .ok (true, w')
  | .ok (false, w') =>
    match cfi with
    | none => .ok (false, w')
    | some f =>
      match f w' with
      | .panic s => .panic s
      | .ok (true, w'') => .ok (true, w'')
      | .ok (false, _) => .ok (false, w')

def walkSelectedReal (names : List String) (fd fpo : Option Win.SInfo) (cfi : Option Script)
    (w : CfiStackWalker) : Outcome (Bool × CfiStackWalker) :=
  orElseCfiReal cfi (winResultReal names fd fpo w)

/-- the parsed tables of a symbol file as `walk_frame` consults them: the record of each kind
    covering a module offset, and the STACK CFI rule lines covering it -/
structure Tables where
  fd : Nat → Option Win.SInfo
  fpo : Nat → Option Win.SInfo
  cfi : Nat → Option (List Cfi.Bytes)

/-- `SymbolFile::walk_frame(module, walker)` on the real walker -/
def walkFrameReal (names : List String) (t : Tables) : Script := fun w =>
  if w.getInstruction < w.moduleBase then .ok (false, w) else
  let addr := w.getInstruction - w.moduleBase
  walkSelectedReal names (t.fd addr) (t.fpo addr) ((t.cfi addr).map fun lines w' => walkCfiReal w' lines) w

/-! ## line protocol

  `win rw valid:<all|some:name,..> trust:<ctx|other> base:<hex> instr:<hex> gc:<0|1>:<hex> cfi:<0|1>
          regs:<name=hex,..|-> mem:<hexbase>:<hexbytes|-> (rec:…)*`      (records as in `win walk`)
    regs    cells of the callee's CONTEXT_X86 (others zero); `valid` is its validity set
    gc      `0:0` no grand-callee frame; `1:<p>` a grand callee whose `parameter_size` is `p`
    base    the module is `[base, base + 0x100000)`; `instr` is the callee frame's `instruction`
  answer: `=> notcalled` | `<0|1> => nocfi | rejected | frame in=<hex> valid:<name=hex,..>` | `PANIC`
  (the flag is what `walk_frame` returned; the frame is the one `walk_stack` pushes).
-/
open Proto

def moduleSize : Nat := 0x100000

/-- the fixed CFI record of the protocol -/
def cfiLine : Cfi.Bytes := ".cfa: 4096 .ra: 8192".toUTF8.data.toList

def handleRw (args : List String) : String :=
  match args with
  | vl :: tr :: b :: i :: g :: cf :: rg :: mm :: recs =>
    let parsed : Option (Args × Bool × List Win.Rec) := do
      let v ← (Cfi.stripKey "valid:" vl).bind Regs.parseValid
      let t ← Cfi.stripKey "trust:" tr
      let isCtx ← if t = "ctx" then some true else if t = "other" then some false else none
      let base ← (Cfi.stripKey "base:" b).bind parseHex64
      let instr ← (Cfi.stripKey "instr:" i).bind parseHex64
      let gs ← Cfi.stripKey "gc:" g
      let gr : Option (Option Nat) ← match gs.splitOn ":" with
        | [h, p] =>
          match parseHexNat p with
          | some x =>
            if x ≤ U32MAX ∧ h = "1" then some (some (some x))
            else if x = 0 ∧ h = "0" then some none
            else none
          | none => none
        | _ => none
      let cfs ← Cfi.stripKey "cfi:" cf
      let cfi ← if cfs = "1" then some true else if cfs = "0" then some false else none
      let regs ← (Cfi.stripKey "regs:" rg).bind Win.parseRegs
      let st ← (Cfi.stripKey "regs:" rg).bind (parseCtxCells .X86)
      let ms ← Cfi.stripKey "mem:" mm
      let sm : StackMem ← match ms.splitOn ":" with
        | [mb, bytes] =>
          match parseHex64 mb, unhex bytes with
          | some x, some bs => some { base := x, bytes := bs, bigEndian := false }
          | _, _ => none
        | _ => none
      let rs ← recs.mapM fun s => (Cfi.stripKey "rec:" s).bind Win.parseRec
      if !validityWf .X86 v then none
      else if !(regs.map (·.1)).Nodup ∨ !(regs.all fun r => r.1 ∈ Win.x86Regs) then none
      else if base + moduleSize > U64MAX then none
      else
        some ({ kind := .x86, ctx := st, valid := v, instruction := instr, isContext := isCtx, grand := gr,
                modules := [{ base := base, size := moduleSize, name := "m" }], stack := sm }, cfi, rs)
    match parsed with
    | none => "bad-op"
    | some (a, cfi, rs) =>
      let typed : List (Win.FrameType × Win.Rec × Nat) := rs.zipIdx.map fun (r, idx) => (Win.classifyRec r, r, idx)
      let fdRecs := typed.filterMap fun (t, r, idx) =>
        match t with | .frameData _ => some (r.addr, r.size, idx) | _ => none
      let fpoRecs := typed.filterMap fun (t, r, idx) =>
        match t with | .fpo _ => some (r.addr, r.size, idx) | _ => none
      let pick (tbl : List RangeMap.Entry) (addr : Nat) : Option Win.SInfo :=
        (Win.lookup tbl addr).bind fun idx =>
          match typed[idx]? with
          | some (.frameData si, _, _) => some si
          | some (.fpo si, _, _) => some si
          | _ => none
      match Win.buildTable fdRecs, Win.buildTable fpoRecs with
      | .ok t4, .ok t0 =>
        let tables : Tables :=
          { fd := pick t4, fpo := pick t0,
            cfi := fun addr => if cfi ∧ addr < U32MAX then some [Cfi.storedRules cfiLine] else none }
        let script : Script := walkFrameReal Win.clearNamesActual tables
        match Regs.stackPointer .X86 a.ctx with
        | .panic _ => "PANIC"
        | .ok sp =>
          if !a.stack.inRange sp then "=> notcalled" else
          let flag : Outcome String :=
            match fromCtxAndArgs a with
            | .ok (some w0) =>
              (match script w0 with
               | .ok r => .ok (showBool r.1)
               | .panic s => .panic s)
            | _ => .ok ""
          match getCallerByCfi a script, flag with
          | .panic _, _ => "PANIC"
          | _, .panic _ => "PANIC"
          | .ok .notCalled, _ => "=> notcalled"
          | .ok .noCfi, .ok head => head ++ " => nocfi"
          | .ok (.frame f), .ok head =>
            match frameTail a f with
            | .panic _ => "PANIC"
            | .ok none => head ++ " => rejected"
            | .ok (some f') => head ++ " => " ++ showFrame a.kind f'
      | _, _ => "PANIC"
  | _ => "bad-op"

/-- line-protocol entry point (engine `win`, sub-command `rw`) -/
def handle (_engine : String) (args : List String) : String :=
  match args with
  | "rw" :: rest => handleRw rest
  | _ => "bad-op"

end MdModel.WinWalker
