/-
  MdModel.DumpText — byte-level model of the key/value TEXT streams and their iterators
  (line numbers of the pinned sources in brackets).

    LinuxOsStr::{split_once, lines/split, trim_ascii_whitespace} [minidump/src/strings.rs 64,96,103]
                                               -> `splitOnce`, `scanLines`, `trimAsciiWhitespace`
    linux_list_iter + strip_quotes [minidump.rs 1268,1272] -> `stripQuotes`, `kvLine`, `linuxListIter`
    MinidumpLinuxCpuInfo / ProcStatus (`:`), LsbRelease / Environ (`=`) ::read + ::iter [3889-4052]
                                               -> `readKvStream`
    MinidumpLinuxProcLimits::read + ::iter (plain `lines()`) [3928,4028] -> `readLinesStream`

  The streams are kept as the raw bytes (`read` cannot fail); everything happens in the iterators.
  A value handed out by an iterator is a sub-slice of the stream: the model works with SPANS
  `(lo, hi)` — absolute offsets into the stream — and the engine compares them with the pointer
  offsets of the real `&LinuxOsStr`s. Rust operations that can panic (`&self[..idx]`,
  `&self[idx + 1..]`, `&input[first..=last]`, `idx + 1`) are checked primitives with a panic outcome;
  the line loop takes fuel and reports exhaustion as a panic outcome (`lines_terminate` shows
  `len + 1` always suffices: every iteration that does not end the loop consumes at least one byte).
  Note what the code does NOT do: `lines()` splits on `\n` only — a `\r` stays in the value (and is
  then trimmed as white space), a NUL is an ordinary byte (so `environ`, which is NUL-separated, is
  one "line" unless it contains `\n`).
-/
import MdModel.ReadM
namespace MdModel.Dump
open MdModel

/-- an index range `[lo, hi)` of the stream -/
abbrev Span := Nat × Nat

/-- `u8::is_ascii_whitespace`: space, TAB, LF, FF, CR (not VT) -/
def isAsciiWhitespaceU8 (c : UInt8) : Bool := c == 0x20 || c == 0x09 || c == 0x0A || c == 0x0C || c == 0x0D

/-- `iter().position(p)` over `b[i .. i+n]`: the first index whose byte satisfies `p` -/
def findFwd (b : Bytes) (p : UInt8 → Bool) : Nat → Nat → Option Nat
  | 0, _ => none
  | n + 1, i => if p (b.getD i 0) then some i else findFwd b p n (i + 1)

/-- the first index in `[lo, hi)` whose byte satisfies `p` -/
def position (b : Bytes) (p : UInt8 → Bool) (lo hi : Nat) : Option Nat := findFwd b p (hi - lo) lo

/-- `iter().enumerate().rev()` search over `b[lo .. lo+n]`: the last index whose byte satisfies `p` -/
def findBwd (b : Bytes) (p : UInt8 → Bool) (lo : Nat) : Nat → Option Nat
  | 0 => none
  | n + 1 => if p (b.getD (lo + n) 0) then some (lo + n) else findBwd b p lo n

def rposition (b : Bytes) (p : UInt8 → Bool) (lo hi : Nat) : Option Nat := findBwd b p lo (hi - lo)

/-- `&s[a..c]` on a slice of length `len`: panics unless `a ≤ c ≤ len` -/
def checkRange (site : String) (len a c : Nat) : M Unit :=
  if a ≤ c ∧ c ≤ len then pure () else M.panic site

/-- `&s[first..=last]` on a slice of length `len`: panics when `last == usize::MAX`, when
    `first > last + 1` or when `last + 1 > len`; yields the half-open range `(first, last + 1)` -/
def checkRangeInclusive (site : String) (len first last : Nat) : M (Nat × Nat) :=
  if last ≥ USIZE_MAX then M.panic site
  else if first ≤ last + 1 ∧ last + 1 ≤ len then pure (first, last + 1) else M.panic site

/-- `LinuxOsStr::trim_ascii_whitespace` [strings.rs 103] on the span `[lo, hi)`:
    first and last non-blank index, `&input[first..=last]`; an all-blank input gives `&input[0..0]`. -/
def trimAsciiWhitespace (b : Bytes) (lo hi : Nat) : M Span :=
  match position b (fun c => !isAsciiWhitespaceU8 c) lo hi, rposition b (fun c => !isAsciiWhitespaceU8 c) lo hi with
  | some f, some l =>
    checkRangeInclusive "trim_ascii_whitespace: &input[first..=last]" (hi - lo) (f - lo) (l - lo) >>= fun r =>
    pure (lo + r.1, lo + r.2)
  | _, _ => pure (lo, lo)

/-- `strip_quotes` [minidump.rs 1272]: trim, then `strip_prefix(b"\"").and_then(|i| i.strip_suffix(b"\""))`,
    falling back to the trimmed input (std's `strip_prefix`/`strip_suffix` return `None`, they do not index) -/
def stripQuotes (b : Bytes) (lo hi : Nat) : M Span :=
  trimAsciiWhitespace b lo hi >>= fun t =>
  if t.1 < t.2 ∧ b.getD t.1 0 = 0x22 then
    if t.1 + 1 < t.2 ∧ b.getD (t.2 - 1) 0 = 0x22 then pure (t.1 + 1, t.2 - 1) else pure t
  else pure t

/-- `LinuxOsStr::split_once(separator)` [strings.rs 64] on the span `[lo, hi)`:
    `position`, then `&self[..idx]` and `&self[idx + 1..]` -/
def splitOnce (b : Bytes) (sep : UInt8) (lo hi : Nat) : M (Option (Span × Span)) :=
  match position b (fun c => c == sep) lo hi with
  | none => pure none
  | some i =>
    let idx := i - lo
    checkRange "split_once: &self[..idx]" (hi - lo) 0 idx >>= fun _ =>
    usizeAdd "split_once: idx + 1" idx 1 >>= fun j =>
    checkRange "split_once: &self[idx + 1..]" (hi - lo) j (hi - lo) >>= fun _ =>
    pure (some ((lo, lo + idx), (lo + j, hi)))

/-- one element of `linux_list_iter`'s `filter_map` [1286]: a line without the separator is skipped -/
def kvLine (b : Bytes) (sep : UInt8) (lo hi : Nat) : M (Option (Span × Span)) :=
  splitOnce b sep lo hi >>= fun r =>
  match r with
  | none => pure none
  | some (label, val) =>
    stripQuotes b label.1 label.2 >>= fun k =>
    stripQuotes b val.1 val.2 >>= fun v =>
    pure (some (k, v))

/-- `filter_map`: keep a `Some` -/
def consOpt {α : Type} : Option α → List α → List α
  | some x, acc => x :: acc
  | none, acc => acc

/-- `lines()` = `split(|b| b == b'\n')` [strings.rs 96] driven to the end, `f` applied to every
    line `[start, end)` (`None` results dropped: `filter_map`). The std iterator's state is the rest
    of the slice (`start`) and a `finished` flag; a line that ends at a `\n` leaves `start = idx + 1`.
    `fuel` = iterations allowed; exhaustion is the "does not end" outcome. Tail recursive. The
    iterators allocate nothing (`kvLine_allocs`), so `f` is a plain outcome and the log stays empty. -/
def scanLines {α : Type} (b : Bytes) (f : Nat → Nat → Res (Option α)) : Nat → Nat → List α → M (List α)
  | 0, _, _ => M.panic "lines(): the iterator does not end (hang)"
  | fuel + 1, start, acc =>
    let nl := position b (fun c => c == 0x0A) start b.size
    let stop := nl.getD b.size
    match f start stop with
    | .panic s => M.panic s
    | .err e => M.fail e
    | .ok o =>
      match nl with
      | none => pure (consOpt o acc).reverse
      | some idx => scanLines b f fuel (idx + 1) (consOpt o acc)

/-- `linux_list_iter(bytes, separator)` [1268] collected -/
def linuxListIter (b : Bytes) (sep : UInt8) : M (List (Span × Span)) :=
  scanLines b (fun lo hi => (kvLine b sep lo hi).res) (b.size + 1) 0 []

/-- `LinuxOsStr::from_bytes(data).lines()` collected (`MinidumpLinuxProcLimits::iter`) -/
def linesIter (b : Bytes) : M (List Span) :=
  scanLines b (fun lo hi => .ok (some (lo, hi))) (b.size + 1) 0 []

/-- the separators of the four key/value streams -/
def SEP_COLON : UInt8 := 0x3A
def SEP_EQUALS : UInt8 := 0x3D

/-- `Minidump*::read` of a key/value text stream (keeps the bytes, cannot fail) followed by
    `iter()` driven to the end -/
def readKvStream (s : Bytes) (sep : UInt8) : M (List (Span × Span)) := linuxListIter s sep

/-- `MinidumpLinuxProcLimits::read` followed by `iter()` driven to the end -/
def readLinesStream (s : Bytes) : M (List Span) := linesIter s

end MdModel.Dump
