/-
  MdModel.OpAnalysis — the decision logic of `minidump-processor/src/op_analysis.rs`
  (`amd64::analyze_instruction`) over an ABSTRACT decoded instruction.

  What is abstract: the yaxpeax-x86 decoder. An instruction is what the analysis can see of a
  decoded `yaxpeax_x86::amd64::Instruction`:
    * its `Opcode`, as one of the names the code distinguishes (everything else is `other`),
    * `mem_size().map(|s| s.bytes_size())`  (`none` = no memory access, `some none` = unknown size),
    * the operands `operand(0) .. operand(operand_count()-1)`, each one variant of
      `yaxpeax_x86::amd64::Operand` (payloads the code never looks at — immediate values, mask
      registers, merge/SAE modes — are dropped).
  The register file is `MinidumpContext::get_register` by name (C18's subject), the two memory
  readers are `memory_list.memory_at_address(a).get_memory_at_address::<u64>(a)` and
  `stack_memory.get_memory_at_address::<u64>(a)`.

  What is exact: every branch of the analysis with the arithmetic the code has —
  `wrapping_mul`, `wrapping_add`, `wrapping_sub`, the `as i32 as i64` / `as i64` / `as u64`
  casts —, the order of evaluation (a `?` on an invalid register ends `from_instruction` before a
  later `panic!` arm can be reached), and every `panic!` / `assert_eq!` / `assert!` as an
  `Outcome.panic`:
    * the nine `panic!("… unexpected memory operand")` arms of `add_derivable_opcode_explicit_access`,
    * `assert_eq!(instruction.operand_count(), 1)` for CALL/CALLF/JMP/JMPF/JMPE,
    * yaxpeax's own `assert!(i < 4)` in `Instruction::operand`.
  Also modelled: the only consumer of the register set, `check_for_bitflips`'s loop over
  `instruction_registers` (processor.rs:772-788), restricted to dumps without memory-info streams
  (then a flip is reported exactly for a register whose value is a single bit inside the bit range).
  Core-only imports.
-/
import MdModel.ProcessCore
import MdModel.Gen.ProcessConsts
import MdModel.Gen.OpAnalysisTables
namespace MdModel.OpAnalysis
open MdModel MdModel.Process

/-! ## the abstract instruction -/

/-- `yaxpeax_x86::amd64::Opcode`, as far as op_analysis.rs tells opcodes apart (by name) -/
inductive Opc where
  -- `AccessDerivableOpcode` (op_analysis.rs:690-725)
  | ADD | CALL | CMP | DEC | INC | JMP | JMPF
  | JO | JNO | JB | JNB | JZ | JNZ | JA | JNA | JS | JNS | JP | JNP | JL | JGE | JG | JLE
  | LEA | MOV | MOVAPS | MOVUPS | POP | PUSH | RETF | RETURN | SUB | UCOMISS
  -- `InstructionPointerUpdate::from_instruction`
  | CALLF | JMPE | IRET | IRETD | IRETQ
  -- `is_division`
  | DIV | IDIV
  -- `is_privileged` (MOV and RETF are above)
  | CLI | CLTS | HLT | IN | INS | INT | INTO | INVD | INVEPT | INVLPG | INVVPID
  | LGDT | LIDT | LLDT | LMSW | LTR | MONITOR | MWAIT | OUT | OUTS | RDMSR | RDPMC | RDTSC | RDTSCP
  | STI | SWAPGS | SYSEXIT | SYSRET | VMCALL | VMCLEAR | VMLAUNCH | VMPTRLD | VMPTRST | VMREAD
  | VMRESUME | VMWRITE | VMXOFF | VMXON | WBINVD | WRMSR | XSETBV
  | other
  deriving Repr, DecidableEq

/-- `AccessDerivableOpcode` -/
inductive AD where
  | ADD | CALL | CMP | DEC | INC | JMP | JMPF | Jcc
  | LEA | MOV | MOVAPS | MOVUPS | POP | PUSH | RETF | RETURN | SUB | UCOMISS
  deriving Repr, DecidableEq

/-- `AccessDerivableOpcode::from_opcode` (the sixteen conditional jumps are treated alike everywhere) -/
def derivable : Opc → Option AD
  | .ADD => some .ADD | .CALL => some .CALL | .CMP => some .CMP | .DEC => some .DEC | .INC => some .INC
  | .JMP => some .JMP | .JMPF => some .JMPF
  | .JO | .JNO | .JB | .JNB | .JZ | .JNZ | .JA | .JNA | .JS | .JNS | .JP | .JNP | .JL | .JGE | .JG | .JLE => some .Jcc
  | .LEA => some .LEA | .MOV => some .MOV | .MOVAPS => some .MOVAPS | .MOVUPS => some .MOVUPS
  | .POP => some .POP | .PUSH => some .PUSH | .RETF => some .RETF | .RETURN => some .RETURN
  | .SUB => some .SUB | .UCOMISS => some .UCOMISS
  | _ => none

def isDivision : Opc → Bool
  | .DIV | .IDIV => true
  | _ => false

def isPrivileged : Opc → Bool
  | .CLI | .CLTS | .HLT | .IN | .INS | .INT | .INTO | .INVD | .INVEPT | .INVLPG | .INVVPID
  | .IRET | .IRETD | .IRETQ | .LGDT | .LIDT | .LLDT | .LMSW | .LTR | .MONITOR | .MOV | .MWAIT
  | .OUT | .OUTS | .RDMSR | .RDPMC | .RDTSC | .RDTSCP | .RETF | .STI | .SWAPGS | .SYSEXIT | .SYSRET
  | .VMCALL | .VMCLEAR | .VMLAUNCH | .VMPTRLD | .VMPTRST | .VMREAD | .VMRESUME | .VMWRITE | .VMXOFF
  | .VMXON | .WBINVD | .WRMSR | .XSETBV => true
  | _ => false

/-- `is_only_gpf_when_non_canonical` -/
def onlyGpf (o : Opc) : Bool :=
  match derivable o with
  | none => false
  | some ad => ad != .MOVAPS

/-- a register: `RegSpec::name()` -/
abbrev Reg := String

/-- `yaxpeax_x86::amd64::Operand` -/
inductive Operand where
  /-- `ImmediateI8 … ImmediateU64` -/
  | imm
  | reg (r : Reg)
  /-- `RegisterMaskMerge`, `RegisterMaskMergeSae`, `RegisterMaskMergeSaeNoround` -/
  | regMasked (r : Reg)
  | absU32 (addr : Nat)
  | absU64 (addr : Nat)
  | deref (base : Reg)
  | disp (base : Reg) (d : Int)
  | indexScale (index : Reg) (scale : Nat)
  | indexScaleDisp (index : Reg) (scale : Nat) (d : Int)
  | baseIndexScale (base index : Reg) (scale : Nat)
  | baseIndexScaleDisp (base index : Reg) (scale : Nat) (d : Int)
  | derefMasked (base : Reg)
  | dispMasked (base : Reg) (d : Int)
  | indexScaleMasked (index : Reg) (scale : Nat)
  | indexScaleDispMasked (index : Reg) (scale : Nat) (d : Int)
  | baseIndexScaleMasked (base index : Reg) (scale : Nat)
  | baseIndexScaleDispMasked (base index : Reg) (scale : Nat) (d : Int)
  | nothing
  deriving Repr, DecidableEq

/-- `Operand::is_memory` -/
def Operand.isMemory : Operand → Bool
  | .imm | .reg _ | .regMasked _ | .nothing => false
  | _ => true

structure Instr where
  opc : Opc
  /-- `mem_size().map(|s| s.bytes_size())` -/
  memSize : Option (Option Nat)
  /-- `operand(0) .. operand(operand_count() - 1)` -/
  operands : List Operand
  deriving Repr

/-- what the analysis reads of the crashing thread -/
structure Env where
  /-- `context.get_register(name)` -/
  rf : Reg → Option Nat
  /-- `memory_list.and_then(|ml| ml.memory_at_address(a)).and_then(|m| m.get_memory_at_address::<u64>(a))` -/
  readMem : Nat → Option Nat
  /-- `stack_memory` (if any) `.get_memory_at_address::<u64>(a)` -/
  readStack : Option (Nat → Option Nat)

/-! ## wrapping arithmetic and the casts -/

/-- `u64::wrapping_add` -/
def wadd (a b : Nat) : Nat := (a + b) % TWO64
/-- `u64::wrapping_mul` -/
def wmul (a b : Nat) : Nat := (a * b) % TWO64
/-- `x as u64` for an `i64` -/
def i64AsU64 (x : Int) : Nat := (x % (TWO64 : Int)).toNat
/-- `addr as i32 as i64` for a `u32` -/
def u32AsI32 (a : Nat) : Int := if a < 2147483648 then (a : Int) else (a : Int) - 4294967296
/-- `addr as i64` for a `u64` -/
def u64AsI64 (a : Nat) : Int := if a < 9223372036854775808 then (a : Int) else (a : Int) - (TWO64 : Int)

/-! ## `MemoryOperandInfo` and `MemoryAddressInfo::try_from_operand` -/

structure OpInfo where
  base : Option Reg := none
  index : Option Reg := none
  scale : Option Nat := none
  disp : Option Int := none
  deriving Repr, DecidableEq

/-- `MemoryOperandInfo::try_from_operand` -/
def opInfo : Operand → Option OpInfo
  | .absU32 a => some { disp := some (u32AsI32 a) }
  | .absU64 a => some { disp := some (u64AsI64 a) }
  | .deref b => some { base := some b }
  | .disp b d => some { base := some b, disp := some d }
  | .indexScale i s => some { index := some i, scale := some s }
  | .indexScaleDisp i s d => some { index := some i, scale := some s, disp := some d }
  | .baseIndexScale b i s => some { base := some b, index := some i, scale := some s }
  | .baseIndexScaleDisp b i s d => some { base := some b, index := some i, scale := some s, disp := some d }
  | _ => none

/-- a `Result<_, OpAnalysisError::RegisterInvalid>` -/
inductive Res (α : Type) where
  | ok (a : α)
  | regInvalid
  deriving Repr, DecidableEq

structure AddrInfo where
  address : Nat
  /-- `is_likely_null_pointer_dereference` -/
  null : Bool
  deriving Repr, DecidableEq

/-- the address computation of `MemoryAddressInfo::try_from_operand` for a `MemoryOperandInfo` -/
def addrOfInfo (rf : Reg → Option Nat) (i : OpInfo) : Res AddrInfo :=
  -- `if let Some(reg) = op_info.base_reg { let base = context.get_regspec(reg)?; … }`
  let afterBase : Res AddrInfo :=
    match i.base with
    | none => .ok { address := 0, null := false }
    | some r =>
      match rf r with
      | none => .regInvalid
      | some b => .ok { address := b, null := b == 0 }
  match afterBase with
  | .regInvalid => .regInvalid
  | .ok a0 =>
    -- `if let Some(reg) = op_info.index_reg { … wrapping_mul(scale.unwrap_or(1)) … wrapping_add … }`
    let afterIndex : Res AddrInfo :=
      match i.index with
      | none => .ok a0
      | some r =>
        match rf r with
        | none => .regInvalid
        | some ix => .ok { a0 with address := wadd a0.address (wmul ix (i.scale.getD 1)) }
    match afterIndex with
    | .regInvalid => .regInvalid
    | .ok a1 =>
      -- `let disp = op_info.disp.unwrap_or(0) as u64; address.wrapping_add(disp)`
      .ok { a1 with address := wadd a1.address (i64AsU64 (i.disp.getD 0)) }

/-- `MemoryAddressInfo::try_from_operand` -/
def addrOf (rf : Reg → Option Nat) (op : Operand) : Res (Option AddrInfo) :=
  match opInfo op with
  | none => .ok none
  | some i =>
    match addrOfInfo rf i with
    | .regInvalid => .regInvalid
    | .ok a => .ok (some a)

/-! ## `MemoryAccessList::from_instruction` -/

inductive AccessType where
  | read | write | readWrite | underivable
  deriving Repr, DecidableEq

structure MemAccess where
  info : AddrInfo
  size : Option Nat
  ty : AccessType
  deriving Repr, DecidableEq

/-- the `let access_type = match opcode { … match idx { … } }` table of
    `add_derivable_opcode_explicit_access` (op_analysis.rs:450-507) for a MEMORY operand at
    position `idx`: `.panic` = a `panic!` arm, `.ok none` = LEA's `return Ok(())` -/
def accessTypeOf (ad : AD) (idx : Nat) : Outcome (Option AccessType) :=
  match ad with
  | .ADD | .SUB =>
    match idx with
    | 0 => .ok (some .readWrite)
    | 1 => .ok (some .read)
    | _ => .panic "add/sub instruction had unexpected memory operand"
  | .CALL | .JMP | .JMPF | .PUSH =>
    match idx with
    | 0 => .ok (some .read)
    | _ => .panic "call/jmp/push instruction had unexpected memory operand"
  | .CMP | .UCOMISS =>
    match idx with
    | 0 | 1 => .ok (some .read)
    | _ => .panic "cmp instruction had unexpected memory operand"
  | .DEC | .INC =>
    match idx with
    | 0 => .ok (some .readWrite)
    | _ => .panic "dec/inc instruction had unexpected memory operand"
  | .POP =>
    match idx with
    | 0 => .ok (some .write)
    | _ => .panic "pop instruction had unexpected memory operand"
  | .MOV | .MOVAPS | .MOVUPS =>
    match idx with
    | 0 => .ok (some .write)
    | 1 => .ok (some .read)
    | _ => .panic "mov/movaps/movups instruction had unexpected memory operand"
  | .LEA =>
    match idx with
    | 0 | 1 => .ok none
    | _ => .panic "lea instruction had unexpected memory operand"
  | .RETURN | .RETF => .panic "ret/iret instruction had unexpected memory operand"
  | .Jcc => .panic "jcc instruction had unexpected memory operand"

/-- `add_derivable_opcode_explicit_access` for one operand: the accesses it pushes -/
def explicitDerivable (ad : AD) (rf : Reg → Option Nat) (ms : Option Nat) (idx : Nat) (op : Operand) :
    Outcome (Res (List MemAccess)) :=
  if !op.isMemory then .ok (.ok []) else
  match accessTypeOf ad idx with
  | .panic s => .panic s
  | .ok none => .ok (.ok [])
  | .ok (some ty) =>
    match addrOf rf op with
    | .regInvalid => .ok .regInvalid
    | .ok none => .ok (.ok [])
    | .ok (some a) => .ok (.ok [{ info := a, size := ms, ty := ty }])

/-- `add_underivable_opcode_explicit_access` for one operand -/
def explicitUnderivable (rf : Reg → Option Nat) (ms : Option Nat) (op : Operand) : Outcome (Res (List MemAccess)) :=
  if !op.isMemory then .ok (.ok []) else
  match addrOf rf op with
  | .regInvalid => .ok .regInvalid
  | .ok none => .ok (.ok [])
  | .ok (some a) => .ok (.ok [{ info := a, size := ms, ty := .underivable }])

/-- `for idx in 0..instruction.operand_count() { f(instruction.operand(idx), idx)? }`:
    `Instruction::operand` asserts `i < 4`; a `?` ends the loop -/
def operandLoop (f : Nat → Operand → Outcome (Res (List MemAccess))) :
    Nat → List Operand → Outcome (Res (List MemAccess))
  | _, [] => .ok (.ok [])
  | idx, op :: rest =>
    if idx ≥ 4 then .panic "Instruction::operand: assertion failed: i < 4" else
    match f idx op with
    | .panic s => .panic s
    | .ok .regInvalid => .ok .regInvalid
    | .ok (.ok l) =>
      match operandLoop f (idx + 1) rest with
      | .panic s => .panic s
      | .ok .regInvalid => .ok .regInvalid
      | .ok (.ok l') => .ok (.ok (l ++ l'))

/-- `add_derivable_opcode_implicit_access`: the stack slot of CALL/PUSH (`rsp.wrapping_sub(8)`,
    write) and of POP/RETF/RETURN (`rsp`, read), when `rsp` is valid -/
def implicitAccesses (ad : AD) (rf : Reg → Option Nat) (ms : Option Nat) : List MemAccess :=
  match ad with
  | .CALL | .PUSH =>
    match rf "rsp" with
    | some rsp =>
      let a := wrappingSub64 rsp Consts.push_adjust
      [{ info := { address := a, null := a == 0 }, size := ms, ty := .write }]
    | none => []
  | .POP | .RETF | .RETURN =>
    match rf "rsp" with
    | some rsp => [{ info := { address := rsp, null := rsp == 0 }, size := ms, ty := .read }]
    | none => []
  | _ => []

/-- `MemoryAccessList::from_instruction`; `.ok .regInvalid` is the `Err` that `analyze_instruction`
    turns into `memory_access_list: None` -/
def memAccesses (i : Instr) (rf : Reg → Option Nat) : Outcome (Res (List MemAccess)) :=
  match i.memSize with
  | none => .ok (.ok [])     -- "Shortcut -- If the instruction doesn't access memory, just return"
  | some ms =>
    match derivable i.opc with
    | some ad =>
      match operandLoop (explicitDerivable ad rf ms) 0 i.operands with
      | .panic s => .panic s
      | .ok .regInvalid => .ok .regInvalid
      | .ok (.ok l) => .ok (.ok (l ++ implicitAccesses ad rf ms))
    | none => operandLoop (fun _ op => explicitUnderivable rf ms op) 0 i.operands

/-! ## `InstructionPointerUpdate::from_instruction` -/

inductive IpUpdate where
  | update (a : AddrInfo)
  | noUpdate
  deriving Repr, DecidableEq

inductive IpClass where
  | callLike   -- CALL | CALLF | JMP | JMPF | JMPE
  | retLike    -- RETURN | RETF | IRET | IRETD | IRETQ
  | jcc
  | other
  deriving Repr, DecidableEq

def ipClass : Opc → IpClass
  | .CALL | .CALLF | .JMP | .JMPF | .JMPE => .callLike
  | .RETURN | .RETF | .IRET | .IRETD | .IRETQ => .retLike
  | .JO | .JNO | .JB | .JNB | .JZ | .JNZ | .JA | .JNA | .JS | .JNS | .JP | .JNP | .JL | .JGE | .JG | .JLE => .jcc
  | _ => .other

/-- `rip_update(address)` -/
def ripUpdate (a : Nat) : IpUpdate := .update { address := a, null := a == 0 }

/-- the target of a CALL/JMP-like instruction from its single operand: a register's value, or — for
    "some sort of register dereference" — the `u64` the memory list holds at the operand's address.
    `none`: could not be determined (an invalid register, an immediate, unreadable memory) -/
def ipTarget (env : Env) (op : Operand) : Option IpUpdate :=
  match op with
  | .reg r =>
    match env.rf r with
    | none => none                      -- `context.get_regspec(reg)?`
    | some v => some (ripUpdate v)
  | other =>
    match addrOf env.rf other with
    | .regInvalid => none               -- `try_from_operand(other_operand, context)?`
    | .ok none => none
    | .ok (some a) =>
      match env.readMem a.address with
      | some v => some (ripUpdate v)
      | none => none

/-- `InstructionPointerUpdate::from_instruction(..)`, after `.ok().flatten()`: `none` is
    "could not be determined" (an `Err` too) -/
def ipUpdate (i : Instr) (env : Env) : Outcome (Option IpUpdate) :=
  match ipClass i.opc with
  | .callLike =>
    -- `assert_eq!(instruction.operand_count(), 1, …)`, then `instruction.operand(0)`
    match i.operands with
    | [op] => .ok (ipTarget env op)
    | _ => .panic "call/jmp instruction had incorrect operand count"
  | .retLike =>
    match env.rf "rsp", env.readStack with
    | some rsp, some rd =>
      match rd rsp with
      | some v => .ok (some (ripUpdate v))
      | none => .ok none
    | _, _ => .ok none
  | .jcc => .ok none
  | .other => .ok (some .noUpdate)

/-! ## `get_registers` -/

/-- insert into a sorted duplicate-free list (`BTreeSet<&'static str>::insert`) -/
def insertReg (r : Reg) : List Reg → List Reg
  | [] => [r]
  | x :: xs => if r < x then r :: x :: xs else if r = x then x :: xs else x :: insertReg r xs

def regsOfInfo (i : OpInfo) (acc : List Reg) : List Reg :=
  let acc := match i.base with
    | some r => insertReg r acc
    | none => acc
  match i.index with
  | some r => insertReg r acc
  | none => acc

/-- `get_registers`: `for op in 0..i.operand_count() { … i.operand(op) … }` -/
def getRegisters : Nat → List Operand → List Reg → Outcome (List Reg)
  | _, [], acc => .ok acc
  | idx, op :: rest, acc =>
    if idx ≥ 4 then .panic "Instruction::operand: assertion failed: i < 4" else
    match opInfo op with
    | some i => getRegisters (idx + 1) rest (regsOfInfo i acc)
    | none => getRegisters (idx + 1) rest acc

/-! ## `analyze_instruction` -/

structure Props where
  accessDerivable : Bool
  division : Bool
  privileged : Bool
  onlyGpfWhenNonCanonical : Bool
  deriving Repr, DecidableEq

structure Analysis where
  props : Props
  /-- `memory_access_list` (`none`: could not be determined) -/
  accesses : Option (List MemAccess)
  ipUpdate : Option IpUpdate
  registers : List Reg
  deriving Repr, DecidableEq

def propsOf (o : Opc) : Props :=
  { accessDerivable := (derivable o).isSome, division := isDivision o, privileged := isPrivileged o,
    onlyGpfWhenNonCanonical := onlyGpf o }

/-- `amd64::analyze_instruction` after decoding (the instruction text is yaxpeax's `Display`) -/
def analyze (i : Instr) (env : Env) : Outcome Analysis :=
  match memAccesses i env.rf with
  | .panic s => .panic s
  | .ok acc =>
    match ipUpdate i env with
    | .panic s => .panic s
    | .ok ip =>
      match getRegisters 0 i.operands [] with
      | .panic s => .panic s
      | .ok regs =>
        .ok { props := propsOf i.opc,
              accesses := match acc with
                | .ok l => some l
                | .regInvalid => none,
              ipUpdate := ip, registers := regs }

/-! ## the shape of what the decoder produces -/

/-- the positions at which a MEMORY operand does not reach a `panic!` arm -/
def memIdxAllowed (ad : AD) (idx : Nat) : Bool :=
  match ad with
  | .ADD | .SUB | .CMP | .UCOMISS | .MOV | .MOVAPS | .MOVUPS | .LEA => idx ≤ 1
  | .CALL | .JMP | .JMPF | .PUSH | .DEC | .INC | .POP => idx == 0
  | .RETURN | .RETF | .Jcc => false

def memOperandsAllowed (ad : AD) : Nat → List Operand → Bool
  | _, [] => true
  | idx, op :: rest => (!op.isMemory || memIdxAllowed ad idx) && memOperandsAllowed ad (idx + 1) rest

/-- **the shape condition**: at most four operands; exactly one for CALL/CALLF/JMP/JMPF/JMPE; and,
    for an access-derivable opcode of an instruction that accesses memory, memory operands only
    at the positions the `match idx` arms name. (Everything yaxpeax-x86 2.0 decodes satisfies it —
    that part is sampled exhaustively over the opcode maps by the engine, not proved.) -/
def Shape (i : Instr) : Bool :=
  decide (i.operands.length ≤ 4) &&
  (ipClass i.opc != .callLike || decide (i.operands.length = 1)) &&
  (match i.memSize, derivable i.opc with
   | some _, some ad => memOperandsAllowed ad 0 i.operands
   | _, _ => true)

/-! ## the consumer of the register set: `check_for_bitflips` (processor.rs:725-791)

Restricted to a dump WITHOUT memory-info streams (then `memory_info_at_address` is `None`
everywhere and `try_bit_flips` reports exactly the flips to address 0) and to an exception that is
not a general-protection fault (no `NonCanonical` adjustment; the bit range is `0..48`). -/

/-- the addresses `get_exception_details` hands to `try_detect_null_pointer_in_disguise` -/
def nullInDisguise (a : Analysis) : Bool :=
  match a.accesses with
  | none => false
  | some l =>
    l.any (fun m => m.info.null) ||
    (match a.ipUpdate with
     | some (.update u) => u.null
     | _ => false)

/-- is `v = 1 << k` for some `k < 48` -/
def singleBitBelow48 (v : Nat) : Bool := (List.range 48).any fun k => v == 2 ^ k

/-- the `source_register`s of the `possible_bit_flips` of such a dump -/
def flipRegisters (a : Analysis) (rf : Reg → Option Nat) : List Reg :=
  if nullInDisguise a then [] else
  a.registers.filter fun r =>
    match rf r with
    | some v => singleBitBelow48 v
    | none => false

/-! ## line protocol

  opana ins opc:<NAME> ms:<-|?|n> ops:<-|op;op;…> rf:<-|name=value,…> mem:<-|base:hex;…> stk:<-|base:hex>
  operand syntax: imm | reg:<r> | regm:<r> | abs32:<n> | abs64:<n> | deref:<b> | disp:<b>:<d> |
    is:<i>:<s> | isd:<i>:<s>:<d> | bis:<b>:<i>:<s> | bisd:<b>:<i>:<s>:<d> | the same with an `m` prefix
    (mderef … mbisd) for the masked variants | nothing
  answer: PANIC shape:<0|1> | shape:<0|1> props:<dvpg bits> acc:<-|?|addr/null/size/type,…> ip:<?|none|upd/addr/null> flips:<-|…>
  (`flips` = the registers of the analysis' register set for which `check_for_bitflips` reports a flip: the
  only observable effect of the set)
-/

open Proto

def opcOfName (s : String) : Opc :=
  match s with
  | "ADD" => .ADD | "CALL" => .CALL | "CMP" => .CMP | "DEC" => .DEC | "INC" => .INC | "JMP" => .JMP | "JMPF" => .JMPF
  | "JO" => .JO | "JNO" => .JNO | "JB" => .JB | "JNB" => .JNB | "JZ" => .JZ | "JNZ" => .JNZ | "JA" => .JA | "JNA" => .JNA
  | "JS" => .JS | "JNS" => .JNS | "JP" => .JP | "JNP" => .JNP | "JL" => .JL | "JGE" => .JGE | "JG" => .JG | "JLE" => .JLE
  | "LEA" => .LEA | "MOV" => .MOV | "MOVAPS" => .MOVAPS | "MOVUPS" => .MOVUPS | "POP" => .POP | "PUSH" => .PUSH
  | "RETF" => .RETF | "RETURN" => .RETURN | "SUB" => .SUB | "UCOMISS" => .UCOMISS
  | "CALLF" => .CALLF | "JMPE" => .JMPE | "IRET" => .IRET | "IRETD" => .IRETD | "IRETQ" => .IRETQ
  | "DIV" => .DIV | "IDIV" => .IDIV
  | "CLI" => .CLI | "CLTS" => .CLTS | "HLT" => .HLT | "IN" => .IN | "INS" => .INS | "INT" => .INT | "INTO" => .INTO
  | "INVD" => .INVD | "INVEPT" => .INVEPT | "INVLPG" => .INVLPG | "INVVPID" => .INVVPID
  | "LGDT" => .LGDT | "LIDT" => .LIDT | "LLDT" => .LLDT | "LMSW" => .LMSW | "LTR" => .LTR | "MONITOR" => .MONITOR
  | "MWAIT" => .MWAIT | "OUT" => .OUT | "OUTS" => .OUTS | "RDMSR" => .RDMSR | "RDPMC" => .RDPMC | "RDTSC" => .RDTSC
  | "RDTSCP" => .RDTSCP | "STI" => .STI | "SWAPGS" => .SWAPGS | "SYSEXIT" => .SYSEXIT | "SYSRET" => .SYSRET
  | "VMCALL" => .VMCALL | "VMCLEAR" => .VMCLEAR | "VMLAUNCH" => .VMLAUNCH | "VMPTRLD" => .VMPTRLD
  | "VMPTRST" => .VMPTRST | "VMREAD" => .VMREAD | "VMRESUME" => .VMRESUME | "VMWRITE" => .VMWRITE
  | "VMXOFF" => .VMXOFF | "VMXON" => .VMXON | "WBINVD" => .WBINVD | "WRMSR" => .WRMSR | "XSETBV" => .XSETBV
  | _ => .other

/-- the yaxpeax name of an opcode the model distinguishes (`Debug` of `Opcode`) -/
def Opc.name : Opc → String
  | .ADD => "ADD" | .CALL => "CALL" | .CMP => "CMP" | .DEC => "DEC" | .INC => "INC" | .JMP => "JMP"
  | .JMPF => "JMPF" | .JO => "JO" | .JNO => "JNO" | .JB => "JB" | .JNB => "JNB" | .JZ => "JZ"
  | .JNZ => "JNZ" | .JA => "JA" | .JNA => "JNA" | .JS => "JS" | .JNS => "JNS" | .JP => "JP"
  | .JNP => "JNP" | .JL => "JL" | .JGE => "JGE" | .JG => "JG" | .JLE => "JLE" | .LEA => "LEA"
  | .MOV => "MOV" | .MOVAPS => "MOVAPS" | .MOVUPS => "MOVUPS" | .POP => "POP" | .PUSH => "PUSH" | .RETF => "RETF"
  | .RETURN => "RETURN" | .SUB => "SUB" | .UCOMISS => "UCOMISS" | .CALLF => "CALLF" | .JMPE => "JMPE" | .IRET => "IRET"
  | .IRETD => "IRETD" | .IRETQ => "IRETQ" | .DIV => "DIV" | .IDIV => "IDIV" | .CLI => "CLI" | .CLTS => "CLTS"
  | .HLT => "HLT" | .IN => "IN" | .INS => "INS" | .INT => "INT" | .INTO => "INTO" | .INVD => "INVD"
  | .INVEPT => "INVEPT" | .INVLPG => "INVLPG" | .INVVPID => "INVVPID" | .LGDT => "LGDT" | .LIDT => "LIDT" | .LLDT => "LLDT"
  | .LMSW => "LMSW" | .LTR => "LTR" | .MONITOR => "MONITOR" | .MWAIT => "MWAIT" | .OUT => "OUT" | .OUTS => "OUTS"
  | .RDMSR => "RDMSR" | .RDPMC => "RDPMC" | .RDTSC => "RDTSC" | .RDTSCP => "RDTSCP" | .STI => "STI" | .SWAPGS => "SWAPGS"
  | .SYSEXIT => "SYSEXIT" | .SYSRET => "SYSRET" | .VMCALL => "VMCALL" | .VMCLEAR => "VMCLEAR" | .VMLAUNCH => "VMLAUNCH" | .VMPTRLD => "VMPTRLD"
  | .VMPTRST => "VMPTRST" | .VMREAD => "VMREAD" | .VMRESUME => "VMRESUME" | .VMWRITE => "VMWRITE" | .VMXOFF => "VMXOFF" | .VMXON => "VMXON"
  | .WBINVD => "WBINVD" | .WRMSR => "WRMSR" | .XSETBV => "XSETBV"
  | .other => "(other)"

def parseInt (s : String) : Option Int :=
  if s.startsWith "-" then (optNat (s.drop 1).toString).map fun n => -(n : Int) else (optNat s).map fun n => (n : Int)

def validReg (s : String) : Bool := !s.isEmpty && s.all fun c => c.isAlphanum || c == '(' || c == ')'

def parseOperand (s : String) : Option Operand :=
  let i32ok (d : Int) : Bool := decide (-2147483648 ≤ d ∧ d ≤ 2147483647)
  let scaleOk (n : Nat) : Bool := decide (n ≤ 255)
  match s.splitOn ":" with
  | ["imm"] => some .imm
  | ["nothing"] => some .nothing
  | ["reg", r] => if validReg r then some (.reg r) else none
  | ["regm", r] => if validReg r then some (.regMasked r) else none
  | ["abs32", a] => (optNat a).bind fun a => if a ≤ U32MAX then some (.absU32 a) else none
  | ["abs64", a] => (optNat a).bind fun a => if a ≤ U64MAX then some (.absU64 a) else none
  | [k, b] =>
    if !validReg b then none else
    if k == "deref" then some (.deref b) else if k == "mderef" then some (.derefMasked b) else none
  | [k, x, y] =>
    if !validReg x then none else
    if k == "disp" || k == "mdisp" then
      (parseInt y).bind fun d => if i32ok d then some (if k == "disp" then .disp x d else .dispMasked x d) else none
    else if k == "is" || k == "mis" then
      (optNat y).bind fun sc => if scaleOk sc then some (if k == "is" then .indexScale x sc else .indexScaleMasked x sc) else none
    else none
  | [k, x, y, z] =>
    if !validReg x then none else
    if k == "isd" || k == "misd" then
      match optNat y, parseInt z with
      | some sc, some d => if scaleOk sc && i32ok d then some (if k == "isd" then .indexScaleDisp x sc d else .indexScaleDispMasked x sc d) else none
      | _, _ => none
    else if k == "bis" || k == "mbis" then
      if !validReg y then none else
      (optNat z).bind fun sc => if scaleOk sc then some (if k == "bis" then .baseIndexScale x y sc else .baseIndexScaleMasked x y sc) else none
    else none
  | [k, b, ix, y, z] =>
    if !(validReg b && validReg ix) then none else
    if k == "bisd" || k == "mbisd" then
      match optNat y, parseInt z with
      | some sc, some d => if scaleOk sc && i32ok d then some (if k == "bisd" then .baseIndexScaleDisp b ix sc d else .baseIndexScaleDispMasked b ix sc d) else none
      | _, _ => none
    else none
  | _ => none

def parseListSep {α : Type} (sep : String) (f : String → Option α) (s : String) : Option (List α) :=
  if s == "-" then some [] else (s.splitOn sep).mapM f

def parseMemSize (s : String) : Option (Option (Option Nat)) :=
  if s == "-" then some none else if s == "?" then some (some none) else
  (optNat s).bind fun n => if n ≤ 255 then some (some (some n)) else none

def parseRegVal (s : String) : Option (Reg × Nat) :=
  match s.splitOn "=" with
  | [r, v] => (optNat v).bind fun v => if validReg r && v ≤ U64MAX then some (r, v) else none
  | _ => none

/-- a memory region `(base, bytes)` -/
def parseRegion (s : String) : Option (Nat × List UInt8) :=
  match s.splitOn ":" with
  | [b, h] => do
    let b ← optNat b
    let bytes ← unhex h
    if b ≤ U64MAX then pure (b, bytes) else none
  | _ => none

/-- `MinidumpMemoryBase::get_memory_at_address::<u64>` of a little-endian dump:
    `addr.checked_sub(base)?`, then 8 bytes at that offset -/
def readU64At (base : Nat) (bytes : List UInt8) (addr : Nat) : Option Nat :=
  if addr < base then none else
  let off := addr - base
  let w := (bytes.drop off).take 8
  if w.length = 8 then some (w.foldr (fun b acc => acc * 256 + b.toNat) 0) else none

/-- `memory_at_address` over regions that do not overlap: the region whose range contains `addr` -/
def regionAt (regions : List (Nat × List UInt8)) (addr : Nat) : Option (Nat × List UInt8) :=
  regions.find? fun r => decide (r.1 ≤ addr ∧ addr < r.1 + r.2.length)

def kvField (key : String) (s : String) : Option String :=
  if s.startsWith (key ++ ":") then some (s.drop (key.length + 1)).toString else none

def tyStr : AccessType → String
  | .read => "Read" | .write => "Write" | .readWrite => "ReadWrite" | .underivable => "Underivable"

def b01 (b : Bool) : String := if b then "1" else "0"

def accStr (m : MemAccess) : String :=
  let sz := match m.size with
    | some n => toString n
    | none => "?"
  s!"{m.info.address}/{b01 m.info.null}/{sz}/{tyStr m.ty}"

def listStr (l : List String) : String := if l.isEmpty then "-" else joinWith "," l

def showAnalysis (i : Instr) (rf : Reg → Option Nat) (r : Outcome Analysis) : String :=
  match r with
  | .panic _ => s!"PANIC shape:{b01 (Shape i)}"
  | .ok a =>
    let acc := match a.accesses with
      | none => "?"
      | some l => listStr (l.map accStr)
    let ip := match a.ipUpdate with
      | none => "?"
      | some .noUpdate => "none"
      | some (.update u) => s!"upd/{u.address}/{b01 u.null}"
    s!"shape:{b01 (Shape i)} props:{b01 a.props.accessDerivable}{b01 a.props.division}{b01 a.props.privileged}{b01 a.props.onlyGpfWhenNonCanonical} acc:{acc} ip:{ip} flips:{listStr (flipRegisters a rf)}"

def parseIns (args : List String) : Option (Instr × Env) :=
  match args with
  | [opc, ms, ops, rf, mem, stk] => do
    let opc ← kvField "opc" opc
    let ms ← (kvField "ms" ms).bind parseMemSize
    let ops ← (kvField "ops" ops).bind (parseListSep ";" parseOperand)
    let rfl ← (kvField "rf" rf).bind (parseListSep "," parseRegVal)
    let regions ← (kvField "mem" mem).bind (parseListSep ";" parseRegion)
    let stack ← (kvField "stk" stk).bind fun s => if s == "-" then some none else (parseRegion s).map some
    let rfun : Reg → Option Nat := fun r => (rfl.find? fun e => e.1 == r).map (·.2)
    let env : Env := {
      rf := rfun,
      readMem := fun a => (regionAt regions a).bind fun r => readU64At r.1 r.2 a,
      readStack := stack.map fun r => fun a => readU64At r.1 r.2 a }
    pure ({ opc := opcOfName opc, memSize := ms, operands := ops }, env)
  | _ => none

def answerIns (args : List String) : String :=
  match parseIns args with
  | none => "bad-op"
  | some (i, env) => showAnalysis i env.rf (analyze i env)

/-- split a list of fields at the separator `//` -/
def splitReqs : List String → List String → List (List String)
  | [], acc => [acc.reverse]
  | x :: rest, acc => if x == "//" then acc.reverse :: splitReqs rest [] else splitReqs rest (x :: acc)

def answerShape (args : List String) : String :=
  match args with
  | [opc, ms, ops] =>
    match kvField "opc" opc, (kvField "ms" ms).bind parseMemSize, (kvField "ops" ops).bind (parseListSep ";" parseOperand) with
    | some o, some m, some l => s!"shape:{b01 (Shape { opc := opcOfName o, memSize := m, operands := l })}"
    | _, _, _ => "bad-op"
  | _ => "bad-op"

/-- `opana ins …` one instruction (full analysis); `opana sh opc:… ms:… ops:…` only the shape verdict;
    `opana batch <item> // <item> …` several items of either kind -/
def handle (args : List String) : String :=
  match args with
  | "ins" :: rest => answerIns rest
  | "sh" :: rest => answerShape rest
  | "batch" :: rest =>
    joinWith " // " ((splitReqs rest []).map fun r => match r with
      | "ins" :: a => answerIns a
      | "sh" :: a => answerShape a
      | _ => "bad-op")
  | _ => "bad-op"

end MdModel.OpAnalysis
