/-
  MdModel.ArgRecovery — `minidump-processor/src/arg_recovery.rs` (x86 cdecl / thiscall argument
  recovery, run by `process_minidump_with_options` when `recover_function_args` is set), modelled
  completely at BYTE level:

    * `parseArgList`  = `parse_x86_arg_list(func_name: &str)`: `split_once('(')`, `rsplit_once(')')`,
      `contains("::")`, the loop over `arg_list.bytes().enumerate()` with the two `i32` nesting
      depths, the `&str` slices `arg_list[arg_start..idx]` / `arg_list[arg_start..]` (Rust panics
      when an index is not on a UTF-8 character boundary or the range is not ordered: `sliceStr`)
      and `str::trim` (Unicode `White_Space`, on the UTF-8 encoding);
    * `frameArgs` / `fillArguments` = the closure of `fill_arguments` for one frame / all frames:
      `stack_base = base.saturating_add(size)`, the caller's stack and frame pointers taken from the
      frames `idx + 1` and `idx + 2`, the read head `read_head += POINTER_WIDTH` (unchecked `+` on
      `u64`: an `Outcome.panic` on overflow), `get_memory_at_address::<u32>` (little-endian dump).

  The function name is a Rust `String`, i.e. valid UTF-8; `validUtf8` is the structural part of
  that (lead byte + the right number of continuation bytes), which is all the slicing needs.
  Every loop is structural recursion over the name's bytes / the argument list / the frame list:
  termination is by construction.
  Core-only imports.
-/
import MdModel.ProcessCore
import MdModel.Gen.ProcessConsts
namespace MdModel.ArgRecovery
open MdModel MdModel.Process

abbrev Bytes := List UInt8

/-- the largest `i32` -/
def I32MAX : Nat := 2147483647

/-! ## UTF-8 -/

/-- a continuation byte `10xxxxxx` -/
def isCont (b : UInt8) : Bool := decide (128 ≤ b.toNat ∧ b.toNat < 192)

/-- structural UTF-8: every lead byte is followed by the number of continuation bytes it
    announces (a superset of real UTF-8, which also excludes overlong forms and surrogates) -/
def validUtf8 : Bytes → Bool
  | [] => true
  | b :: rest =>
    if b.toNat < 128 then validUtf8 rest
    else if 194 ≤ b.toNat ∧ b.toNat < 224 then
      match rest with
      | c1 :: r => isCont c1 && validUtf8 r
      | _ => false
    else if 224 ≤ b.toNat ∧ b.toNat < 240 then
      match rest with
      | c1 :: c2 :: r => isCont c1 && isCont c2 && validUtf8 r
      | _ => false
    else if 240 ≤ b.toNat ∧ b.toNat < 245 then
      match rest with
      | c1 :: c2 :: c3 :: r => isCont c1 && isCont c2 && isCont c3 && validUtf8 r
      | _ => false
    else false

/-- `str::is_char_boundary(i)` -/
def isCharBoundary (s : Bytes) (i : Nat) : Bool :=
  i == 0 || i == s.length ||
  (match s[i]? with
   | some b => !isCont b
   | none => false)

/-- `&s[a..b]` on a `str`: panics unless `a ≤ b ≤ len` and both are character boundaries -/
def sliceStr (site : String) (s : Bytes) (a b : Nat) : Outcome Bytes :=
  if a ≤ b ∧ b ≤ s.length ∧ isCharBoundary s a = true ∧ isCharBoundary s b = true then .ok ((s.drop a).take (b - a))
  else .panic site

/-- number of bytes of the `White_Space` character the bytes start with (0: none) -/
def wsPrefixLen : Bytes → Nat
  | b :: rest =>
    if (9 ≤ b.toNat ∧ b.toNat ≤ 13) ∨ b.toNat = 32 then 1
    else
      match b.toNat, rest with
      | 0xC2, c :: _ => if c.toNat = 0x85 ∨ c.toNat = 0xA0 then 2 else 0
      | 0xE1, c :: d :: _ => if c.toNat = 0x9A ∧ d.toNat = 0x80 then 3 else 0
      | 0xE2, c :: d :: _ =>
        if c.toNat = 0x80 ∧ ((0x80 ≤ d.toNat ∧ d.toNat ≤ 0x8A) ∨ d.toNat = 0xA8 ∨ d.toNat = 0xA9 ∨ d.toNat = 0xAF) then 3
        else if c.toNat = 0x81 ∧ d.toNat = 0x9F then 3 else 0
      | 0xE3, c :: d :: _ => if c.toNat = 0x80 ∧ d.toNat = 0x80 then 3 else 0
      | _, _ => 0
  | [] => 0

/-- the same for the END of the bytes, given reversed -/
def wsSuffixLenRev : Bytes → Nat
  | b :: rest =>
    if (9 ≤ b.toNat ∧ b.toNat ≤ 13) ∨ b.toNat = 32 then 1
    else
      match rest with
      | c :: rest2 =>
        if c.toNat = 0xC2 ∧ (b.toNat = 0x85 ∨ b.toNat = 0xA0) then 2
        else
          match rest2 with
          | d :: _ =>
            -- the character is `d c b`
            if d.toNat = 0xE1 ∧ c.toNat = 0x9A ∧ b.toNat = 0x80 then 3
            else if d.toNat = 0xE2 ∧ c.toNat = 0x80 ∧ ((0x80 ≤ b.toNat ∧ b.toNat ≤ 0x8A) ∨ b.toNat = 0xA8 ∨ b.toNat = 0xA9 ∨ b.toNat = 0xAF) then 3
            else if d.toNat = 0xE2 ∧ c.toNat = 0x81 ∧ b.toNat = 0x9F then 3
            else if d.toNat = 0xE3 ∧ c.toNat = 0x80 ∧ b.toNat = 0x80 then 3
            else 0
          | [] => 0
      | [] => 0
  | [] => 0

/-- `str::trim_start`, with fuel = the length -/
def trimStartFuel : Nat → Bytes → Bytes
  | 0, s => s
  | n + 1, s =>
    match wsPrefixLen s with
    | 0 => s
    | k => trimStartFuel n (s.drop k)

def trimEndRevFuel : Nat → Bytes → Bytes
  | 0, s => s
  | n + 1, s =>
    match wsSuffixLenRev s with
    | 0 => s
    | k => trimEndRevFuel n (s.drop k)

/-- `str::trim` -/
def trim (s : Bytes) : Bytes :=
  let t := trimStartFuel s.length s
  (trimEndRevFuel t.length t.reverse).reverse

/-! ## `parse_x86_arg_list` -/

/-- `str::split_once(c)` for an ASCII `c`: around its first occurrence -/
def splitOnce (c : UInt8) : Bytes → Option (Bytes × Bytes)
  | [] => none
  | b :: rest =>
    if b = c then some ([], rest)
    else
      match splitOnce c rest with
      | some (p, q) => some (b :: p, q)
      | none => none

/-- `str::rsplit_once(c)`: around its last occurrence -/
def rsplitOnce (c : UInt8) (s : Bytes) : Option (Bytes × Bytes) :=
  match splitOnce c s.reverse with
  | none => none
  | some (p, q) => some (q.reverse, p.reverse)

/-- `str::contains("::")` -/
def containsColons : Bytes → Bool
  | a :: b :: rest => (a.toNat == 58 && b.toNat == 58) || containsColons (b :: rest)
  | _ => false

inductive CC where
  | cdecl | windowsThisCall | otherThisCall
  deriving Repr, DecidableEq

structure PState where
  argStart : Nat
  templateDepth : Nat
  parenDepth : Nat
  /-- pushed arguments, newest first -/
  args : List Bytes
  deriving Repr

/-- the `for (idx, c) in arg_list.bytes().enumerate()` loop; `.ok none` = "Parser is lost" -/
def parseLoop (argList : Bytes) : Bytes → Nat → PState → Outcome (Option PState)
  | [], _, st => .ok (some st)
  | c :: rest, idx, st =>
    if c.toNat = 60 then        -- '<'  `template_depth += 1` on an `i32`
      if st.templateDepth + 1 ≤ I32MAX then parseLoop argList rest (idx + 1) { st with templateDepth := st.templateDepth + 1 }
      else .panic "template_depth += 1"
    else if c.toNat = 62 then   -- '>'
      if st.templateDepth > 0 then parseLoop argList rest (idx + 1) { st with templateDepth := st.templateDepth - 1 }
      else .ok none
    else if c.toNat = 40 then   -- '('
      if st.parenDepth + 1 ≤ I32MAX then parseLoop argList rest (idx + 1) { st with parenDepth := st.parenDepth + 1 }
      else .panic "paren_depth += 1"
    else if c.toNat = 41 then   -- ')'
      if st.parenDepth > 0 then parseLoop argList rest (idx + 1) { st with parenDepth := st.parenDepth - 1 }
      else .ok none
    else if c.toNat = 44 then   -- ','
      if st.templateDepth = 0 ∧ st.parenDepth = 0 then
        match sliceStr "arg_list[arg_start..idx]" argList st.argStart idx with
        | .panic s => .panic s
        | .ok a => parseLoop argList rest (idx + 1) { st with args := trim a :: st.args, argStart := idx + 1 }
      else parseLoop argList rest (idx + 1) st
    else parseLoop argList rest (idx + 1) st

/-- `parse_x86_arg_list` -/
def parseArgList (funcName : Bytes) : Outcome (Option (CC × List Bytes)) :=
  match splitOnce 40 funcName with
  | none => .ok none
  | some (name, afterParen) =>
    match rsplitOnce 41 afterParen with
    | none => .ok none
    | some (argList, _junk) =>
      let cc := if containsColons name then CC.windowsThisCall else CC.cdecl   -- `let windows = true; // TODO`
      match parseLoop argList argList 0 { argStart := 0, templateDepth := 0, parenDepth := 0, args := [] } with
      | .panic s => .panic s
      | .ok none => .ok none
      | .ok (some st) =>
        match sliceStr "arg_list[arg_start..]" argList st.argStart argList.length with
        | .panic s => .panic s
        | .ok last =>
          if st.templateDepth = 0 ∧ st.parenDepth = 0 then .ok (some (cc, (trim last :: st.args).reverse))
          else .ok none

/-! ## `fill_arguments` -/

structure Frame where
  /-- `frame.context.get_stack_pointer()` -/
  sp : Nat
  /-- `frame.function_name` (UTF-8) -/
  name : Option Bytes
  /-- `frame.context.raw` is `MinidumpRawContext::X86` -/
  isX86 : Bool
  /-- `ctx.get_register("eax", &frame.context.valid)` -/
  eax : Option Nat
  deriving Repr

structure StackMem where
  base : Nat
  bytes : Bytes
  deriving Repr

/-- `mem.get_memory_at_address::<u32>(addr)` of a little-endian dump -/
def readU32 (m : StackMem) (addr : Nat) : Option Nat :=
  if addr < m.base then none else
  let w := (m.bytes.drop (addr - m.base)).take 4
  if w.length = 4 then some (w.foldr (fun b acc => acc * 256 + b.toNat) 0) else none

/-- `pop_value`: the value and the new read head -/
def popValue (m : StackMem) (callerFp head : Nat) : Outcome (Option Nat × Nat) :=
  if head < callerFp then
    match cadd64 "read_head += POINTER_WIDTH" head Consts.arg_pointer_width with
    | .panic s => .panic s
    | .ok h => .ok (readU32 m head, h)
  else .ok (none, head)

/-- `argument_list.iter().map(|&arg_name| … pop_value() …)` -/
def popArgs (m : StackMem) (callerFp : Nat) : List Bytes → Nat → Outcome (List (Bytes × Option Nat))
  | [], _ => .ok []
  | a :: rest, head =>
    match popValue m callerFp head with
    | .panic s => .panic s
    | .ok (v, h) =>
      match popArgs m callerFp rest h with
      | .panic s => .panic s
      | .ok l => .ok ((a, v) :: l)

structure FunctionArgs where
  cc : CC
  args : List (Bytes × Option Nat)
  deriving Repr, DecidableEq

def thisName : Bytes := [116, 104, 105, 115]   -- "this"

/-- `call_stack.frames.get(i).map(|f| f.context.get_stack_pointer()).unwrap_or(stack_base)` -/
def spAt (frames : List Frame) (i : Nat) (stackBase : Nat) : Nat :=
  match frames[i]? with
  | some g => g.sp
  | none => stackBase

/-- the closure of `fill_arguments` for the frame at `idx` -/
def frameArgs (frames : List Frame) (mem : Option StackMem) (idx : Nat) (f : Frame) : Outcome (Option FunctionArgs) :=
  match mem, f.name, f.isX86 with
  | some m, some name, true =>
    match parseArgList name with
    | .panic s => .panic s
    | .ok none => .ok none
    | .ok (some (cc, argList)) =>
      let stackBase := saturatingAdd64 m.base m.bytes.length
      let callerSp := spAt frames (idx + 1) stackBase
      let callerFp := spAt frames (idx + 2) stackBase
      -- the first argument of thiscall
      let first : Outcome (List (Bytes × Option Nat) × Nat) :=
        match cc with
        | .windowsThisCall => .ok ([(thisName, f.eax)], callerSp)
        | .otherThisCall =>
          match popValue m callerFp callerSp with
          | .panic s => .panic s
          | .ok (v, h) => .ok ([(thisName, v)], h)
        | .cdecl => .ok ([], callerSp)
      match first with
      | .panic s => .panic s
      | .ok (pre, head) =>
        match popArgs m callerFp argList head with
        | .panic s => .panic s
        | .ok l => .ok (some { cc := cc, args := pre ++ l })
  | _, _, _ => .ok none

def fillFrom (frames : List Frame) (mem : Option StackMem) : Nat → List Frame → Outcome (List (Option FunctionArgs))
  | _, [] => .ok []
  | idx, f :: rest =>
    match frameArgs frames mem idx f with
    | .panic s => .panic s
    | .ok a =>
      match fillFrom frames mem (idx + 1) rest with
      | .panic s => .panic s
      | .ok l => .ok (a :: l)

/-- `fill_arguments`: the `arguments` of every frame -/
def fillArguments (frames : List Frame) (mem : Option StackMem) : Outcome (List (Option FunctionArgs)) :=
  fillFrom frames mem 0 frames

/-! ## line protocol

  argrec parse <hex name>
      → PANIC | none | <cc> n=<count> <hex arg>,<hex arg>,…
  argrec fill stk:<-|base:hex> frames:<sp>/<hex name|->/<0|1>/<eax|->;…
      → PANIC | per frame `-` or `<cc>[name=value|?,…]`, joined by `;`
-/

open Proto

def ccStr : CC → String
  | .cdecl => "cdecl" | .windowsThisCall => "thiscall-win" | .otherThisCall => "thiscall"

def optStr : Option Nat → String
  | none => "?"
  | some n => toString n

def kvField (key : String) (s : String) : Option String :=
  if s.startsWith (key ++ ":") then some (s.drop (key.length + 1)).toString else none

def parseOptNat (s : String) : Option (Option Nat) :=
  if s == "-" then some none else (optNat s).map some

def parseFrame (s : String) : Option Frame :=
  match s.splitOn "/" with
  | [sp, name, x86, eax] => do
    let sp ← optNat sp
    let name ← if name == "-" then some none else (unhex name).map some
    -- a name is a Rust `String`
    if let some n := name then if !validUtf8 n then none
    let x86 ← if x86 == "1" then some true else if x86 == "0" then some false else none
    let eax ← parseOptNat eax
    if sp ≤ U64MAX then pure { sp := sp, name := name, isX86 := x86, eax := eax } else none
  | _ => none

def parseStack (s : String) : Option (Option StackMem) :=
  if s == "-" then some none else
  match s.splitOn ":" with
  | [b, h] => do
    let b ← optNat b
    let bytes ← unhex h
    if b ≤ U64MAX then pure (some { base := b, bytes := bytes }) else none
  | _ => none

def showArgs (a : Option FunctionArgs) : String :=
  match a with
  | none => "-"
  | some fa => ccStr fa.cc ++ "[" ++ joinWith "," (fa.args.map fun (n, v) => s!"{hex n}={optStr v}") ++ "]"

def handle (args : List String) : String :=
  match args with
  | ["parse", h] =>
    match unhex h with
    | none => "bad-op"
    | some name =>
      if !validUtf8 name then "bad-op" else
      match parseArgList name with
      | .panic _ => "PANIC"
      | .ok none => "none"
      | .ok (some (cc, l)) => s!"{ccStr cc} n={l.length} " ++ joinWith "," (l.map hex)
  | ["fill", stk, frames] =>
    match (kvField "stk" stk).bind parseStack, (kvField "frames" frames).bind fun s =>
        if s == "-" then some [] else (s.splitOn ";").mapM parseFrame with
    | some m, some fs =>
      match fillArguments fs m with
      | .panic _ => "PANIC"
      | .ok l => if l.isEmpty then "-" else joinWith ";" (l.map showArgs)
    | _, _ => "bad-op"
  | _ => "bad-op"

end MdModel.ArgRecovery
