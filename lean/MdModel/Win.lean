/-
  MdModel.Win — model of the STACK WIN unwinder of breakpad-symbols
    * `eval_win_expr`                       (sym_file/walker.rs:754-937)
    * `win_frame_size` (checked)            (walker.rs:939-944)
    * `walk_with_stack_win_framedata`       (walker.rs:969-980)
    * `walk_with_stack_win_fpo`             (walker.rs:982-1045)
    * `clear_stack_win_caller_registers`    (walker.rs:1048-1053) — passes the names WITH `$`
    * `SymbolFile::walk_frame` record selection framedata > fpo > STACK CFI (sym_file/mod.rs:493-524)
    * the `type`/`has_program_string` consistency rule of `stack_win_line` (parser.rs:316-352)
    * `CfiStackWalker<CONTEXT_X86>` as the `FrameWalker` (minidump-unwind/src/lib.rs:604-655):
      32-bit registers, `set_caller_register` fails on unknown names and on values ≥ 2^32,
      `clear_caller_register` removes the memoised name (nothing for a name it does not know).

  Values the programs compute with are `UInt32` (the Rust code uses `wrapping_*` on `u32`);
  addresses handed to the memory reader are `Nat` (`u64` in Rust, every `+` on them is a checked
  site with an explicit panic outcome).  Core-only imports.
-/
import MdModel.Prelude
import MdModel.RangeMap
namespace MdModel.Win
open MdModel

/-- result of a piece of Rust code returning `Option<_>` that may also panic. -/
inductive R (α : Type) where
  | ok (a : α)
  | fail
  | panic (site : String)
  deriving Repr, DecidableEq

@[inline] def R.bind {α β : Type} (x : R α) (f : α → R β) : R β :=
  match x with
  | .ok a => f a
  | .fail => .fail
  | .panic s => .panic s

instance : Monad R where
  pure := R.ok
  bind := R.bind

/-- `opt?` -/
def R.ofOpt {α : Type} : Option α → R α
  | some a => .ok a
  | none => .fail

def R.isPanic {α : Type} : R α → Bool
  | .panic _ => true
  | _ => false

/-! ## the numeric fields of a `StackInfoWin` that the walker reads -/

structure Info where
  /-- `parameter_size` -/
  par : UInt32
  /-- `saved_register_size` -/
  sav : UInt32
  /-- `local_size` -/
  loc : UInt32
  deriving Repr, DecidableEq

/-- The read-only half of a `FrameWalker` (callee registers, stack memory, grand callee).
    Register and memory values are 32 bit (x86 `CfiStackWalker`: `C::Register = u32`). -/
structure Walker where
  hasGC : Bool
  gcParam : UInt32
  reg : String → Option UInt32
  mem : Nat → Option UInt32

/-- `u32::checked_add` -/
def checkedAdd32 (a b : UInt32) : Option UInt32 :=
  if a.toNat + b.toNat ≤ U32MAX then some (a + b) else none

/-- `win_frame_size`: `local_size.checked_add(saved_register_size)?.checked_add(grand_callee)` -/
def winFrameSize (info : Info) (gc : UInt32) : Option UInt32 :=
  (checkedAdd32 info.loc info.sav).bind fun s => checkedAdd32 s gc

/-! ## tokens -/

inductive Tok where
  | add | sub | mul | div | rem | align | assign | deref | undef
  | var (name : String)
  | lit (v : UInt32)
  | bad
  deriving Repr, DecidableEq

/-- ASCII whitespace of `split_ascii_whitespace`: space, \t, \n, \x0C, \r. -/
def isWs (c : Char) : Bool :=
  c = ' ' || c = '\t' || c = '\n' || c = '\x0c' || c = '\r'

/-- `str::split_ascii_whitespace` (non-empty pieces between whitespace). -/
def splitWs : List Char → List Char → List (List Char)
  | [], cur => if cur.isEmpty then [] else [cur.reverse]
  | c :: rest, cur =>
    if isWs c then
      if cur.isEmpty then splitWs rest [] else cur.reverse :: splitWs rest []
    else splitWs rest (c :: cur)

/-- the `=tok` hack: a piece that starts with `=` and is longer than one byte becomes `=`, `tok`
    (one level only: `==x` gives `=` and `=x`). -/
def splitEq (piece : List Char) : List (List Char) :=
  match piece with
  | '=' :: c :: rest => [['='], c :: rest]
  | p => [p]

def isDigit (c : Char) : Bool := '0' ≤ c && c ≤ '9'

def digitsVal (ds : List Char) : Nat := ds.foldl (fun a c => a * 10 + (c.toNat - '0'.toNat)) 0

/-- `i32::from_str(tok)` then `as u32`: optional single sign, at least one ASCII digit, nothing
    else, value within `i32`. -/
def parseI32 (cs : List Char) : Option UInt32 :=
  let neg := cs.head? = some '-'
  let ds := match cs with
    | '-' :: r => r
    | '+' :: r => r
    | r => r
  if ds.isEmpty || !ds.all isDigit then none
  else
    let n := digitsVal ds
    if neg then
      if n ≤ 2147483648 then some (UInt32.ofNat (4294967296 - n)) else none
    else
      if n ≤ 2147483647 then some (UInt32.ofNat n) else none

/-- the `match token { … }` of `eval_win_expr`, in the code's order. -/
def classify (t : List Char) : Tok :=
  if t = ['+'] then .add
  else if t = ['-'] then .sub
  else if t = ['*'] then .mul
  else if t = ['/'] then .div
  else if t = ['%'] then .rem
  else if t = ['@'] then .align
  else if t = ['='] then .assign
  else if t = ['^'] then .deref
  else if t = ".undef".toList then .undef
  else if t.head? = some '$' || t.head? = some '.' then .var (String.ofList t)
  else match parseI32 t with
    | some v => .lit v
    | none => .bad

/-- tokens of a program string -/
def tokenize (expr : List Char) : List Tok :=
  ((splitWs expr []).flatMap splitEq).map classify

/-! ## evaluator -/

inductive Val where
  | var (name : String)
  | int (v : UInt32)
  | undef
  deriving Repr, DecidableEq

abbrev Vars := List (String × UInt32)

def Vars.get (vs : Vars) (k : String) : Option UInt32 := (vs.find? fun e => e.1 = k).map (·.2)
def Vars.erase (vs : Vars) (k : String) : Vars := vs.filter fun e => e.1 ≠ k
def Vars.set (vs : Vars) (k : String) (v : UInt32) : Vars := (k, v) :: vs.erase k

/-- `WinVal::into_int` -/
def Val.toInt (vs : Vars) : Val → Option UInt32
  | .var n => vs.get n
  | .int v => some v
  | .undef => none

structure St where
  vars : Vars
  stack : List Val   -- head = top of the stack
  deriving Repr

/-- `u32::is_power_of_two` -/
def isPow2 (r : UInt32) : Bool := r ≠ 0 && (r &&& (r - 1)) = 0

/-- the `@` arm: fails on `rhs == 0 || !rhs.is_power_of_two()`, else
    `lhs & (-1i32 as u32 ^ (rhs - 1))` — `rhs - 1` is an overflow-checked subtraction. -/
def alignOp (lhs rhs : UInt32) : R UInt32 :=
  if rhs = 0 || !isPow2 rhs then .fail
  else if rhs.toNat < 1 then .panic "eval_win_expr: rhs - 1"
  else .ok (lhs &&& (0xffffffff ^^^ (rhs - 1)))

/-- the five wrapping arithmetic operators -/
inductive BinOp where
  | add | sub | mul | div | rem
  deriving Repr, DecidableEq

def BinOp.eval (op : BinOp) (lhs rhs : UInt32) : Option UInt32 :=
  match op with
  | .add => some (lhs + rhs)
  | .sub => some (lhs - rhs)
  | .mul => some (lhs * rhs)
  | .div => if rhs = 0 then none else some (lhs / rhs)
  | .rem => if rhs = 0 then none else some (lhs % rhs)

/-- pop two operands as integers (rhs first) -/
def pop2 (st : St) : Option (UInt32 × UInt32 × List Val) :=
  match st.stack with
  | r :: l :: rest =>
    match r.toInt st.vars, l.toInt st.vars with
    | some rv, some lv => some (lv, rv, rest)
    | _, _ => none
  | _ => none

def stepBin (op : BinOp) (st : St) : R St :=
  match pop2 st with
  | none => .fail
  | some (l, r, rest) =>
    match op.eval l r with
    | none => .fail
    | some v => .ok { st with stack := .int v :: rest }

/-- one token of the evaluation loop -/
def step (mem : Nat → Option UInt32) (st : St) : Tok → R St
  | .add => stepBin .add st
  | .sub => stepBin .sub st
  | .mul => stepBin .mul st
  | .div => stepBin .div st
  | .rem => stepBin .rem st
  | .align =>
    match pop2 st with
    | none => .fail
    | some (l, r, rest) =>
      match alignOp l r with
      | .ok v => .ok { st with stack := .int v :: rest }
      | .fail => .fail
      | .panic s => .panic s
  | .assign =>
    match st.stack with
    | rhs :: .var name :: rest =>
      match rhs with
      | .undef => .ok { vars := st.vars.erase name, stack := rest }
      | _ =>
        match rhs.toInt st.vars with
        | some v => .ok { vars := st.vars.set name v, stack := rest }
        | none => .fail
    | _ => .fail
  | .deref =>
    match st.stack with
    | p :: rest =>
      match p.toInt st.vars with
      | none => .fail
      | some ptr =>
        match mem ptr.toNat with
        | none => .fail
        | some v => .ok { st with stack := .int v :: rest }
    | [] => .fail
  | .undef => .ok { st with stack := .undef :: st.stack }
  | .var n => .ok { st with stack := .var n :: st.stack }
  | .lit v => .ok { st with stack := .int v :: st.stack }
  | .bad => .fail

def run (mem : Nat → Option UInt32) : St → List Tok → R St
  | st, [] => .ok st
  | st, t :: rest =>
    match step mem st t with
    | .ok st' => run mem st' rest
    | .fail => .fail
    | .panic s => .panic s

/-- `.raSearch` / `.raSearchStart`: `ebp + 4` when the raw program text contains `@`,
    else `esp + frame_size`; every addition checked. -/
def searchStart (hasAt : Bool) (info : Info) (gc esp ebp : UInt32) : Option UInt32 :=
  if hasAt then checkedAdd32 ebp 4
  else (winFrameSize info gc).bind fun fs => checkedAdd32 esp fs

/-- the variable map before the first token -/
def initVars (hasAt : Bool) (info : Info) (w : Walker) : Option Vars :=
  match w.reg "esp", w.reg "ebp" with
  | some esp, some ebp =>
    let v0 : Vars := Vars.set (Vars.set [] "$esp" esp) "$ebp" ebp
    let v1 := match w.reg "ebx" with
      | some ebx => v0.set "$ebx" ebx
      | none => v0
    match searchStart hasAt info w.gcParam esp ebp with
    | none => none
    | some ss =>
      some ((((((v1.set ".cbParams" info.par).set ".cbCalleeParams" w.gcParam).set
        ".cbSavedRegs" info.sav).set ".cbLocals" info.loc).set ".raSearch" ss).set
        ".raSearchStart" ss)
  | _, _ => none

/-- the six output registers, in the code's order -/
def outputRegs : List String := ["eip", "esp", "ebp", "ebx", "esi", "edi"]

/-- the `set_caller_register` calls after the loop: `(name without $, value as u64)` -/
def outputs (vs : Vars) : List (String × Nat) :=
  outputRegs.filterMap fun r => (vs.get ("$" ++ r)).map fun v => (r, v.toNat)

/-- What a STACK WIN routine does to the mutable half of the walker: the `set_caller_register`
    calls it makes, in order, and whether it then returns `Some(())` (`done`) or `None`.
    (Reads of the walker never depend on earlier writes: `CfiStackWalker` reads the callee
    context and the stack memory only.) -/
structure Plan where
  sets : List (String × Nat)
  done : Bool
  deriving Repr, DecidableEq

/-- final variable map of a program (`none`: the program failed) -/
def finalVars (expr : List Char) (info : Info) (w : Walker) : R Vars :=
  match initVars (expr.contains '@') info w with
  | none => .fail
  | some vs =>
    match run w.mem { vars := vs, stack := [] } (tokenize expr) with
    | .ok st => .ok st.vars
    | .fail => .fail
    | .panic s => .panic s

/-- `eval_win_expr` -/
def evalWin (expr : List Char) (info : Info) (w : Walker) : Outcome Plan :=
  match finalVars expr info w with
  | .ok vs => .ok { sets := outputs vs, done := true }
  | .fail => .ok { sets := [], done := false }
  | .panic s => .panic s

/-- `u64 + u64` with overflow checks -/
def addU64 (a b : Nat) : R Nat :=
  if a + b ≤ U64MAX then .ok (a + b) else .panic "u64 add overflow"

/-- fpo, first half: the callee `esp`, the address of the return-address slot and the caller's
    `eip` — `*(esp + frame_size)`, or one word further when the callee is a context frame (no
    grand callee) and the slot holds the callee's own `eip` (a "leftover return address"). -/
def fpoRet (info : Info) (w : Walker) : R (UInt32 × Nat × UInt32) :=
  (R.ofOpt (winFrameSize info w.gcParam)).bind fun fs =>
  (R.ofOpt (w.reg "esp")).bind fun esp =>
  (addU64 esp.toNat fs.toNat).bind fun a0 =>
  (R.ofOpt (w.mem a0)).bind fun eip0 =>
  if !w.hasGC then
    (R.ofOpt (w.reg "eip")).bind fun calleeEip =>
    if eip0 = calleeEip then
      (addU64 a0 4).bind fun a1 =>
      (R.ofOpt (w.mem a1)).bind fun e1 => .ok (esp, a1, e1)
    else .ok (esp, a0, eip0)
  else .ok (esp, a0, eip0)

/-- fpo: `%ebx` is passed through (set first) when the function does not allocate a base pointer -/
def fpoPre (abp : Bool) (w : Walker) : List (String × Nat) :=
  if abp then []
  else match w.reg "ebx" with
    | some ebx => [("ebx", ebx.toNat)]
    | none => []

/-- fpo: the caller's `ebp` — `*(esp + grand_callee_params + saved_regs - 8)` (`checked_sub`) when
    the function allocates a base pointer, else the callee's `ebp` (required). -/
def fpoEbp (info : Info) (abp : Bool) (w : Walker) (esp : UInt32) : R UInt32 :=
  if abp then
    (addU64 esp.toNat w.gcParam.toNat).bind fun s1 =>
    (addU64 s1 info.sav.toNat).bind fun s2 =>
    if s2 < 8 then .fail else R.ofOpt (w.mem (s2 - 8))
  else R.ofOpt (w.reg "ebp")

/-- `walk_with_stack_win_fpo` after `clear_stack_win_caller_registers` -/
def fpoPlan (info : Info) (abp : Bool) (w : Walker) : Outcome Plan :=
  match fpoRet info w with
  | .panic s => .panic s
  | .fail => .ok { sets := [], done := false }
  | .ok (esp, eipAddr, callerEip) =>
    match addU64 eipAddr 4 with
    | .panic s => .panic s
    | .fail => .ok { sets := [], done := false }
    | .ok callerEsp =>
      match fpoEbp info abp w esp with
      | .panic s => .panic s
      | .fail => .ok { sets := fpoPre abp w, done := false }
      | .ok ebp =>
        .ok { sets := fpoPre abp w ++ [("eip", callerEip.toNat), ("esp", callerEsp), ("ebp", ebp.toNat)],
              done := true }

/-! ## the mutable half: `CfiStackWalker<CONTEXT_X86>` -/

/-- `CONTEXT_X86::REGISTERS` -/
def x86Regs : List String :=
  ["eip", "esp", "ebp", "ebx", "esi", "edi", "eax", "ecx", "edx", "eflags"]

/-- `CALLEE_SAVED_REGS` of x86.rs -/
def x86CalleeSaved : List String := ["ebp", "ebx", "edi", "esi"]

structure Caller where
  /-- `caller_ctx` (register values) -/
  vals : Vars
  /-- `caller_validity` -/
  valid : List String
  /-- every name passed to `clear_caller_register`, in order (observation only) -/
  clears : List String
  /-- every successful `set_caller_register(name, value)` call, in order (observation only) -/
  log : List (String × Nat)
  deriving Repr

/-- the effect of `CfiStackWalker::set_caller_register` (also of `set_cfa` / `set_ra`, which name
    `esp` / `eip`): fails on a name the context does not know and on a value ≥ 2^32 -/
def Caller.setCore (c : Caller) (name : String) (v : Nat) : Option Caller :=
  if name ∈ x86Regs then
    if v ≤ U32MAX then
      some { c with vals := c.vals.set name (UInt32.ofNat v),
                    valid := if name ∈ c.valid then c.valid else name :: c.valid }
    else none
  else none

/-- `CfiStackWalker::set_caller_register`, recording the call -/
def Caller.set (c : Caller) (name : String) (v : Nat) : Option Caller :=
  (c.setCore name v).map fun c' => { c' with log := c'.log ++ [(name, v)] }

/-- `CfiStackWalker::clear_caller_register`: memoise the name, remove it from the validity set;
    a name the context does not know (`"$ebx"`) removes nothing. -/
def Caller.clear (c : Caller) (name : String) : Caller :=
  { c with valid := if name ∈ x86Regs then c.valid.filter (· ≠ name) else c.valid,
           clears := c.clears ++ [name] }

/-- the names `clear_stack_win_caller_registers` passes today (walker.rs:1049) -/
def clearNamesActual : List String := ["$eip", "$esp", "$ebp", "$ebx", "$esi", "$edi"]
/-- the names it should pass (what the validity set holds) -/
def clearNamesFixed : List String := ["eip", "esp", "ebp", "ebx", "esi", "edi"]

def clearAll (names : List String) (c : Caller) : Caller := names.foldl Caller.clear c

/-- initial state of the caller in `CfiStackWalker::from_ctx_and_args` for x86: the context is a
    clone of the callee's, the validity set holds the callee-saved registers valid in the callee -/
def Caller.init (calleeVals : Vars) (calleeValid : String → Bool) : Caller :=
  { vals := calleeVals, valid := x86CalleeSaved.filter calleeValid, clears := [], log := [] }

/-- apply the `set_caller_register(..)?` calls of a plan in order -/
def applySets : Caller → List (String × Nat) → Bool × Caller
  | c, [] => (true, c)
  | c, (n, v) :: rest =>
    match c.set n v with
    | none => (false, c)
    | some c' => applySets c' rest

def runPlan (c : Caller) (p : Plan) : Bool × Caller :=
  let (ok, c') := applySets c p.sets
  (ok && p.done, c')

/-! ## records and selection -/

inductive Thing where
  | prog (s : List Char)
  | abp (b : Bool)
  deriving Repr, DecidableEq

structure SInfo where
  info : Info
  thing : Thing
  deriving Repr, DecidableEq

/-- one `STACK WIN` line as the parser's tuple sees it -/
structure Rec where
  ty : Char
  addr : Nat
  size : Nat
  par : UInt32
  sav : UInt32
  loc : UInt32
  hp : Char
  rest : List Char
  deriving Repr

inductive FrameType where
  | frameData (i : SInfo)
  | fpo (i : SInfo)
  | unhandled
  deriving Repr, DecidableEq

/-- the tail of `stack_win_line`: consistency of `type` and `has_program_string` -/
def classifyRec (r : Rec) : FrameType :=
  let really : Bool := r.ty == '4'
  let has : Bool := r.hp == '1'
  if really != has then .unhandled
  else
    let thing := if really then Thing.prog r.rest else Thing.abp (r.rest = ['1'])
    let i : SInfo := { info := { par := r.par, sav := r.sav, loc := r.loc }, thing := thing }
    if r.ty = '4' then .frameData i
    else if r.ty = '0' then .fpo i
    else .unhandled

/-- `walk_with_stack_win_framedata` (`names` = what `clear_stack_win_caller_registers` passes) -/
def walkFramedata (names : List String) (i : SInfo) (w : Walker) (c : Caller) :
    Outcome (Bool × Caller) :=
  match i.thing with
  | .prog expr =>
    match evalWin expr i.info w with
    | .panic s => .panic s
    | .ok p => .ok (runPlan (clearAll names c) p)
  | .abp _ => .panic "walk_with_stack_win_framedata: unreachable!()"

/-- `walk_with_stack_win_fpo` -/
def walkFpo (names : List String) (i : SInfo) (w : Walker) (c : Caller) :
    Outcome (Bool × Caller) :=
  match i.thing with
  | .abp b =>
    match fpoPlan i.info b w with
    | .panic s => .panic s
    | .ok p => .ok (runPlan (clearAll names c) p)
  | .prog _ => .panic "walk_with_stack_win_fpo: unreachable!()"

/-- `SymbolFile::walk_frame` after the three table lookups: `fd`/`fpo` are the records found at
    the address, `cfi` is what `walk_with_stack_cfi` would do to the walker (`none`: no CFI
    record covers the address). framedata is preferred to fpo; an fpo record is not tried
    when a framedata record exists and fails; STACK CFI runs iff STACK WIN returned `None`,
    on the walker as STACK WIN left it. -/
def winResult (names : List String) (fd fpo : Option SInfo) (w : Walker) (c : Caller) :
    Outcome (Bool × Caller) :=
  match fd, fpo with
  | some i, _ => walkFramedata names i w c
  | none, some i => walkFpo names i w c
  | none, none => .ok (false, c)

/-- `win_stack_result.or_else(|| … walk_with_stack_cfi …)` -/
def orElseCfi (cfi : Option (Caller → Option Caller)) :
    Outcome (Bool × Caller) → Outcome (Bool × Caller)
  | .panic s => .panic s
  | .ok (true, c') => .ok (true, c')
  | .ok (false, c') =>
    match cfi with
    | none => .ok (false, c')
    | some f =>
      match f c' with
      | some c'' => .ok (true, c'')
      | none => .ok (false, c')

def walkSelected (names : List String) (fd fpo : Option SInfo)
    (cfi : Option (Caller → Option Caller)) (w : Walker) (c : Caller) : Outcome (Bool × Caller) :=
  orElseCfi cfi (winResult names fd fpo w c)

/-! ## line protocol

  `win walk base:<hex> instr:<hex> gc:<0|1>:<hex> cfi:<0|1> regs:<name=hex,..|-> mem:<hexbase>:<hexbytes|->
            (rec:<ty>:<addr>:<size>:<par>:<sav>:<loc>:<hp>:<hex(rest)>)*`
  answer: `none` | `some <name>=<hex>,.. sets:<name>=<hex>,.. clears:<name>,..` | `PANIC`
  (valid caller registers in alphabetical order).  The CFI record of a case is the fixed
  `STACK CFI INIT 0 ffffffff .cfa: 4096 .ra: 8192` (covers module offsets `0 .. 2^32-2`).
-/
open Proto

/-- 4-byte little-endian read from a stack image (`MinidumpMemory::get_memory_at_address::<u32>`) -/
def readImage (base : Nat) (bytes : Array UInt8) (addr : Nat) : Option UInt32 :=
  if addr < base then none
  else
    let off := addr - base
    if off + 4 ≤ bytes.size then
      some (UInt32.ofNat (bytes[off]!.toNat + bytes[off+1]!.toNat * 256 + bytes[off+2]!.toNat * 65536
        + bytes[off+3]!.toNat * 16777216))
    else none

def parseRegs (s : String) : Option Vars :=
  if s = "-" then some [] else
  (pieces s ",").foldr (fun p acc =>
    match acc, p.splitOn "=" with
    | some l, [n, v] =>
      match parseHexNat v with
      | some x => if x ≤ U32MAX then some ((n, UInt32.ofNat x) :: l) else none
      | none => none
    | _, _ => none) (some [])

def stripPrefix (pre s : String) : Option String :=
  if s.startsWith pre then some (s.drop pre.length).toString else none

def parseRec (s : String) : Option Rec :=
  match s.splitOn ":" with
  | [ty, addr, size, par, sav, loc, hp, rest] =>
    match ty.toList, hp.toList, parseHexNat addr, parseHexNat size, parseHexNat par, parseHexNat sav,
          parseHexNat loc, unhex rest with
    | [tyc], [hpc], some a, some sz, some p, some sv, some lc, some bs =>
      if sz ≤ U32MAX ∧ p ≤ U32MAX ∧ sv ≤ U32MAX ∧ lc ≤ U32MAX ∧ a ≤ U64MAX then
        match String.fromUTF8? (ByteArray.mk bs.toArray) with
        | some str =>
          -- what the line grammar can express: `type` one hex digit, `has_program_string` one decimal
          -- digit, the rest up to the end of line, leading blanks eaten by `space1`
          if (hexDigitVal tyc).isNone ∨ !isDigit hpc ∨ str.toList.head? = some ' ' ∨
             str.toList.head? = some '\t' ∨ str.toList.contains '\r' ∨ str.toList.contains '\n' then none else
          some { ty := tyc, addr := a, size := sz, par := UInt32.ofNat p, sav := UInt32.ofNat sv,
                 loc := UInt32.ofNat lc, hp := hpc, rest := str.toList }
        | none => none
      else none
    | _, _, _, _, _, _, _, _ => none
  | _ => none

/-- the table of one kind (`win_stack_framedata_info` / `win_stack_fpo_info`): the parser's
    `insert_win_stack_info` repair followed by `into_rangemap_safe` (C08's model); values are
    indices into `recs`. -/
def buildTable (recs : List (Nat × Nat × Nat)) : Outcome (List RangeMap.Entry) :=
  match RangeMap.insertWinAll [] (recs.map fun (a, s, i) => RangeMap.Rec.mk a s i) with
  | .panic s => .panic s
  | .ok v => RangeMap.safeP (v.map fun (r, w) => (r, w.enc))

def lookup (t : List RangeMap.Entry) (addr : Nat) : Option Nat :=
  (RangeMap.get t addr).map fun v => (RangeMap.Rec.dec v).tag

/-- the fixed CFI record of the protocol: `.cfa: 4096 .ra: 8192` ⇒ `set_cfa(4096)?; set_ra(8192)?` -/
def cfiConst (c : Caller) : Option Caller := (c.setCore "esp" 4096).bind fun c => c.setCore "eip" 8192

def showCaller (c : Caller) : String :=
  let names := ["eax", "ebp", "ebx", "ecx", "edi", "edx", "eflags", "eip", "esi", "esp"]
  let regs := names.filterMap fun n =>
    if n ∈ c.valid then some (n ++ "=" ++ natToHex ((c.vals.get n).getD 0).toNat) else none
  "some " ++ (if regs.isEmpty then "-" else joinWith "," regs) ++ " sets:" ++
    (if c.log.isEmpty then "-" else joinWith "," (c.log.map fun (n, v) => n ++ "=" ++ natToHex v)) ++
    " clears:" ++ (if c.clears.isEmpty then "-" else joinWith "," c.clears)

def handleWalk (args : List String) : String :=
  match args with
  | b :: i :: g :: cf :: rg :: mm :: recs =>
    match (stripPrefix "base:" b).bind parseHexNat, (stripPrefix "instr:" i).bind parseHexNat,
          stripPrefix "gc:" g, stripPrefix "cfi:" cf, (stripPrefix "regs:" rg).bind parseRegs,
          stripPrefix "mem:" mm with
    | some base, some instr, some gs, some cfs, some regs, some ms =>
      let gcP : Option (Bool × UInt32) := match gs.splitOn ":" with
        | [h, p] => match parseHexNat p with
          | some x => if x ≤ U32MAX ∧ (h = "0" ∨ h = "1") then some (h = "1", UInt32.ofNat x) else none
          | none => none
        | _ => none
      let memP : Option (Nat × Array UInt8) := match ms.splitOn ":" with
        | [mb, bytes] => match parseHexNat mb, unhex bytes with
          | some x, some bs => some (x, bs.toArray)
          | _, _ => none
        | _ => none
      let recsP : Option (List Rec) := recs.foldr (fun s acc =>
        match acc, (stripPrefix "rec:" s).bind parseRec with
        | some l, some r => some (r :: l)
        | _, _ => none) (some [])
      match gcP, memP, recsP with
      | some (hasGC, gcParam), some (mbase, mbytes), some rs =>
        if cfs ≠ "0" ∧ cfs ≠ "1" then "bad-op" else
        if !(regs.map (·.1)).Nodup then "bad-op" else
        let w : Walker := { hasGC := hasGC, gcParam := gcParam, reg := fun n => Vars.get regs n,
                            mem := readImage mbase mbytes }
        let c0 := Caller.init regs (fun n => (Vars.get regs n).isSome)
        if instr < base then "none" else
        let addr := instr - base
        let typed : List (FrameType × Rec × Nat) := rs.zipIdx.map fun (r, idx) => (classifyRec r, r, idx)
        let fdRecs := typed.filterMap fun (t, r, idx) =>
          match t with | .frameData _ => some (r.addr, r.size, idx) | _ => none
        let fpoRecs := typed.filterMap fun (t, r, idx) =>
          match t with | .fpo _ => some (r.addr, r.size, idx) | _ => none
        let pick (tbl : List RangeMap.Entry) : Option SInfo :=
          (lookup tbl addr).bind fun idx =>
            match typed[idx]? with
            | some (.frameData si, _, _) => some si
            | some (.fpo si, _, _) => some si
            | _ => none
        match buildTable fdRecs, buildTable fpoRecs with
        | .ok t4, .ok t0 =>
          match walkSelected clearNamesActual (pick t4) (pick t0)
                  (if cfs = "1" ∧ addr < U32MAX then some cfiConst else none) w c0 with
          | .panic _ => "PANIC"
          | .ok (false, _) => "none"
          | .ok (true, c) => showCaller c
        | _, _ => "PANIC"
      | _, _, _ => "bad-op"
    | _, _, _, _, _, _ => "bad-op"
  | _ => "bad-op"

/-- line-protocol entry point of this model (engine: win) -/
def handle (_engine : String) (args : List String) : String :=
  match args with
  | "walk" :: rest => handleWalk rest
  | _ => "bad-op"

end MdModel.Win
