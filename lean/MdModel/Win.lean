/-
  MdModel.Win — placeholder (model not written yet).
-/
import MdModel.Prelude
namespace MdModel.Win

/-- line-protocol entry point of this model (engine(s): win) -/
def handle (_engine : String) (_args : List String) : String := "bad-op"

end MdModel.Win
