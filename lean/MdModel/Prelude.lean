/-
  MdModel.Prelude — shared helpers for the executable models and the line protocol.
  Core-only imports (the driver must link as a `lean_exe`).
-/
namespace MdModel

/-- The largest `u64`. -/
def U64MAX : Nat := 18446744073709551615
/-- The largest `u32`. -/
def U32MAX : Nat := 4294967295

theorem U64MAX_eq : U64MAX = 2^64 - 1 := by decide
theorem U32MAX_eq : U32MAX = 2^32 - 1 := by decide

/-- The "panic" outcome of a Rust operation that can panic (overflow with checks on,
    slice index out of range, `unwrap` on `None`, `unreachable!` …).
    Models never use Lean's totalised operators at such a site. -/
inductive Outcome (α : Type) where
  | ok (a : α)
  | panic (site : String)
  deriving Repr

namespace Proto

def hexDigitVal (c : Char) : Option Nat :=
  if '0' ≤ c ∧ c ≤ '9' then some (c.toNat - '0'.toNat)
  else if 'a' ≤ c ∧ c ≤ 'f' then some (c.toNat - 'a'.toNat + 10)
  else if 'A' ≤ c ∧ c ≤ 'F' then some (c.toNat - 'A'.toNat + 10)
  else none

/-- Parse a hex number (no prefix). -/
def parseHexNat (s : String) : Option Nat :=
  if s.isEmpty then none else
  s.toList.foldl (fun acc c => match acc, hexDigitVal c with
    | some a, some d => some (a * 16 + d)
    | _, _ => none) (some 0)

/-- Decode lower/upper-case hex into bytes. `-` denotes the empty string. -/
def unhex (s : String) : Option (List UInt8) :=
  if s == "-" then some [] else
  let rec go : List Char → List UInt8 → Option (List UInt8)
    | [], acc => some acc.reverse
    | [_], _ => none
    | a :: b :: rest, acc =>
      match hexDigitVal a, hexDigitVal b with
      | some x, some y => go rest (UInt8.ofNat (x * 16 + y) :: acc)
      | _, _ => none
  go s.toList []

def hexNibble (n : Nat) : Char :=
  if n < 10 then Char.ofNat ('0'.toNat + n) else Char.ofNat ('a'.toNat + (n - 10))

/-- Encode bytes as lower-case hex; the empty string is `-`. -/
def hex (bs : List UInt8) : String :=
  if bs.isEmpty then "-" else
  String.ofList (bs.flatMap fun b => [hexNibble (b.toNat / 16), hexNibble (b.toNat % 16)])

def natToHex (n : Nat) : String :=
  String.ofList (Nat.toDigits 16 n)

/-- Split a protocol line into space separated fields (single spaces). -/
def fields (line : String) : List String :=
  (line.trimAscii.toString.splitOn " ").filter (· ≠ "")

/-- Split on a separator, dropping empty pieces. -/
def pieces (s : String) (sep : String) : List String :=
  (s.splitOn sep).filter (· ≠ "")

def joinWith (sep : String) (xs : List String) : String := sep.intercalate xs

def optNat (s : String) : Option Nat := s.toNat?

end Proto
end MdModel
