/-
  MdModel.Walk.LayoutGen — C04: the GENERATORS of the `chain` engine (`gen_chain`,
  harness/src/engines/chain.rs) as Lean functions of their parameters, generically in the pointer
  width. For each of them `Pre` is PROVED of the function's value for all parameters
  (MdProofs/C04Gen.lean), and the engine ties the function to the Rust generator on every generated
  case: the parameters are recovered from the case, the compiled model evaluates the layout
  function (`chain layout …`, Walk.lean), and stack bytes, context registers and chain are
  compared (class `layout-not-mirrored`).

    `wordsMemP p base ws`      the stack memory holding the `p`-byte words `ws` at `base`
    `gfpWords` / `gfpChain`    frame-pointer chains (x86, x86-64 non-Windows, ARM iOS, ARM64 ×2)
    `gcfiWords` / `gcfiChain`  canonical STACK CFI chains (frame sizes in words, saves-fp flags,
                               leaf first frame), all seven context kinds / modes
-/
import MdModel.Walk.Layout
namespace MdModel.Walk
open MdModel

/-- little-endian bytes of a `p`-byte word -/
def leP (p v : Nat) : List UInt8 := (List.range p).map fun i => UInt8.ofNat (v / 256 ^ i % 256)

/-- the stack memory with the `p`-byte words `ws` at `base`, `base + p`, … -/
def wordsMemP (p base : Nat) (ws : List Nat) : Mem := { base := base, bytes := (ws.flatMap (leP p)).toArray }

/-- address of stack word `i` -/
def pAddr (p base i : Nat) : Nat := base + p * i

/-! ### frame-pointer chains

  `gen_chain`, technique `fp` (not Windows x86-64): the context has `sp = addr s0`, `fp = addr f0`;
  for every call `(gap, ret)` a record `w[f] = addr f'`, `w[f+1] = ret` with `f' = f + 2 + gap`;
  the outermost record `(0, 0)` and `1 + tail` zero words after it; every other word 0. -/

def gfpTail (p base tail : Nat) : Nat → List (Nat × Nat) → List Nat
  | _, [] => [0, 0] ++ List.replicate (1 + tail) 0
  | f, (gap, ret) :: rest =>
    [pAddr p base (f + 2 + gap), ret] ++ List.replicate gap 0 ++ gfpTail p base tail (f + 2 + gap) rest

def gfpWords (p base f0 tail : Nat) (calls : List (Nat × Nat)) : List Nat :=
  List.replicate f0 0 ++ gfpTail p base tail f0 calls

def gfpChain (p base : Nat) : Nat → List (Nat × Nat) → List Exp
  | _, [] => []
  | f, (gap, ret) :: rest =>
    { ret := ret, sp := pAddr p base (f + 2), fp := some (pAddr p base (f + 2 + gap)) } ::
      gfpChain p base (f + 2 + gap) rest

/-- what a return address of a frame-pointer chain must satisfy beyond `4096 ≤ ret ≤ regMax`:
    canonical on x86-64; on ARM64 canonical and untouched by the pointer-authentication strip -/
def retOkFp (a : Arch) (mask ret : Nat) : Bool :=
  match a with
  | .amd64 => !nonCanonAmd64 ret
  | .arm64 | .arm64old => decide (ret &&& mask = ret) && !nonCanonArm64 ret
  | _ => true

/-! ### canonical STACK CFI chains

  `gen_chain`, technique `cfi`: the context has `sp = addr s0`, `fp = fp0` (0, or a stack address),
  on a leaf first frame the link register = the first return address. A frame of a function whose
  record is `.cfa: $sp p·n + .ra: .cfa -p + ^ [$fp: .cfa -2p + ^]` occupies `n` words: the return
  address in the last, the saved frame pointer (when the record saves it) in the last but one, the
  others 0. After the last frame `tail` zero words (`tail = 0`: the stack ENDS with the outermost
  return-address slot). -/

/-- one generated frame: size in words (`0`: the leaf first frame, nothing on the stack), does the
    record save the frame pointer, the return address, the value of the saved frame pointer -/
structure CfiFr where
  n : Nat
  saves : Bool
  ret : Nat
  fpv : Nat
  deriving Repr, Inhabited

/-- the words of one frame -/
def CfiFr.words (c : CfiFr) : List Nat :=
  if c.n = 0 then []
  else if c.saves then List.replicate (c.n - 2) 0 ++ [c.fpv, c.ret]
  else List.replicate (c.n - 1) 0 ++ [c.ret]

def gcfiBody : List CfiFr → List Nat
  | [] => []
  | c :: rest => c.words ++ gcfiBody rest

def gcfiWords (s0 tail : Nat) (frames : List CfiFr) : List Nat :=
  List.replicate s0 0 ++ gcfiBody frames ++ List.replicate tail 0

/-- the expected chain: `s` = word index of the callee's stack pointer, `fp` = its frame pointer -/
def gcfiChain (p base : Nat) : Nat → Nat → List CfiFr → List Exp
  | _, _, [] => []
  | s, fp, c :: rest =>
    let fp' := if c.n ≠ 0 ∧ c.saves then c.fpv else fp
    { ret := c.ret, sp := pAddr p base (s + c.n), fp := some fp' } :: gcfiChain p base (s + c.n) fp' rest

/-- the frame pointer the outermost frame is left with -/
def gcfiLastFp : Nat → List CfiFr → Nat
  | fp, [] => fp
  | fp, c :: rest => gcfiLastFp (if c.n ≠ 0 ∧ c.saves then c.fpv else fp) rest

/-- the side condition on the module list and symbol records (NOT on the stack): the record
    covering each frame's lookup address is canonical for the frame's size (the leaf rule for a
    frame of size 0), without delta lines; no record covers the outermost lookup address -/
def gcfiSide (w : World) (a : Arch) : Nat → Bool → List CfiFr → Bool
  | instr, _, [] => (cfiRecordAt w instr).isNone
  | instr, first, c :: rest =>
    (match cfiRecordAt w instr with
     | none => false
     | some rec =>
       rec.adds.isEmpty &&
       (if c.n = 0 then first && a.leafOk && tokenize rec.init == leafToks a
        else tokenize rec.init == canonicalToks a (a.ptr * c.n) c.saves)) &&
    gcfiSide w a (c.ret - a.adj) false rest

/-- the parameter ranges of the generator that concern the frames: a frame that saves the frame
    pointer has at least two words; return addresses are `≥ 4096`, fit the register and are
    untouched by the pointer-authentication strip; so are the saved frame pointers -/
def gcfiFramesOk (a : Arch) (mask : Nat) (frames : List CfiFr) : Bool :=
  frames.all fun c =>
    decide (4096 ≤ c.ret) && decide (c.ret ≤ a.regMax) && decide (stripOf a mask c.ret = c.ret) &&
    (c.n == 0 || !c.saves || (decide (2 ≤ c.n) && decide (c.fpv ≤ a.regMax) && decide (stripOf a mask c.fpv = c.fpv)))

/-! ### the side condition from record-level facts (one-module worlds)

  `gcfiSide` goes through the module table and the CFI range table; `gcfiSideOne` is the same
  condition with a linear search over the module's list of STACK CFI records. Under `oneModOkB`
  the second implies the first (`gcfiSide_of_one`, MdProofs/Lemmas/WalkGenSide.lean). -/

/-- the record's range (relative to the module base) contains `instr` -/
def CfiRec.covers (m : Module) (instr : Nat) (c : CfiRec) : Bool :=
  decide (m.base + c.addr ≤ instr) && decide (instr < m.base + c.addr + c.size)

/-- the first STACK CFI record of the list that covers `instr`: a linear search -/
def cfiCover (m : Module) (sf : SymFile) (instr : Nat) : Option CfiRec :=
  sf.cfis.find? (CfiRec.covers m instr)

/-- `gcfiSide` with the linear search in place of the range tables; the outermost lookup address
    lies inside the module (in a function without STACK CFI) -/
def gcfiSideOne (m : Module) (sf : SymFile) (a : Arch) : Nat → Bool → List CfiFr → Bool
  | instr, _, [] =>
    decide (m.base ≤ instr) && decide (instr < m.base + m.size) && (cfiCover m sf instr).isNone
  | instr, first, c :: rest =>
    (match cfiCover m sf instr with
     | none => false
     | some rec =>
       rec.adds.isEmpty &&
       (if c.n = 0 then first && a.leafOk && tokenize rec.init == leafToks a
        else tokenize rec.init == canonicalToks a (a.ptr * c.n) c.saves)) &&
    gcfiSideOne m sf a (c.ret - a.adj) false rest

/-- decidable form of the record-level well-formedness of a one-module world (`OneModOk`,
    MdProofs/Lemmas/WalkGenSide.lean): the module has a range, every STACK CFI record is non-empty
    and inside the module, the records are pairwise disjoint -/
def disjB : List CfiRec → Bool
  | [] => true
  | c :: rest =>
    rest.all (fun d => decide (c.addr + c.size ≤ d.addr) || decide (d.addr + d.size ≤ c.addr)) && disjB rest

def oneModOkB (m : Module) (sf : SymFile) : Bool :=
  decide (0 < m.size) && decide (m.base + m.size ≤ U64MAX) &&
  sf.cfis.all (fun c => decide (0 < c.size) && decide (c.addr + c.size ≤ m.size)) && disjB sf.cfis

/-! ### … worlds of several modules

  The same with a linear search through the module list first (`modFind`): under `worldOkB` (modules
  with ranges, pairwise disjoint; every symbol file `oneModOkB` for its module) `gcfiSideW` implies
  `gcfiSide` (`gcfiSide_of_world`, MdProofs/Lemmas/WalkGenSideW.lean). -/

def Module.has (m : Module) (instr : Nat) : Bool := decide (m.base ≤ instr) && decide (instr < m.base + m.size)

/-- the first module of the list containing `instr`, with its position and symbol file -/
def modFind (w : World) (instr : Nat) : Option (Module × SymFile) :=
  match w.mods.zipIdx.find? (fun x => x.1.has instr) with
  | none => none
  | some (m, i) => ((w.syms[i]?).join).map fun sf => (m, sf)

def modsDisjB : List Module → Bool
  | [] => true
  | c :: rest =>
    rest.all (fun d => decide (c.base + c.size ≤ d.base) || decide (d.base + d.size ≤ c.base)) && modsDisjB rest

def worldOkB (w : World) : Bool :=
  modsDisjB w.mods && w.mods.all (fun m => decide (0 < m.size) && decide (m.base + m.size ≤ U64MAX)) &&
  w.mods.zipIdx.all fun x => match (w.syms[x.2]?).join with
    | some sf => oneModOkB x.1 sf
    | none => true

def gcfiSideW (w : World) (a : Arch) : Nat → Bool → List CfiFr → Bool
  | instr, _, [] =>
    (match modFind w instr with
     | some (m, sf) => (cfiCover m sf instr).isNone
     | none => false)
  | instr, first, c :: rest =>
    (match (modFind w instr).bind fun x => cfiCover x.1 x.2 instr with
     | none => false
     | some rec =>
       rec.adds.isEmpty &&
       (if c.n = 0 then first && a.leafOk && tokenize rec.init == leafToks a
        else tokenize rec.init == canonicalToks a (a.ptr * c.n) c.saves)) &&
    gcfiSideW w a (c.ret - a.adj) false rest

end MdModel.Walk
