/-
  MdModel.Walk.WinWalk — the walker on symbol files that also carry STACK WIN records (C04's
  `win` / `mixed` chains). `mkEnv` (Walk/Cfi.lean, shared with C05/C03) knows STACK CFI only and is
  left untouched; `mkEnvW` is the environment of a walk whose modules may have STACK WIN records:

    SymbolFile::walk_frame                     sym_file/mod.rs:491-522 — frame data, else FPO, else
                                               (when STACK WIN yields nothing) STACK CFI, on the
                                               walker as STACK WIN left it
    SymbolFile::fill_symbol (parameter_size)   sym_file/mod.rs:348-366 — a FUNC's parameter size is
                                               taken from the frame-data / FPO record at the address
    CfiStackWalker<CONTEXT_X86>                minidump-unwind/src/lib.rs:553-655 — `has_grand_callee`,
                                               `grand_callee_parameter_size` (0 when unknown)

  The STACK WIN evaluators themselves are `MdModel.Win` (property C07's model), reused here as they
  are: this file only converts between the walker's contexts and C07's `Walker` / `Caller`.
  On every context kind but x86 the STACK WIN routines end at their first
  `get_callee_register("esp")?` (an unknown name) before any `set_caller_register`, so STACK WIN
  records are without effect there.
  A panic outcome of C07's model (`win_frame_size` overflow is checked since the F6 fix; `rhs - 1`
  is guarded; the `unreachable!()`s need a record of the other kind) cannot occur for records the
  parser builds; it is mapped to "no frame".
-/
import MdModel.Walk.Cfi
import MdModel.Win
namespace MdModel.Walk
open MdModel

/-- the two STACK WIN tables of a symbol file (`win_stack_framedata_info`, `win_stack_fpo_info`)
    and the classified records they index -/
structure WinTables where
  typed : List Win.FrameType
  fd : List RangeMap.Entry
  fpo : List RangeMap.Entry
  deriving Inhabited

def WinTables.empty : WinTables := { typed := [], fd := [], fpo := [] }

def winTables (recs : List Win.Rec) : WinTables :=
  let typed := recs.map Win.classifyRec
  let idx := (recs.zip typed).zipIdx
  let fdRecs := idx.filterMap fun ((r, t), i) =>
    match t with | .frameData _ => some (r.addr, r.size, i) | _ => none
  let fpoRecs := idx.filterMap fun ((r, t), i) =>
    match t with | .fpo _ => some (r.addr, r.size, i) | _ => none
  match Win.buildTable fdRecs, Win.buildTable fpoRecs with
  | .ok t4, .ok t0 => { typed := typed, fd := t4, fpo := t0 }
  | _, _ => WinTables.empty

def WinTables.pick (t : WinTables) (tbl : List RangeMap.Entry) (addr : Nat) : Option Win.SInfo :=
  (Win.lookup tbl addr).bind fun i =>
    match t.typed[i]? with
    | some (.frameData si) => some si
    | some (.fpo si) => some si
    | _ => none

/-- the record `walk_frame` uses at a module-relative address: frame data preferred to FPO -/
def WinTables.at (t : WinTables) (addr : Nat) : Option Win.SInfo × Option Win.SInfo :=
  (t.pick t.fd addr, t.pick t.fpo addr)

/-- `parameter_size` of the STACK WIN record covering `addr` (frame data first) -/
def WinTables.psize (t : WinTables) (addr : Nat) : Option Nat :=
  match t.pick t.fd addr with
  | some si => some si.info.par.toNat
  | none => (t.pick t.fpo addr).map fun si => si.info.par.toNat

/-- `fill_symbol` with STACK WIN records present: only a FUNC's parameter size is overridden -/
def fillSymbolW (sf : SymFile) (ftbl : List RangeMap.Entry) (wt : WinTables) (modBase instr : Nat) :
    Option FuncInfo :=
  match fillSymbol sf ftbl modBase instr with
  | none => none
  | some f =>
    if instr < modBase then some f
    else match RangeMap.get ftbl (instr - modBase) with
      | some _ => some { f with psize := (wt.psize (instr - modBase)).getD f.psize }
      | none => some f

def symbOfW (w : World) (mtbl : List RangeMap.Entry) (ftbls : List (List RangeMap.Entry))
    (wts : List WinTables) (instr : Nat) : Option Nat × Option FuncInfo :=
  match moduleAt mtbl instr with
  | none => (none, none)
  | some i =>
    match w.mods[i]?, (w.syms[i]?).join, ftbls[i]? with
    | some m, some sf, some ft => (some i, fillSymbolW sf ft (wts[i]?.getD WinTables.empty) m.base instr)
    | _, _, _ => (some i, none)

/-! ### `CfiStackWalker<CONTEXT_X86>` ↔ C07's `Walker` / `Caller` -/

def x86Vals (c : Ctx) : Win.Vars :=
  Win.x86Regs.map fun r => (r, UInt32.ofNat (c.raw .x86 r))

def winWalker (mem : Mem) (callee : Frame) (grand : Option Frame) : Win.Walker :=
  { hasGC := grand.isSome
    gcParam := UInt32.ofNat ((grand.bind fun g => g.func.map (·.psize)).getD 0)
    reg := fun n => if Win.x86Regs.contains n then (callee.ctx.get .x86 n).map UInt32.ofNat else none
    mem := fun a => (mem.read a 4).map UInt32.ofNat }

def callerOfCtx (c : Ctx) : Win.Caller :=
  Win.Caller.init (x86Vals c) (fun r => c.hasLit r)

def ctxOfCaller (c : Win.Caller) : Ctx :=
  let v := fun r => ((c.vals.get r).getD 0).toNat
  { ip := v "eip", sp := v "esp",
    rest := (Win.x86Regs.filter fun r => r ≠ "eip" ∧ r ≠ "esp").map fun r => (r, v r),
    valid := some c.valid }

def cfiOutOfCaller (c : Win.Caller) : CfiOut :=
  { ctx := { ctxOfCaller c with valid := none }, valid := c.valid }

/-- x86 `get_caller_by_cfi` through `SymbolFile::walk_frame` with STACK WIN records -/
def cfiWalkW (w : World) (mtbl : List RangeMap.Entry) (ctbls : List (List RangeMap.Entry))
    (wts : List WinTables) (mem : Mem) (callee : Frame) (grand : Option Frame) : Option Ctx :=
  match moduleAt mtbl callee.instruction with
  | none => none
  | some i =>
    match w.mods[i]?, (w.syms[i]?).join, ctbls[i]? with
    | some m, some sf, some ct =>
      if callee.instruction < m.base then none
      else
        let addr := callee.instruction - m.base
        let wt := wts[i]?.getD WinTables.empty
        let (fd, fpo) := wt.at addr
        match Win.winResult Win.clearNamesActual fd fpo (winWalker mem callee grand) (callerOfCtx callee.ctx) with
        | .panic _ => none
        | .ok (true, c) => some (ctxOfCaller c)
        | .ok (false, c) =>
          -- STACK CFI on the walker as STACK WIN left it
          let o := cfiOutOfCaller c
          (walkFrameCfi sf ct m.base { arch := .x86, callee := callee.ctx, mem := mem }
            { o with ctx := { o.ctx with valid := callee.ctx.valid } } callee.instruction).map fun o =>
              { o.ctx with valid := some o.valid }
    | _, _, _ => none

/-- has the module list any STACK WIN record at all? -/
def noWins (wins : List (List Win.Rec)) : Bool := wins.all fun l => l.isEmpty

def cfiOfW (arch : Arch) (w : World) (mtbl : List RangeMap.Entry) (ctbls : List (List RangeMap.Entry))
    (wts : List WinTables) (mask : Nat) (mem : Mem) (callee : Frame) (grand : Option Frame) : Option Ctx :=
  if effArch arch callee.ctx = .x86 then
    if !callee.ctx.hasLit "esp" then none
    else cfiWalkW w mtbl ctbls wts mem callee grand
  else cfiOf arch w mtbl ctbls mask mem callee grand

/-- The environment of a concrete walk whose symbol files may carry STACK WIN records
    (`wins`: per module, by position). -/
def mkEnvW (arch : Arch) (os : Os) (w : World) (wins : List (List Win.Rec)) (mem : Mem) : Env :=
  let mtbl := modTable w.mods
  let ftbls := w.syms.map fun s => match s with
    | some sf => funcTable sf
    | none => []
  let ctbls := cfiTables w
  let wts := wins.map winTables
  let bits := if arch = .arm64old then Consts.arm64old_ptrauth_bits else Consts.arm64_ptrauth_bits
  let mask := ptrAuthMask w mtbl bits
  { arch := arch, os := os,
    cfi := cfiOfW arch w mtbl ctbls wts mask mem,
    instrOk := instrOkOf w mtbl ftbls,
    symb := symbOfW w mtbl ftbls wts,
    mask := mask }

end MdModel.Walk
