/-
  MdModel.Walk.Sym — module lists and symbol records as the walker sees them:

    MinidumpModuleList::{from_modules, module_at_address, by_addr}     minidump.rs:1473-1513
    SymbolFile::fill_symbol (FUNC lookup, PUBLIC fallback)              sym_file/mod.rs:340-489
    instruction_seems_valid_by_symbols                                  lib.rs:825-906
    fill_source_line_info                                               lib.rs:681-703
    ptr_auth_strip's mask                                               arm64.rs:230-286

  Range tables are the ones of `MdModel.RangeMap` (property C08). A symbol file is a list of
  records (`FUNC`, `PUBLIC`, `STACK CFI INIT` with its `STACK CFI` lines); turning symbol *text* into
  records is the parser's business (C09/C10) — the harness renders the same records to text.
-/
import MdModel.Walk.Unwind
import MdModel.RangeMap
namespace MdModel.Walk
open MdModel

structure Module where
  base : Nat
  size : Nat
  name : String
  deriving Repr, Inhabited

structure FuncRec where
  addr : Nat
  size : Nat
  psize : Nat
  name : String
  deriving Repr, Inhabited

structure PubRec where
  addr : Nat
  psize : Nat
  name : String
  deriving Repr, Inhabited

/-- `STACK CFI INIT addr size rules` followed by its `STACK CFI addr rules` lines -/
structure CfiRec where
  addr : Nat
  size : Nat
  init : String
  adds : List (Nat × String)
  deriving Repr, Inhabited

structure SymFile where
  funcs : List FuncRec := []
  pubs : List PubRec := []
  cfis : List CfiRec := []
  deriving Repr, Inhabited

/-- `modules_by_addr`: `(module.memory_range(), index)` through `into_rangemap_safe` -/
def modTable (mods : List Module) : List RangeMap.Entry :=
  RangeMap.safeVec (mods.zipIdx.map fun (m, i) => (RangeMap.mkRange m.base m.size, i))

/-- `module_at_address` (index into the module list) -/
def moduleAt (tbl : List RangeMap.Entry) (a : Nat) : Option Nat := RangeMap.get tbl a

/-- `SymbolFile::functions`: FUNC records with a `memory_range()`, through the parser's
    `into_rangemap_safe`; the value is the index of the record. -/
def funcTable (sf : SymFile) : List RangeMap.Entry :=
  RangeMap.safeVecP (sf.funcs.zipIdx.filterMap fun (f, i) =>
    (RangeMap.mkRange f.addr f.size).map fun r => (r, i))

/-- `SymbolFile::cfi_stack_info` -/
def cfiTable (sf : SymFile) : List RangeMap.Entry :=
  RangeMap.safeVecP (sf.cfis.zipIdx.filterMap fun (c, i) =>
    (RangeMap.mkRange c.addr c.size).map fun r => (r, i))

/-- derived `Ord` of `PublicSymbol`: `(address, name, parameter_size)` -/
def pubLe (p q : PubRec) : Bool :=
  p.addr < q.addr || (p.addr == q.addr && (p.name < q.name || (p.name == q.name && p.psize ≤ q.psize)))

/-- `find_nearest_public`: the last symbol, in sorted order, whose address is `≤ addr` -/
def nearestPublic (pubs : List PubRec) (addr : Nat) : Option PubRec :=
  pubs.foldl (fun best p =>
    if p.addr ≤ addr then
      match best with
      | none => some p
      | some b => if pubLe b p then some p else some b
    else best) none

/-- the FUNC nearest below `addr` in the function table (`binary_search_by_key(range.start)` then `idx - 1`):
    the last table entry whose start is `< addr` -/
def prevFunc (tbl : List RangeMap.Entry) (addr : Nat) : Option Nat :=
  tbl.foldl (fun best e => if e.1.lo < addr then some e.2 else best) none

/-- the PUBLIC is cut short by a FUNC that starts after it and before `addr`
    (`public.address <= prev_func.address` ⇒ do not use it) -/
def pubTruncated (sf : SymFile) (ftbl : List RangeMap.Entry) (addr : Nat) (p : PubRec) : Bool :=
  match prevFunc ftbl addr with
  | none => false
  | some i => match sf.funcs[i]? with
    | some f => decide (p.addr ≤ f.addr)
    | none => false

/-- `SymbolFile::fill_symbol` as far as the function is concerned. -/
def fillSymbol (sf : SymFile) (ftbl : List RangeMap.Entry) (modBase instr : Nat) : Option FuncInfo :=
  if instr < modBase then none
  else
    let addr := instr - modBase
    match RangeMap.get ftbl addr with
    | some i =>
      match sf.funcs[i]? with
      | some f => some { name := f.name, base := f.addr + modBase, psize := f.psize }
      | none => none
    | none =>
      match nearestPublic sf.pubs addr with
      | none => none
      | some p =>
        if pubTruncated sf ftbl addr p then none
        else some { name := p.name, base := p.addr + modBase, psize := p.psize }

/-- modules, and per module (by position) its symbol file if the supplier has one -/
structure World where
  mods : List Module
  syms : List (Option SymFile)
  deriving Inhabited

/-- `fill_source_line_info`: module index and function of an instruction address -/
def symbOf (w : World) (mtbl : List RangeMap.Entry) (ftbls : List (List RangeMap.Entry)) (instr : Nat) :
    Option Nat × Option FuncInfo :=
  match moduleAt mtbl instr with
  | none => (none, none)
  | some i =>
    match w.mods[i]?, (w.syms[i]?).join, ftbls[i]? with
    | some m, some sf, some ft => (some i, fillSymbol sf ft m.base instr)
    | _, _, _ => (some i, none)

/-- `instruction_seems_valid_by_symbols` -/
def instrOkOf (w : World) (mtbl : List RangeMap.Entry) (ftbls : List (List RangeMap.Entry)) (ip : Nat) : Bool :=
  let a := ip - 1          -- `saturating_sub(1)`
  if a = 0 then false
  else match moduleAt mtbl a with
    | none => false
    | some i =>
      match w.mods[i]?, (w.syms[i]?).join, ftbls[i]? with
      | some m, some sf, some ft =>
        (match fillSymbol sf ft m.base a with
         | some f => f.name ≠ ""
         | none => false)
      | _, _, _ => true     -- no symbols for the module: assume valid

def pow2Ge (n : Nat) : Nat → Nat → Nat
  | 0, p => p
  | k + 1, p => if p ≥ n then p else pow2Ge n k (2 * p)

/-- `ptr_auth_strip`: mask from the module that is last by address (its own `base + size`,
    saturating) and the Apple default of 47 bits; `checked_next_power_of_two` overflow ⇒ all ones. -/
def ptrAuthMask (w : World) (mtbl : List RangeMap.Entry) (bits : Nat) : Nat :=
  let maxMod : Nat :=
    match mtbl.getLast? with
    | none => 0
    | some e => match w.mods[e.2]? with
      | some m => min (m.base + m.size) U64MAX
      | none => 0
  let maxAddr := max (2 ^ bits - 1) maxMod
  let p := pow2Ge maxAddr 64 1
  if p ≥ maxAddr ∧ p ≤ U64MAX then p - 1 else U64MAX

end MdModel.Walk
