/-
  MdModel.Walk.Unwind — the per-architecture unwinders and the walk loop.

    get_caller_by_frame_pointer   x86.rs:89  amd64.rs:80  arm.rs:74  arm64.rs:105 (= arm64_old.rs)
    get_caller_by_scan            x86.rs:168 amd64.rs:214 arm.rs:156 arm64.rs:288 mips.rs:72,140
    get_caller_frame (technique order + epilogue)   amd64.rs:414 x86.rs:360 arm.rs:275 arm64.rs:414 mips.rs:209
    walk_stack                    lib.rs:729-821

  `get_caller_by_cfi` is the parameter `Env.cfi` (instantiated in `Walk/Cfi.lean`).
  Arithmetic: every `checked_add(..)?` of the code is an explicit range test here; the remaining
  plain `+`/`-` sites are guarded locally in the code (`last_bp + PTR*2` after the `MAX - PTR*2`
  guard, `address_of_ip - PTR` only for `i > 0`, `bp - address_of_bp` only for `bp > address_of_ip`,
  `ip - adj` only for `ip >= 4096`), so no panic outcome exists in this model. (The Windows-x64
  probe used to overflow; repaired in /repo by 90f11fe, which this model follows.)
-/
import MdModel.Walk.Common
namespace MdModel.Walk
open MdModel

/-! ### instruction validation used by scanning (`instruction_seems_valid`) -/

/-- amd64 `is_non_canonical` -/
def nonCanonAmd64 (p : Nat) : Bool :=
  decide (p > Consts.amd64_canon_lo) && decide (p < Consts.amd64_canon_hi)

/-- arm64 `is_non_canonical` -/
def nonCanonArm64 (p : Nat) : Bool :=
  !(decide (Consts.arm64_canon_lo ≤ p) && decide (p ≤ Consts.arm64_canon_hi))

/-- per-architecture pre-filter in front of `instruction_seems_valid_by_symbols` -/
def instrPre (a : Arch) (ip : Nat) : Bool :=
  match a with
  | .x86 => ip != 0
  | .amd64 => !(nonCanonAmd64 ip || ip == 0)
  | .arm => true
  | .arm64 | .arm64old => !(nonCanonArm64 ip || ip == 0)
  | .mips32 | .mips64 => !(decide (ip < Consts.mips_min_ip))

def instrValid (env : Env) (a : Arch) (ip : Nat) : Bool := instrPre a ip && env.instrOk ip

/-! ### the scan loop shared by all architectures

  `for i in 0..count { address_of_ip = last_sp.checked_add(i * ptr)?; ip = read(address_of_ip)?;
                       if instruction_seems_valid(ip) { … return } }`
  Returns `(i, address_of_ip, ip)` of the first accepted word. `n` = iterations left. -/
def scanFrom (ok : Nat → Bool) (mem : Mem) (ptr lim lastSp : Nat) : Nat → Nat → Option (Nat × Nat × Nat)
  | 0, _ => none
  | n + 1, i =>
    let a := lastSp + i * ptr
    if a > lim then none
    else match mem.read a ptr with
      | none => none
      | some ip => if ok ip then some (i, a, ip) else scanFrom ok mem ptr lim lastSp n (i + 1)

/-- scan window in words: 160 for the context frame, 40 otherwise -/
def scanWindow (a : Arch) (t : Trust) : Nat :=
  let (d, e) := match a with
    | .x86 => (Consts.scan_default_x86, Consts.scan_ext_x86)
    | .amd64 => (Consts.scan_default_amd64, Consts.scan_ext_amd64)
    | .arm => (Consts.scan_default_arm, Consts.scan_ext_arm)
    | .arm64 => (Consts.scan_default_arm64, Consts.scan_ext_arm64)
    | .arm64old => (Consts.scan_default_arm64old, Consts.scan_ext_arm64old)
    | .mips32 => (Consts.mips_max_stack / Consts.ptr_mips32, Consts.mips_max_stack / Consts.ptr_mips32)
    | .mips64 => (Consts.mips_max_stack / Consts.ptr_mips64, Consts.mips_max_stack / Consts.ptr_mips64)
  if t = .context then e else d

/-! ### x86 -/

def fpX86 (mem : Mem) (c : Ctx) : Option Ctx :=
  if !c.hasLit "ebp" then none
  else
    let bp := c.raw .x86 "ebp"
    if bp ≥ U32MAX - 8 then none
    else match mem.read (bp + 4) 4 with
      | none => none
      | some ip => match mem.read bp 4 with
        | none => none
        | some cbp =>
          some { ip := ip, sp := bp + 8, rest := [("ebp", cbp)], valid := some ["eip", "esp", "ebp"] }

/-- the `caller_bp` recovery of the x86 scan (x86.rs:231-271). `none` = the `?` on the re-read of
    `address_of_bp` (never taken: the previous iteration read that word). -/
def scanBpX86 (mem : Mem) (lastBp : Option Nat) (i a csp : Nat) : Option (Option Nat) :=
  if i = 0 then some none
  else
    let abp := a - 4
    match mem.read abp 4 with
    | none => none
    | some bp =>
      if bp > a ∧ bp - abp ≤ Consts.gap_x86 then
        some (if (mem.read bp 4).isSome then some bp else none)
      else match lastBp with
        | none => some none
        | some lbp =>
          if lbp ≥ csp then some (if (mem.read lbp 4).isSome then some lbp else none)
          else some none

def scanX86 (env : Env) (mem : Mem) (c : Ctx) (t : Trust) : Option Ctx :=
  if !c.hasLit "esp" then none
  else
    let lastBp := if c.hasLit "ebp" then some (c.raw .x86 "ebp") else none
    match scanFrom (instrValid env .x86) mem 4 U32MAX c.sp (scanWindow .x86 t) 0 with
    | none => none
    | some (i, a, ip) =>
      if a + 4 > U32MAX then none
      else
        let csp := a + 4
        match scanBpX86 mem lastBp i a csp with
        | none => none
        | some cbp =>
          some { ip := ip, sp := csp, rest := [("ebp", cbp.getD 0)],
                 valid := some (["eip", "esp"] ++ (if cbp.isSome then ["ebp"] else [])) }

/-! ### amd64 -/

/-- amd64 `stack_seems_valid` -/
def stackSeemsValid (mem : Mem) (callerSp calleeSp : Nat) : Bool :=
  if callerSp ≤ calleeSp then false else (mem.read callerSp 8).isSome

/-- the `resolve` closure of the amd64 frame-pointer unwinder; `n` iterations left, `k` = offset
    index. A probe address that does not fit `u64` ends the search (`checked_add(..)?`). -/
def resolveAmd64 (mem : Mem) (bp sp step : Nat) : Nat → Nat → Option (Nat × Nat × Nat)
  | 0, _ => none
  | n + 1, k =>
    let off := k * step
    if bp + off > U64MAX then none
    else if bp + off + 8 > U64MAX then none
    else match mem.read (bp + off + 8) 8 with
      | none => none
      | some ip => match mem.read (bp + off) 8 with
        | none => none
        | some cbp =>
          if bp + off + 16 > U64MAX then none
          else
            let csp := bp + off + 16
            if csp ≤ bp ∨ cbp < csp then resolveAmd64 mem bp sp step n (k + 1)
            else match mem.read cbp 8 with
              | none => none
              | some _ =>
                if nonCanonAmd64 ip then resolveAmd64 mem bp sp step n (k + 1)
                else if !stackSeemsValid mem csp sp then resolveAmd64 mem bp sp step n (k + 1)
                else some (ip, cbp, csp)

def fpAmd64 (os : Os) (mem : Mem) (c : Ctx) : Option Ctx :=
  if !c.hasLit "rbp" then none
  else if !c.hasLit "rsp" then none
  else
    let bp := c.raw .amd64 "rbp"
    if bp ≥ U64MAX - 16 then none
    else
      let r := if os = .windows then resolveAmd64 mem bp c.sp Consts.win_probe_step (Consts.win_probe_max + 1) 0
               else resolveAmd64 mem bp c.sp 0 1 0
      match r with
      | none => none
      | some (ip, cbp, csp) =>
        some { ip := ip, sp := csp, rest := [("rbp", cbp)], valid := some ["rip", "rsp", "rbp"] }

/-- amd64.rs:277-313 -/
def scanBpAmd64 (mem : Mem) (lastBp : Option Nat) (i a csp : Nat) : Option (Option Nat) :=
  match lastBp with
  | none => some none
  | some lbp =>
    if i = 0 then some none
    else
      let abp := a - 8
      match mem.read abp 8 with
      | none => none
      | some bp =>
        if lbp = abp ∧ bp > a ∧ bp - abp ≤ Consts.gap_amd64 then
          some (if (mem.read bp 8).isSome then some bp else none)
        else if lbp ≥ csp then some (some lbp)
        else some none

def scanAmd64 (env : Env) (mem : Mem) (c : Ctx) (t : Trust) : Option Ctx :=
  if !c.hasLit "rsp" then none
  else
    let lastBp := if c.hasLit "rbp" then some (c.raw .amd64 "rbp") else none
    match scanFrom (instrValid env .amd64) mem 8 U64MAX c.sp (scanWindow .amd64 t) 0 with
    | none => none
    | some (i, a, ip) =>
      if a + 8 > U64MAX then none
      else
        let csp := a + 8
        match scanBpAmd64 mem lastBp i a csp with
        | none => none
        | some cbp =>
          some { ip := ip, sp := csp, rest := [("rbp", cbp.getD 0)],
                 valid := some (["rip", "rsp"] ++ (if cbp.isSome then ["rbp"] else [])) }

/-! ### ARM (32 bit) -/

def fpArm (os : Os) (mem : Mem) (c : Ctx) : Option Ctx :=
  if os ≠ .ios then none
  else match c.get .arm "r11" with
    | none => none
    | some fp => match c.get .arm "r13" with
      | none => none
      | some sp =>
        if fp ≥ U32MAX - 8 then none
        else if fp = 0 then
          some { ip := 0, sp := sp, rest := [("fp", 0)], valid := some ["r15", "r11", "r13"] }
        else match mem.read fp 4 with
          | none => none
          | some cfp => match mem.read (fp + 4) 4 with
            | none => none
            | some pc =>
              some { ip := pc, sp := fp + 8, rest := [("fp", cfp)], valid := some ["r15", "r11", "r13"] }

def scanArm (env : Env) (mem : Mem) (c : Ctx) (t : Trust) : Option Ctx :=
  match c.get .arm "r13" with
  | none => none
  | some sp =>
    match scanFrom (instrValid env .arm) mem 4 U32MAX sp (scanWindow .arm t) 0 with
    | none => none
    | some (_, a, ip) =>
      if a + 4 > U32MAX then none
      else some { ip := ip, sp := a + 4, rest := [], valid := some ["r15", "r13"] }

/-! ### ARM64 (both context layouts) -/

def fpArm64 (env : Env) (a : Arch) (mem : Mem) (c : Ctx) : Option Ctx :=
  match c.get a "x29" with
  | none => none
  | some fp => match c.get a "sp" with
    | none => none
    | some sp =>
      if fp ≥ U64MAX - 16 then none
      else
        let r : Option (Nat × Nat × Nat) :=
          if fp = 0 then some (0, 0, sp)
          else match mem.read fp 8 with
            | none => none
            | some cfp => match mem.read (fp + 8) 8 with
              | none => none
              | some pc => some (cfp, pc, fp + 16)
        match r with
        | none => none
        | some (cfp, pc, csp) =>
          let cfp := cfp &&& env.mask
          let pc := pc &&& env.mask
          if nonCanonArm64 pc then none
          else some { ip := pc, sp := csp, rest := [("fp", cfp)], valid := some ["pc", "x29", "sp"] }

def scanArm64 (env : Env) (a : Arch) (mem : Mem) (c : Ctx) (t : Trust) : Option Ctx :=
  match c.get a "sp" with
  | none => none
  | some sp =>
    match scanFrom (instrValid env a) mem 8 U64MAX sp (scanWindow a t) 0 with
    | none => none
    | some (_, ad, ip) =>
      if ad + 8 > U64MAX then none
      else some { ip := ip, sp := ad + 8, rest := [], valid := some ["pc", "sp"] }

/-! ### MIPS -/

def scanMips32 (env : Env) (mem : Mem) (c : Ctx) (t : Trust) : Option Ctx :=
  match c.get .mips32 "sp" with
  | none => none
  | some sp0 =>
    let count := Consts.mips_max_stack / Consts.ptr_mips32
    let skip := Consts.mips_min_args * Consts.ptr_mips32
    -- all frames but the topmost: skip the 4 argument words
    let start : Option (Nat × Nat) :=
      if t ≠ .context then (if sp0 + skip > U32MAX then none else some (sp0 + skip, count - Consts.mips_min_args))
      else some (sp0, count)
    match start with
    | none => none
    | some (sp, n) =>
      match scanFrom (instrValid env .mips32) mem 4 U32MAX sp n 0 with
      | none => none
      | some (_, a, ip) =>
        if a + 4 > U32MAX then none
        else some { ip := ip, sp := a + 4, rest := [], valid := some ["pc", "sp"] }

def scanMips64 (env : Env) (mem : Mem) (c : Ctx) : Option Ctx :=
  match c.get .mips64 "sp" with
  | none => none
  | some sp =>
    match scanFrom (instrValid env .mips64) mem 8 U64MAX sp (Consts.mips_max_stack / Consts.ptr_mips64) 0 with
    | none => none
    | some (_, a, ip) =>
      if a + 8 > U64MAX then none
      else some { ip := ip, sp := a + 8, rest := [], valid := some ["pc", "sp"] }

/-! ### technique dispatch and the shared epilogue -/

/-- `get_caller_by_frame_pointer` -/
def byFp (env : Env) (a : Arch) (mem : Mem) (c : Ctx) : Option Ctx :=
  match a with
  | .x86 => fpX86 mem c
  | .amd64 => fpAmd64 env.os mem c
  | .arm => fpArm env.os mem c
  | .arm64 | .arm64old => fpArm64 env a mem c
  | .mips32 | .mips64 => none

/-- `get_caller_by_scan` -/
def byScan (env : Env) (a : Arch) (mem : Mem) (c : Ctx) (t : Trust) : Option Ctx :=
  match a with
  | .x86 => scanX86 env mem c t
  | .amd64 => scanAmd64 env mem c t
  | .arm => scanArm env mem c t
  | .arm64 | .arm64old => scanArm64 env a mem c t
  | .mips32 => scanMips32 env mem c t
  | .mips64 => scanMips64 env mem c

/-- the first technique that yields a frame: cfi, then frame pointer, then scan -/
def candidate (env : Env) (a : Arch) (mem : Mem) (callee : Frame) (grand : Option Frame) :
    Option (Ctx × Trust) :=
  match env.cfi callee grand with
  | some c => some (c, .cfi)
  | none =>
    match byFp env a mem callee.ctx with
    | some c => some (c, .fp)
    | none =>
      match byScan env a mem callee.ctx callee.trust with
      | some c => some (c, .scan)
      | none => none

/-- the checks at the end of every `get_caller_frame` -/
def epilogue (a : Arch) (callee : Frame) (c : Ctx) (t : Trust) : Option Frame :=
  if c.ip < a.nullish then none
  else if c.sp ≤ callee.ctx.sp ∧ !(a.leafOk && callee.trust == .context && c.sp == callee.ctx.sp) then none
  else some { ctx := c, trust := t, instruction := c.ip - a.adj }

/-- `get_caller_frame` -/
def step (env : Env) (mem : Mem) (callee : Frame) (grand : Option Frame) : Option Frame :=
  let a := effArch env.arch callee.ctx
  match candidate env a mem callee grand with
  | none => none
  | some (c, t) => epilogue a callee c t

/-- `fill_source_line_info` -/
def symbolise (env : Env) (f : Frame) : Frame :=
  let r := env.symb f.instruction
  { f with module := r.1, func := if r.1.isSome then r.2 else none }

/-- the loop of `walk_stack` from the moment a new frame `f` has been pushed (`g` = the frame
    before it); `fuel` bounds the number of iterations (see `walk_fuel_enough`). -/
def walkLoop (env : Env) (mem : Mem) : Nat → Frame → Option Frame → List Frame
  | 0, f, _ => [symbolise env f]
  | n + 1, f, g =>
    let f := symbolise env f
    if !mem.inRange f.ctx.sp then [f]
    else match step env mem f g with
      | none => [f]
      | some f' => f :: walkLoop env mem n f' (some f)

/-- fuel that always suffices: one iteration per byte of stack memory, plus two -/
def walkFuel (mem : Mem) : Nat := mem.size + 2

/-- `walk_stack` on `CallStack::with_context(ctx)` with the given stack memory
    (`mem = none`: no stack memory was supplied). -/
def walk (env : Env) (mem : Option Mem) (ctx : Ctx) : List Frame :=
  let f0 := Frame.ofCtx ctx .context
  -- a stack memory without a `memory_range()` is dropped
  match mem.bind (fun m => m.range?.map fun _ => m) with
  | none => [symbolise env f0]
  | some m => walkLoop env m (walkFuel m) f0 none

end MdModel.Walk
