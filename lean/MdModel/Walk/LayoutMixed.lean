/-
  MdModel.Walk.LayoutMixed — C04: the precondition `PreW` of chains whose technique changes from
  frame to frame (`mixed`) and of x86 chains through functions with STACK WIN records (`win`).

  Like `Pre` (Walk/Layout.lean) it is written on memory words, range-table lookups and the
  *text* of the records — never on the unwinders or the STACK CFI / STACK WIN evaluators:
  a record is recognised by matching its token list against the shapes the generator emits
  (`matchCanonical`, `matchWin`), and what the frame must look like is then stated directly
  (where the return address, the saved registers, the caller's stack pointer are).

  Per frame the state is: lookup address, ip, sp, the frame pointer if valid, the link register
  (first frame), the parameter size recorded on the frame below (grand callee) and the known
  callee-saved registers.
-/
import MdModel.Walk.Layout
namespace MdModel.Walk
open MdModel

structure MState where
  instr : Nat
  ip : Nat
  sp : Nat
  fp : Option Nat
  lr : Nat
  first : Bool
  gcp : Nat
  regs : List (String × Nat)
  deriving Repr, Inhabited

/-! ### shapes of the records the generator emits -/

/-! STACK CFI records are recognised on the CLASSIFIED tokens of the rule text (`tokenize`,
    Walk/Cfi.lean: `split_ascii_whitespace`, the `REG:` test of `parse_cfi_exprs`, the `match token`
    classification of `eval_cfi_expr` — the lexer, no evaluation), as `linkCfi` (Walk/Layout.lean)
    does. A literal is the `u64` bit pattern the lexer reads (`-16` ↦ `2^64 - 16`). -/

/-- `r: .cfa LIT + ^` groups: `(register, bit pattern of the literal)` -/
def cfiGroups : List RTok → Option (List (String × Nat))
  | [] => some []
  | .label (.other r) :: .tok .cfa :: .tok (.lit v) :: .tok .add :: .tok .deref :: rest =>
    (cfiGroups rest).map fun l => (r, v) :: l
  | _ => none

/-- `.cfa: $sp N + .ra: .cfa -W + ^ [r: .cfa -OFF + ^]*` → `(N, saved registers with their literals)`;
    the stack pointer spelled with or without the dumper's `$` -/
def matchCanonical (a : Arch) (toks : List RTok) : Option (Nat × List (String × Nat)) :=
  match toks with
  | .label .cfa :: .tok sp :: .tok (.lit n) :: .tok .add ::
      .label .ra :: .tok .cfa :: .tok (.lit w) :: .tok .add :: .tok .deref :: rest =>
    if (sp = .dollar a.spName ∨ sp = .bare a.spName) ∧ w = 2 ^ 64 - a.ptr then
      (cfiGroups rest).map fun saved => (n, saved)
    else none
  | _ => none

/-! STACK WIN programs are recognised on the token list the lexer of `eval_win_expr` produces
    (`Win.tokenize`: `split_ascii_whitespace`, the `=tok` split, the `match token` classification —
    C07's model of the lexer, no evaluation) and on whether the raw text contains `@` (the
    `.raSearch` rule of `eval_win_expr` looks at the raw text). Offsets are `i32` literals as
    the lexer reads them (a decimal that does not fit `i32` is not a literal). -/

/-- the registers a `$r $T0 OFF - ^ =` group may name -/
def winRegOfVar (v : String) : Option String :=
  if v = "$ebx" then some "ebx" else if v = "$esi" then some "esi" else if v = "$edi" then some "edi"
  else none

/-- `$r $T0 OFF - ^ =` groups -/
def winGroups : List Win.Tok → Option (List (String × Nat))
  | [] => some []
  | .var r :: .var t :: .lit off :: .sub :: .deref :: .assign :: rest =>
    if t = "$T0" then
      match winRegOfVar r, winGroups rest with
      | some n, some l => some ((n, off.toNat) :: l)
      | _, _ => none
    else none
  | _ => none

inductive WinShape where
  /-- `$T0 $ebp = $eip $T0 4 + ^ = $ebp $T0 ^ = $esp $T0 8 + =` + saved registers below `$T0` -/
  | std (saved : List (String × Nat))
  /-- `$T0 .raSearch = $eip $T0 ^ = $esp $T0 4 + = $ebp $T0 4 - ^ =` … `$T1 $esp 16 @ =` -/
  | raAt (saved : List (String × Nat))
  /-- `$T0 .raSearch = $eip $T0 ^ = $esp $T0 4 + =` then `$ebp $T0 OFF - ^ =` or `$ebp $ebp =` -/
  | ra (ebpOff : Option Nat) (saved : List (String × Nat))
  deriving Repr

/-- `$T0 $ebp = $eip $T0 4 + ^ = $ebp $T0 ^ = $esp $T0 8 + =` -/
def stdPrefix : List Win.Tok :=
  [.var "$T0", .var "$ebp", .assign, .var "$eip", .var "$T0", .lit 4, .add, .deref, .assign,
   .var "$ebp", .var "$T0", .deref, .assign, .var "$esp", .var "$T0", .lit 8, .add, .assign]
/-- `$L $T0 .cbSavedRegs - = $P $T0 8 + .cbParams + =` -/
def msvcGroup : List Win.Tok :=
  [.var "$L", .var "$T0", .var ".cbSavedRegs", .sub, .assign,
   .var "$P", .var "$T0", .lit 8, .add, .var ".cbParams", .add, .assign]
/-- `$T0 .raSearch = $eip $T0 ^ = $esp $T0 4 + =` -/
def raPrefix : List Win.Tok :=
  [.var "$T0", .var ".raSearch", .assign, .var "$eip", .var "$T0", .deref, .assign,
   .var "$esp", .var "$T0", .lit 4, .add, .assign]
/-- `$ebp $T0 4 - ^ =` -/
def raAtEbp : List Win.Tok := [.var "$ebp", .var "$T0", .lit 4, .sub, .deref, .assign]
/-- `$ebp $ebp =` -/
def raSelfEbp : List Win.Tok := [.var "$ebp", .var "$ebp", .assign]
/-- `$T1 $esp 16 @ =` -/
def atTrailer : List Win.Tok := [.var "$T1", .var "$esp", .lit 16, .align, .assign]

def stripPrefix (pre l : List Win.Tok) : Option (List Win.Tok) :=
  if pre.isPrefixOf l then some (l.drop pre.length) else none

def stripSuffix (suf l : List Win.Tok) : Option (List Win.Tok) :=
  if suf.isSuffixOf l then some (l.take (l.length - suf.length)) else none

def matchWinToks (hasAt : Bool) (toks : List Win.Tok) : Option WinShape :=
  match stripPrefix stdPrefix toks with
  | some rest =>
    if hasAt then none
    else
      let rest := (stripPrefix msvcGroup rest).getD rest
      (winGroups rest).map WinShape.std
  | none =>
    match stripPrefix raPrefix toks with
    | none => none
    | some rest =>
      match stripSuffix atTrailer rest with
      | some mid =>
        if !hasAt then none
        else match stripPrefix raAtEbp mid with
          | some gs => (winGroups gs).map WinShape.raAt
          | none => none
      | none =>
        if hasAt then none
        else match stripPrefix raSelfEbp rest with
          | some gs => (winGroups gs).map (WinShape.ra none)
          | none =>
            match rest with
            | .var r :: .var t :: .lit off :: .sub :: .deref :: .assign :: gs =>
              if r = "$ebp" ∧ t = "$T0" then
                match winGroups gs with
                | some l => some (WinShape.ra (some off.toNat) l)
                | none => none
              else none
            | _ => none

def matchWin (prog : List Char) : Option WinShape :=
  matchWinToks (prog.contains '@') (Win.tokenize prog)

/-! ### lookups -/

/-- the STACK WIN records `walk_frame` finds at `instr` (frame data, FPO) -/
def winAt (w : World) (wins : List (List Win.Rec)) (instr : Nat) : Option Win.SInfo × Option Win.SInfo :=
  match moduleAt (modTable w.mods) instr with
  | none => (none, none)
  | some i =>
    -- `walk_frame` is reached through the module's symbol file: no symbol file, no record
    match w.mods[i]?, (w.syms[i]?).join with
    | some m, some _ =>
      if instr < m.base then (none, none) else (winTables (wins[i]?.getD [])).at (instr - m.base)
    | _, _ => (none, none)

def noRecordAt (w : World) (wins : List (List Win.Rec)) (instr : Nat) : Bool :=
  (cfiRecordAt w instr).isNone && (winAt w wins instr).1.isNone && (winAt w wins instr).2.isNone

/-- architectures / systems on which `get_caller_by_frame_pointer` exists -/
def hasFpTech (a : Arch) (os : Os) : Bool :=
  match a with
  | .x86 | .amd64 | .arm64 | .arm64old => true
  | .arm => os == .ios
  | _ => false

/-- the frame-pointer technique yields nothing for this frame: no such technique, the register is
    not valid, or it is 0 with nothing readable at address 0 (iOS ARM stops on 0 instead) -/
def fpDead (a : Arch) (os : Os) (mem : Mem) (fp : Option Nat) : Bool :=
  !hasFpTech a os || fp.isNone || (fp == some 0 && !(a == .arm && os == .ios) && decide (16 < mem.base))

def maskOf (a : Arch) (mask v : Nat) : Nat :=
  match a with
  | .arm64 | .arm64old => v &&& mask
  | _ => v

def regsFrom (known : List (String × Nat)) (claimed : List (String × Nat))
    (slot : String → Option (Option Nat)) : Bool :=
  claimed.all fun (r, v) =>
    match slot r with
    | some got => got == some v          -- the record sets it: the memory word
    | none => known.lookup r == some v   -- forwarded

/-! ### one frame, per technique -/

def linkCfiM (w : World) (a : Arch) (mask : Nat) (mem : Mem) (st : MState) (e : Exp) : Bool :=
  let p := a.ptr
  -- registers a record may save / a frame may claim: callee-saved ones other than the stack pointer
  let regOk := fun (r : String) => a.calleeSaved.contains r && r != a.spName
  match cfiRecordAt w st.instr with
  | none => false
  | some rec =>
    let toks := tokenize rec.init
    rec.adds.isEmpty && e.regs.all (fun (r, _) => regOk r && r != a.fpName) &&
    if st.first ∧ a.leafOk ∧ toks = leafToks a then
      decide (e.sp = st.sp) && decide (st.lr ≤ a.regMax) && decide (maskOf a mask st.lr = e.ret) &&
      e.fp == st.fp.map (maskOf a mask) &&
      regsFrom st.regs e.regs (fun _ => none)
    else
      match matchCanonical a toks with
      | none => false
      | some (bytes, saved) =>
        -- a slot `OFF` bytes below the CFA (the literal is `-OFF`)
        let offOf := fun (lit : Nat) => 2 ^ 64 - lit
        let slot := fun (r : String) => (saved.lookup r).map fun lit => mem.read (e.sp - offOf lit) p
        decide (e.sp = st.sp + bytes) && decide (p ≤ bytes) &&
        (mem.read (e.sp - p) p).map (maskOf a mask) == some e.ret &&
        saved.all (fun (r, lit) => regOk r && decide (offOf lit ≤ bytes) && decide (2 * p ≤ offOf lit) &&
          (mem.read (e.sp - offOf lit) p).isSome) &&
        (saved.map (·.1)).Nodup &&
        (match slot a.fpName with
         | some got => got.map (maskOf a mask) == e.fp && e.fp.isSome
         | none =>
           -- forwarded (on ARM/ARM64 also above a frame-pointer frame: F28 is fixed); ARM64 strips
           -- the ptr-auth bits of a valid frame pointer after every CFI frame
           e.fp == st.fp.map (maskOf a mask)) &&
        regsFrom st.regs e.regs (fun r => if r = a.fpName then none else slot r)

def linkWinM (w : World) (wins : List (List Win.Rec)) (mem : Mem) (st : MState) (e : Exp) : Bool :=
  let rd := fun (x : Nat) => mem.read x 4
  let saveOk := fun (t0 : Nat) (saved : List (String × Nat)) =>
    saved.all (fun (r, off) => decide (off ≤ t0) && (rd (t0 - off)).isSome &&
      (r == "ebx" || r == "esi" || r == "edi")) && (saved.map (·.1)).Nodup
  let slotOf := fun (t0 : Nat) (saved : List (String × Nat)) (r : String) =>
    (saved.lookup r).map fun off => rd (t0 - off)
  match winAt w wins st.instr with
  | (some si, _) =>
    match si.thing with
    | .abp _ => false
    | .prog prog =>
      match matchWin prog with
      | none => false
      | some (.std saved) =>
        match st.fp with
        | none => false
        | some b =>
          -- `.raSearch` is computed before the first token, whether the program uses it or not
          decide (st.sp + (si.info.loc.toNat + si.info.sav.toNat + st.gcp) ≤ U32MAX) &&
          decide (b + 8 ≤ U32MAX) && rd (b + 4) == some e.ret && rd b == e.fp && e.fp.isSome &&
          decide (e.sp = b + 8) && saveOk b saved && regsFrom [] e.regs (slotOf b saved)
      | some (.raAt saved) =>
        match st.fp with
        | none => false
        | some b =>
          let t0 := b + 4
          decide (t0 + 4 ≤ U32MAX) && rd t0 == some e.ret && rd (t0 - 4) == e.fp && e.fp.isSome &&
          decide (e.sp = t0 + 4) && saveOk t0 saved && regsFrom [] e.regs (slotOf t0 saved)
      | some (.ra ebpOff saved) =>
        let fs := si.info.loc.toNat + si.info.sav.toNat + st.gcp
        let t0 := st.sp + fs
        st.fp.isSome && decide (fs ≤ U32MAX) && decide (t0 + 4 ≤ U32MAX) &&
        rd t0 == some e.ret && decide (e.sp = t0 + 4) &&
        (match ebpOff with
         | some off => decide (off ≤ t0) && rd (t0 - off) == e.fp && e.fp.isSome
         | none => e.fp == st.fp) &&
        saveOk t0 saved && regsFrom [] e.regs (slotOf t0 saved)
  | (none, some si) =>
    match si.thing with
    | .prog _ => false
    | .abp abp =>
      let fs := si.info.loc.toNat + si.info.sav.toNat + st.gcp
      let a0 := st.sp + fs
      -- the "leftover return address": only for the context frame, when the slot holds its own eip
      let a := if st.first ∧ rd a0 = some st.ip then a0 + 4 else a0
      st.fp.isSome && decide (fs ≤ U32MAX) && decide (a + 4 ≤ U32MAX) &&
      rd a == some e.ret && decide (e.sp = a + 4) &&
      (if abp then
         decide (8 ≤ st.sp + st.gcp + si.info.sav.toNat) &&
         rd (st.sp + st.gcp + si.info.sav.toNat - 8) == e.fp && e.fp.isSome
       else e.fp == st.fp) &&
      e.regs.all (fun (r, v) => r == "ebx" && !abp && st.regs.lookup "ebx" == some v)
  | (none, none) => false

/-- scanning, with the x86 recovery of `%ebp` from the word below the return address -/
def linkScanM (env : Env) (a : Arch) (mem : Mem) (st : MState) (e : Exp) : Bool :=
  let p := a.ptr
  let start := if a = .mips32 ∧ !st.first then st.sp + 4 * p else st.sp
  let window := match a with
    | .mips32 => if st.first then 256 else 252
    | .mips64 => 128
    | _ => if st.first then 160 else 40
  let k := (e.sp - p - start) / p
  let addrOfIp := start + k * p
  -- the word below the return address, when it is taken for the caller's frame pointer (x86)
  let bpWord : Option Nat :=
    if a = .x86 ∧ 0 < k then
      match mem.read (addrOfIp - 4) 4 with
      | some v => if v > addrOfIp ∧ v - (addrOfIp - 4) ≤ 131072 ∧ (mem.read v 4).isSome then some v else none
      | none => none
    else none
  decide (start + p ≤ e.sp) && decide (e.sp = start + k * p + p) && decide (k < window) &&
  decide (e.sp ≤ a.regMax) &&
  (List.range k).all (fun j =>
    match mem.read (start + j * p) p with
    | some w => !instrValid env a w
    | none => false) &&
  mem.read addrOfIp p == some e.ret && instrValid env a e.ret &&
  e.fp == bpWord && e.regs.isEmpty

def linkMixed (w : World) (wins : List (List Win.Rec)) (env : Env) (a : Arch) (os : Os) (mem : Mem)
    (st : MState) (e : Exp) : Bool :=
  decide (4096 ≤ e.ret) && decide (e.sp ≤ a.regMax) && decide (e.ret ≤ a.regMax) &&
  (decide (st.sp < e.sp) || (st.first && a.leafOk && decide (st.sp = e.sp))) &&
  if e.tech = "win" then a == .x86 && linkWinM w wins mem st e
  else if e.tech = "cfi" then
    (winAt w wins st.instr).1.isNone && (winAt w wins st.instr).2.isNone && linkCfiM w a env.mask mem st e
  else if e.tech = "fp" then
    noRecordAt w wins st.instr && hasFpTech a os && e.regs.isEmpty &&
    (match st.fp with
     | some f => linkFp a os env.mask mem st.sp f e
     | none => false)
  else if e.tech = "scan" then
    noRecordAt w wins st.instr && fpDead a os mem st.fp && linkScanM env a mem st e
  else false

/-- the generated end of the stack: no record for the outermost frame, a dead frame pointer or the
    record `(0, 0)`, zero words from its stack pointer to the end of the stack memory -/
def endMixed (w : World) (wins : List (List Win.Rec)) (a : Arch) (os : Os) (mem : Mem) (st : MState) : Bool :=
  let p := a.ptr
  noRecordAt w wins st.instr && decide (16 < mem.base) && zerosFrom mem p st.sp &&
  (fpDead a os mem st.fp || (a == .arm && os == .ios && st.fp == some 0) ||
   match st.fp with
   | some f => decide (st.sp ≤ f) && mem.read f p == some 0 && mem.read (f + p) p == some 0 &&
               decide (f + 2 * p < a.regMax) &&
               -- Windows x86-64 goes on probing 16 bytes at a time: the record is word-aligned above sp
               (!(a == .amd64 && os == .windows) || decide ((f - st.sp) % 8 = 0))
   | none => false)

def nextState (env : Env) (a : Arch) (st : MState) (e : Exp) : MState :=
  { instr := e.ret - a.adj, ip := e.ret, sp := e.sp, fp := e.fp, lr := 0, first := false,
    gcp := ((env.symb st.instr).2.map (·.psize)).getD 0,
    regs := e.regs }

def preMixedFrom (w : World) (wins : List (List Win.Rec)) (env : Env) (a : Arch) (os : Os) (mem : Mem) :
    MState → List Exp → Bool
  | st, [] => !mem.inRange st.sp || endMixed w wins a os mem st
  | st, e :: rest =>
    mem.inRange st.sp && linkMixed w wins env a os mem st e &&
    preMixedFrom w wins env a os mem (nextState env a st e) rest

def initState (a : Arch) (ctx : Ctx) : MState :=
  let has := fun r => ctx.has a r
  { instr := ctx.ip, ip := ctx.ip, sp := ctx.sp,
    fp := if has a.fpName then some (ctx.raw a a.fpName) else none,
    lr := ctx.raw a (if a.isMips then "ra" else "lr"), first := true, gcp := 0,
    regs := (a.calleeSaved.filter fun r => r ≠ a.fpName ∧ r ≠ a.spName ∧ ctx.hasLit r).map fun r => (r, ctx.raw a r) }

/-- **The precondition of the C04 statements about per-frame techniques** (`win`, `mixed`):
    `env` must be `mkEnvW … wins …`. STACK WIN records only on x86; the context must have valid
    ip and sp (and lr where the first frame is a leaf). -/
def PreW (w : World) (wins : List (List Win.Rec)) (env : Env) (a : Arch) (os : Os) (mem : Mem) (ctx : Ctx)
    (chain : List Exp) : Bool :=
  mem.range?.isSome && (a == .x86 || noWins wins) &&
  ctx.has a a.ipName && ctx.has a a.spName && (ctx.m64 == (a == .mips64)) &&
  -- register values fit the registers (what the `CONTEXT_xx` of this kind / mode can hold)
  (a.registers.all fun r => decide (ctx.raw a r ≤ a.regMax)) &&
  (!(a.leafOk) || ctx.has a (if a.isMips then "ra" else "lr") ||
     (cfiRecordAt w ctx.ip).all fun r => tokenize r.init ≠ leafToks a) &&
  preMixedFrom w wins env a os mem (initState a ctx) chain

end MdModel.Walk
