/-
  MdModel.Walk.Common — data types shared by the unwinder models:
    architectures, register contexts (`MinidumpContext` = raw registers + validity), the thread's
    stack memory (`MinidumpMemory::get_memory_at_address`, `memory_range`), stack frames and the
    environment a walk runs in.

  Conventions
  * Register values are `Nat` (well-formedness `≤ regMax` is established by the constructors).
  * A context keeps `ip` and `sp` as fields (every unwinder reads them raw, whether valid or not);
    all other registers live in `rest`, keyed by the *canonical* register name
    (`CpuContext::memoize_register`); a missing key reads 0 (`CONTEXT_xx::default()`).
  * `valid = none` is `MinidumpContextValidity::All`; `some names` is the `HashSet` exactly as the
    code fills it — the ARM unwinders insert alias names (`r11`, `r13`, `r15`, `x29`), which
    `register_is_valid` resolves (and so does the ARM `callee_forwarded_regs` since the F28 fix).
-/
import MdModel.Prelude
import MdModel.Gen.WalkConsts
namespace MdModel.Walk
open MdModel

/-- The six context kinds the walker dispatches on (`get_caller_frame` in lib.rs); `mips` is split
    at run time by the `CONTEXT_MIPS64` flag of the context (`Mips32Context::try_from`). -/
inductive Arch where
  | x86 | amd64 | arm | arm64 | arm64old | mips32 | mips64
  deriving DecidableEq, Repr, Inhabited

/-- Only these distinctions of `system_info.os` are observed by the unwinders. -/
inductive Os where
  | windows | ios | other
  deriving DecidableEq, Repr, Inhabited

/-- `FrameTrust` values the walker can produce (`None`, `CfiScan`, `PreWalked` never are). -/
inductive Trust where
  | context | cfi | fp | scan
  deriving DecidableEq, Repr, Inhabited

def Trust.str : Trust → String
  | .context => "context" | .cfi => "cfi" | .fp => "frame_pointer" | .scan => "scan"

namespace Arch

/-- `POINTER_WIDTH` -/
def ptr : Arch → Nat
  | x86 => Consts.ptr_x86 | amd64 => Consts.ptr_amd64 | arm => 4 | arm64 => 8 | arm64old => 8
  | mips32 => Consts.ptr_mips32 | mips64 => Consts.ptr_mips64

/-- the largest value of `CpuContext::Register` / `Pointer` -/
def regMax : Arch → Nat
  | x86 | arm | mips32 => U32MAX
  | _ => U64MAX

/-- `frame.instruction = ip - adj` -/
def adj : Arch → Nat
  | x86 => Consts.adj_x86 | amd64 => Consts.adj_amd64 | arm => Consts.adj_arm
  | arm64 => Consts.adj_arm64 | arm64old => Consts.adj_arm64old
  | mips32 | mips64 => Consts.adj_mips

/-- `if frame.context.get_instruction_pointer() < 4096 { return None }` -/
def nullish : Arch → Nat
  | x86 => Consts.nullish_x86 | amd64 => Consts.nullish_amd64 | arm => Consts.nullish_arm
  | arm64 => Consts.nullish_arm64 | arm64old => Consts.nullish_arm64old
  | mips32 | mips64 => Consts.nullish_mips

/-- architectures whose epilogue has the `is_leaf` exception -/
def leafOk : Arch → Bool
  | x86 | amd64 => false
  | _ => true

def isMips : Arch → Bool
  | mips32 | mips64 => true
  | _ => false

def ipName : Arch → String
  | x86 => "eip" | amd64 => "rip" | _ => "pc"
def spName : Arch → String
  | x86 => "esp" | amd64 => "rsp" | _ => "sp"

/-- `CpuContext::REGISTERS` -/
def registers : Arch → List String
  | x86 => ["eip", "esp", "ebp", "ebx", "esi", "edi", "eax", "ecx", "edx", "eflags"]
  | amd64 => ["rax", "rdx", "rcx", "rbx", "rsi", "rdi", "rbp", "rsp", "r8", "r9", "r10", "r11",
              "r12", "r13", "r14", "r15", "rip"]
  | arm => ["r0", "r1", "r2", "r3", "r4", "r5", "r6", "r7", "r8", "r9", "r10", "r12", "fp", "sp",
            "lr", "pc"]
  | arm64 | arm64old =>
    ["x0", "x1", "x2", "x3", "x4", "x5", "x6", "x7", "x8", "x9", "x10", "x11", "x12", "x13", "x14",
     "x15", "x16", "x17", "x18", "x19", "x20", "x21", "x22", "x23", "x24", "x25", "x26", "x27",
     "x28", "fp", "lr", "sp", "pc"]
  | mips32 | mips64 =>
    ["gp", "sp", "fp", "ra", "pc", "s0", "s1", "s2", "s3", "s4", "s5", "s6", "s7"]

/-- `CpuContext::memoize_register`: canonical name of a register name or alias. -/
def canon (a : Arch) (name : String) : Option String :=
  match a with
  | arm =>
    if name = "r11" then some "fp" else if name = "r13" then some "sp"
    else if name = "r14" then some "lr" else if name = "r15" then some "pc"
    else if a.registers.contains name then some name else none
  | arm64 | arm64old =>
    if name = "x29" then some "fp" else if name = "x30" then some "lr"
    else if a.registers.contains name then some name else none
  | _ => if a.registers.contains name then some name else none

/-- names looked up in the validity set by `register_is_valid(reg, Some(which))` -/
def aliases (a : Arch) (name : String) : List String :=
  match a with
  | arm =>
    if name = "r11" ∨ name = "fp" then ["r11", "fp"]
    else if name = "r13" ∨ name = "sp" then ["r13", "sp"]
    else if name = "r14" ∨ name = "lr" then ["r14", "lr"]
    else if name = "r15" ∨ name = "pc" then ["r15", "pc"]
    else [name]
  | arm64 | arm64old =>
    if name = "x29" ∨ name = "fp" then ["x29", "fp"]
    else if name = "x30" ∨ name = "lr" then ["x30", "lr"]
    else [name]
  | _ => [name]

/-- `CALLEE_SAVED_REGS` -/
def calleeSaved : Arch → List String
  | x86 => ["ebp", "ebx", "edi", "esi"]
  | amd64 => ["rbx", "rbp", "r12", "r13", "r14", "r15"]
  | arm => ["r4", "r5", "r6", "r7", "r8", "r9", "r10", "fp"]
  | arm64 | arm64old => ["x19", "x20", "x21", "x22", "x23", "x24", "x25", "x26", "x27", "x28", "fp"]
  | mips32 | mips64 => ["s0", "s1", "s2", "s3", "s4", "s5", "s6", "s7", "gp", "sp", "fp"]

def str : Arch → String
  | x86 => "x86" | amd64 => "amd64" | arm => "arm" | arm64 => "arm64" | arm64old => "arm64old"
  | mips32 => "mips32" | mips64 => "mips64"

def ofStr : String → Option Arch
  | "x86" => some x86 | "amd64" => some amd64 | "arm" => some arm | "arm64" => some arm64
  | "arm64old" => some arm64old | "mips32" => some mips32 | "mips64" => some mips64
  | _ => none

end Arch

/-- A register context: `MinidumpContext { raw, valid }`. -/
structure Ctx where
  ip : Nat
  sp : Nat
  rest : List (String × Nat) := []
  valid : Option (List String) := none
  /-- `context_flags` has `CONTEXT_MIPS64` (MIPS only; `CONTEXT_MIPS::default()` has it clear) -/
  m64 : Bool := false
  deriving Repr, Inhabited

def assocGet (l : List (String × Nat)) (k : String) : Nat :=
  match l with
  | [] => 0
  | (k', v) :: t => if k' = k then v else assocGet t k

def assocSet (l : List (String × Nat)) (k : String) (v : Nat) : List (String × Nat) :=
  match l with
  | [] => [(k, v)]
  | (k', v') :: t => if k' = k then (k, v) :: t else (k', v') :: assocSet t k v

namespace Ctx

/-- `get_register_always` (raw value, canonical slot). An unknown name is `unreachable!()` in the
    code; it is never reached because every caller tests `register_is_valid` first and validity
    sets hold only names of the context type. -/
def raw (a : Arch) (c : Ctx) (name : String) : Nat :=
  match a.canon name with
  | none => 0
  | some s => if s = a.ipName then c.ip else if s = a.spName then c.sp else assocGet c.rest s

/-- `set_register`: `None` for a name the context type does not know. -/
def set (a : Arch) (c : Ctx) (name : String) (v : Nat) : Option Ctx :=
  match a.canon name with
  | none => none
  | some s =>
    if s = a.ipName then some { c with ip := v }
    else if s = a.spName then some { c with sp := v }
    else some { c with rest := assocSet c.rest s v }

/-- `register_is_valid` -/
def has (a : Arch) (c : Ctx) (name : String) : Bool :=
  match c.valid with
  | none => (a.canon name).isSome
  | some which => (a.aliases name).any fun n => which.contains n

/-- `which.contains(name)` / `All` — the literal test `callee_forwarded_regs` and the x86/amd64
    unwinders perform (no alias resolution). -/
def hasLit (c : Ctx) (name : String) : Bool :=
  match c.valid with
  | none => true
  | some which => which.contains name

/-- `get_register(name, valid)`; the MIPS32 wrapper truncates (`as u32`). -/
def get (a : Arch) (c : Ctx) (name : String) : Option Nat :=
  if c.has a name then
    some (if a = .mips32 then c.raw a name % 2 ^ 32 else c.raw a name)
  else none

end Ctx

/-- The thread's stack memory: `MinidumpMemory { base_address, size = bytes.len(), bytes, endian }`.
    `be` = the dump is big-endian (`get_memory_at_address` reads with the dump's byte order);
    the default is little endian, so `{ base := b, bytes := x }` is what it was before. -/
structure Mem where
  base : Nat
  bytes : Array UInt8
  be : Bool := false
  deriving Inhabited

namespace Mem

def size (m : Mem) : Nat := m.bytes.size

/-- `memory_range()`: `None` iff `size == 0` or `base.checked_add(size)` overflows. -/
def range? (m : Mem) : Option (Nat × Nat) :=
  if m.size = 0 then none
  else if m.base + m.size > U64MAX then none
  else some (m.base, m.base + m.size - 1)

def byte (m : Mem) (i : Nat) : Nat := (m.bytes[i]?.getD 0).toNat

/-- little-endian value of `w` bytes at offset `off` -/
def leAt (m : Mem) (off : Nat) : Nat → Nat
  | 0 => 0
  | w + 1 => m.byte off + 256 * leAt m (off + 1) w

/-- big-endian value of `w` bytes at offset `off` -/
def beAt (m : Mem) (off : Nat) : Nat → Nat
  | 0 => 0
  | w + 1 => m.byte off * 256 ^ w + beAt m (off + 1) w

/-- value of `w` bytes at offset `off` in the memory's byte order (`readWordLE` / `readWordBE`) -/
def wordAt (m : Mem) (off w : Nat) : Nat := if m.be then m.beAt off w else m.leAt off w

/-- `get_memory_at_address::<uN>(addr)`: `addr.checked_sub(base)?`, then `pread_with` of `w` bytes
    in the dump's byte order. -/
def read (m : Mem) (addr w : Nat) : Option Nat :=
  if addr < m.base then none
  else
    let off := addr - m.base
    if off + w ≤ m.size then some (m.wordAt off w) else none

/-- `memory_range().is_some_and(|r| r.contains(sp))` -/
def inRange (m : Mem) (sp : Nat) : Bool :=
  match m.range? with
  | none => false
  | some (lo, hi) => lo ≤ sp && sp ≤ hi

end Mem

/-- What `fill_symbol` recorded on a frame. -/
structure FuncInfo where
  name : String
  base : Nat
  psize : Nat
  deriving Repr, Inhabited, DecidableEq

/-- `StackFrame` (the fields the property talks about; `resume_address` is `ctx.ip`:
    `from_context` sets both from the context and nothing modifies either afterwards). -/
structure Frame where
  ctx : Ctx
  trust : Trust
  instruction : Nat
  module : Option Nat := none
  func : Option FuncInfo := none
  deriving Repr, Inhabited

/-- `StackFrame::from_context` -/
def Frame.ofCtx (c : Ctx) (t : Trust) : Frame := { ctx := c, trust := t, instruction := c.ip }

/-- architecture a frame is unwound with (`Mips32Context::try_from` looks at the frame's own flags) -/
def effArch (a : Arch) (c : Ctx) : Arch :=
  if a.isMips then (if c.m64 then .mips64 else .mips32) else a

/-- Everything a walk depends on besides the context frame. The three function fields are
    *parameters*: C05's theorems hold for arbitrary ones (whatever a symbol file says), the
    driver and C04 instantiate them from module lists and symbol records (`Walk/Sym.lean`). -/
structure Env where
  arch : Arch
  os : Os
  /-- `get_caller_by_cfi callee grand_callee`: the caller context CFI/STACK WIN evaluation yields -/
  cfi : Frame → Option Frame → Option Ctx
  /-- `instruction_seems_valid_by_symbols` -/
  instrOk : Nat → Bool
  /-- `fill_source_line_info`: module index and function for an instruction address -/
  symb : Nat → Option Nat × Option FuncInfo
  /-- `ptr_auth_strip`'s mask (ARM64) -/
  mask : Nat

end MdModel.Walk
