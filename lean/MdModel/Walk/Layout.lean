/-
  MdModel.Walk.Layout — C04: calling-convention layouts (placeholder, filled in after C05).
-/
import MdModel.Walk.Cfi
namespace MdModel.Walk
open MdModel

def handleChain (_args : List String) : String := "bad-op"

end MdModel.Walk
