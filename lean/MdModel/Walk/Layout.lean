/-
  MdModel.Walk.Layout — C04: generated call chains and the decidable precondition `Pre` under which
  the walker must return exactly the generated chain.

  A chain is the list of expected caller frames (`Exp`: return address, stack pointer, recovered
  frame pointer). `Pre` states, per technique, what "laid out by the calling convention /
  described by STACK CFI / findable only by scanning" means for a concrete (context, stack memory,
  modules, symbol records) tuple. It is written in terms of memory words, range-table lookups and
  the by-symbols validity of a word — NOT in terms of the unwinders (`byFp`, `byScan`, `evalCfi`,
  `walk`), so that an agreement of model and code on a wrong chain cannot hide behind it.
  The `chain` engine asks the driver to evaluate `Pre` on every generated case.
-/
import MdModel.Walk.Cfi
import MdModel.Walk.WinWalk
namespace MdModel.Walk
open MdModel

inductive Technique where
  | fp | cfi | scan | win | mixed
  deriving DecidableEq, Repr, Inhabited

def Technique.ofStr : String → Option Technique
  | "fp" => some .fp | "cfi" => some .cfi | "scan" => some .scan
  | "win" => some .win | "mixed" => some .mixed | _ => none

/-- an expected caller frame; `tech` / `regs` are used by the per-frame (`win`, `mixed`) chains:
    the technique the frame is found by and the recovered callee-saved registers other than the
    frame pointer -/
structure Exp where
  ret : Nat
  sp : Nat
  fp : Option Nat
  tech : String := ""
  regs : List (String × Nat) := []
  deriving Repr, Inhabited

def parseExpRegs (s : String) : Option (List (String × Nat)) :=
  if s = "-" then some []
  else (s.splitOn "/").mapM fun a =>
    match a.splitOn "=" with
    | [n, v] => v.toNat?.map fun x => (n, x)
    | _ => none

def parseExp (s : String) : Option (List Exp) :=
  if !s.startsWith "exp:" then none
  else
    let body := (s.drop 4).toString
    if body = "-" then some []
    else (body.splitOn "|").mapM fun f =>
      match f.splitOn "," with
      | [r, sp, fp, _, _] => do
        let r ← r.toNat?
        let sp ← sp.toNat?
        let fp ← if fp = "-" then some none else fp.toNat?.map some
        some { ret := r, sp := sp, fp := fp }
      | [r, sp, fp, _, _, t] => do
        let r ← r.toNat?
        let sp ← sp.toNat?
        let fp ← if fp = "-" then some none else fp.toNat?.map some
        some { ret := r, sp := sp, fp := fp, tech := if t = "-" then "" else t }
      | [r, sp, fp, _, _, t, regs] => do
        let r ← r.toNat?
        let sp ← sp.toNat?
        let fp ← if fp = "-" then some none else fp.toNat?.map some
        let regs ← parseExpRegs regs
        some { ret := r, sp := sp, fp := fp, tech := if t = "-" then "" else t, regs := regs }
      | _ => none

/-- name under which the frame pointer lives in `Ctx.rest` -/
def Arch.fpName : Arch → String
  | .x86 => "ebp" | .amd64 => "rbp" | _ => "fp"

/-- every pointer-sized word from `sp` to the end of the stack memory is zero (and `sp` is inside) -/
def zerosFrom (mem : Mem) (ptr sp : Nat) : Bool :=
  decide (mem.base ≤ sp) &&
  (List.range ((mem.base + mem.size - sp) / ptr)).all fun j => mem.read (sp + j * ptr) ptr == some 0

/-! ### frame-pointer chains -/

/-- one frame-pointer record: the callee (stack pointer `sp`, frame pointer `fp`) was called from
    a frame with return address `e.ret`, stack pointer `e.sp` and frame pointer `e.fp` -/
def linkFp (a : Arch) (os : Os) (mask : Nat) (mem : Mem) (sp fp : Nat) (e : Exp) : Bool :=
  let nfp := e.fp.getD 0
  e.fp.isSome && decide (4096 ≤ e.ret) && decide (sp < e.sp) &&
  match a with
  | .x86 =>
    decide (fp < U32MAX - 8) && mem.read (fp + 4) 4 == some e.ret && mem.read fp 4 == some nfp &&
    decide (e.sp = fp + 8)
  | .amd64 =>
    -- non-Windows: the record is at `rbp`; Windows: at `rbp + 16k`, k ≤ 15 (slack ≤ 240 bytes),
    -- every smaller probe position holding a zero "saved rbp"
    let k := (e.sp - 16 - fp) / 16
    decide (fp < U64MAX - 16) && decide (fp + 16 ≤ e.sp) && decide (e.sp = fp + 16 * k + 16) &&
    (if os = .windows then decide (k ≤ 15) else decide (k = 0)) &&
    (List.range k).all (fun j => mem.read (fp + 16 * j) 8 == some 0 && (mem.read (fp + 16 * j + 8) 8).isSome) &&
    mem.read (e.sp - 8) 8 == some e.ret && mem.read (e.sp - 16) 8 == some nfp &&
    decide (e.sp ≤ nfp) && (mem.read nfp 8).isSome && !nonCanonAmd64 e.ret && (mem.read e.sp 8).isSome &&
    decide (e.sp ≤ U64MAX)
  | .arm =>
    decide (os = .ios) && decide (fp ≠ 0) && decide (fp < U32MAX - 8) &&
    mem.read fp 4 == some nfp && mem.read (fp + 4) 4 == some e.ret && decide (e.sp = fp + 8)
  | .arm64 | .arm64old =>
    decide (fp ≠ 0) && decide (fp < U64MAX - 16) &&
    mem.read fp 8 == some nfp && mem.read (fp + 8) 8 == some e.ret && decide (e.sp = fp + 16) &&
    decide (nfp &&& mask = nfp) && decide (e.ret &&& mask = e.ret) && !nonCanonArm64 e.ret
  | _ => false

/-- the generated end of a frame-pointer chain: the outermost frame's record is `(0, 0)` and only
    zero words follow up to the end of the stack memory -/
def endFp (a : Arch) (os : Os) (mem : Mem) (sp fp : Nat) : Bool :=
  decide (16 < mem.base) && zerosFrom mem a.ptr sp &&
  match a with
  | .x86 => mem.read fp 4 == some 0 && mem.read (fp + 4) 4 == some 0 && decide (fp < U32MAX - 8)
  | .amd64 => mem.read fp 8 == some 0 && mem.read (fp + 8) 8 == some 0 && decide (fp < U64MAX - 16)
  | .arm => decide (os = .ios) && mem.read fp 4 == some 0 && mem.read (fp + 4) 4 == some 0 && decide (fp < U32MAX - 8)
  | .arm64 | .arm64old => mem.read fp 8 == some 0 && mem.read (fp + 8) 8 == some 0 && decide (fp < U64MAX - 16)
  | _ => false

def preFp (a : Arch) (os : Os) (mask : Nat) (mem : Mem) : Nat → Nat → List Exp → Bool
  | sp, fp, [] => !mem.inRange sp || endFp a os mem sp fp
  | sp, fp, e :: rest =>
    mem.inRange sp && linkFp a os mask mem sp fp e && preFp a os mask mem e.sp (e.fp.getD 0) rest

/-! ### the generator's frame-pointer layout on x86-64, as a function

  The Rust generator of the `chain` engine (`gen_chain`, technique `fp`) lays a frame-pointer chain out
  as follows: stack words `w[0..]` at `base + 8 i`; the context has `rsp = addr s0`, `rbp = addr f0`;
  for every call `(gap, ret)` a record `w[f] = addr f'`, `w[f+1] = ret` with `f' = f + 2 + gap`; the
  outermost record `(0, 0)` and `1 + tail` zero words after it; every other word 0. `chain layout fp`
  (Walk.lean) evaluates it, the engine compares it with the generated stack and chain; `preFp` is
  PROVED of it for all parameters (MdProofs/Lemmas/WalkMixedLayout.lean, `preFp_layout`). -/

/-- little-endian bytes of an 8-byte word -/
def le8 (v : Nat) : List UInt8 := (List.range 8).map fun i => UInt8.ofNat (v / 256 ^ i % 256)

/-- the stack memory with the words `ws` at `base`, `base + 8`, … -/
def wordsMem (base : Nat) (ws : List Nat) : Mem := { base := base, bytes := (ws.flatMap le8).toArray }

/-- address of stack word `i` -/
def wAddr (base i : Nat) : Nat := base + 8 * i

/-- the stack words from index `f` (where the callee's frame pointer points) on -/
def fpTail (base : Nat) (tail : Nat) : Nat → List (Nat × Nat) → List Nat
  | _, [] => [0, 0] ++ List.replicate (1 + tail) 0
  | f, (gap, ret) :: rest =>
    [wAddr base (f + 2 + gap), ret] ++ List.replicate gap 0 ++ fpTail base tail (f + 2 + gap) rest

/-- all stack words: zeros below the first record -/
def fpWords (base f0 tail : Nat) (calls : List (Nat × Nat)) : List Nat :=
  List.replicate f0 0 ++ fpTail base tail f0 calls

/-- the expected chain -/
def fpChain (base : Nat) : Nat → List (Nat × Nat) → List Exp
  | _, [] => []
  | f, (gap, ret) :: rest =>
    { ret := ret, sp := wAddr base (f + 2), fp := some (wAddr base (f + 2 + gap)) } :: fpChain base (f + 2 + gap) rest

/-! ### scanning -/

/-- one scanned frame: `k` junk words (small integers that are not valid instructions) above the
    start of the scan, then the return address, a valid instruction -/
def linkScan (env : Env) (a : Arch) (mem : Mem) (sp : Nat) (first : Bool) (e : Exp) : Bool :=
  let p := a.ptr
  -- MIPS32 skips the four argument words of every frame but the topmost
  let start := if a = .mips32 ∧ !first then sp + 4 * p else sp
  -- the windows of the property text, as literals (NOT the translated constants: a change of the
  -- code's windows must show up as a failing chain, not move the precondition along)
  let window := match a with
    | .mips32 => if first then 256 else 252
    | .mips64 => 128
    | _ => if first then 160 else 40
  let k := (e.sp - p - start) / p
  decide (start + p ≤ e.sp) && decide (e.sp = start + k * p + p) && decide (k < window) &&
  decide (e.sp ≤ a.regMax) && decide (4096 ≤ e.ret) &&
  (List.range k).all (fun j =>
    match mem.read (start + j * p) p with
    | some w => decide (w < 4096) && !instrValid env a w
    | none => false) &&
  mem.read (start + k * p) p == some e.ret && instrValid env a e.ret

def preScanFrom (env : Env) (a : Arch) (mem : Mem) : Nat → Bool → List Exp → Bool
  | sp, _, [] => !mem.inRange sp || zerosFrom mem a.ptr sp
  | sp, first, e :: rest =>
    mem.inRange sp && linkScan env a mem sp first e && preScanFrom env a mem e.sp false rest

/-- scanning is the only technique available: no CFI for any module (checked by the caller through
    the symbol records), and the frame pointer of the context frame is 0 with nothing readable at
    address 0 (on iOS ARM a zero frame pointer ends the walk instead) -/
def preScan (env : Env) (a : Arch) (os : Os) (mem : Mem) (ctx : Ctx) (chain : List Exp) : Bool :=
  decide (4096 ≤ mem.base) && ctx.valid.isNone && decide (ctx.raw a a.fpName = 0) &&
  !(a = .arm && os = .ios) && preScanFrom env a mem ctx.sp true chain

/-! ### canonical STACK CFI -/

/-- `.cfa: $sp N + .ra: .cfa -W + ^ [fp: .cfa -2W + ^]` in the dumper's spelling for `a` -/
def canonicalRule (a : Arch) (bytes : Nat) (savesFp : Bool) : String :=
  let d := if a = .x86 ∨ a = .amd64 ∨ a.isMips then "$" else ""
  let base := s!".cfa: {d}{a.spName} {bytes} + .ra: .cfa -{a.ptr} + ^"
  if savesFp then s!"{base} {d}{a.fpName}: .cfa -{2 * a.ptr} + ^" else base

/-- leaf rule of the first frame on ARM/ARM64/MIPS: `.cfa: sp 0 + .ra: lr` -/
def leafRule (a : Arch) : String :=
  if a.isMips then s!".cfa: $sp 0 + .ra: $ra" else s!".cfa: sp 0 + .ra: lr"

/-! The canonical rules as the evaluator sees them: the CLASSIFIED tokens (`tokenize`, Walk/Cfi.lean)
    of the texts above. `canonicalRule` / `leafRule` are only their renderings in the dumper's
    spelling; the precondition compares token lists, so that the C04 theorems can evaluate a rule
    for a symbolic frame size (an interpolated string does not reduce; a token list does). -/

/-- the stack-pointer token: `$esp` / `$rsp` / `$sp` (x86, x86-64, MIPS), bare `sp` elsewhere -/
def spTok (a : Arch) : ETok :=
  if a = .x86 ∨ a = .amd64 ∨ a.isMips then .dollar a.spName else .bare a.spName

/-- `tokenize (canonicalRule a bytes savesFp)`; `-W` is the `u64` bit pattern of the literal -/
def canonicalToks (a : Arch) (bytes : Nat) (savesFp : Bool) : List RTok :=
  [.label .cfa, .tok (spTok a), .tok (.lit bytes), .tok .add,
   .label .ra, .tok .cfa, .tok (.lit (2 ^ 64 - a.ptr)), .tok .add, .tok .deref] ++
  (if savesFp then
     [.label (.other a.fpName), .tok .cfa, .tok (.lit (2 ^ 64 - 2 * a.ptr)), .tok .add, .tok .deref]
   else [])

/-- `tokenize (leafRule a)` -/
def leafToks (a : Arch) : List RTok :=
  [.label .cfa, .tok (if a.isMips then .dollar "sp" else .bare "sp"), .tok (.lit 0), .tok .add,
   .label .ra, .tok (if a.isMips then .dollar "ra" else .bare "lr")]

/-- `ptr_auth_strip` of a recovered return address / frame pointer (ARM64 only) -/
def stripOf (a : Arch) (mask v : Nat) : Nat :=
  match a with
  | .arm64 | .arm64old => v &&& mask
  | _ => v

/-- the STACK CFI record covering `instr`, through the module and CFI range tables -/
def cfiRecordAt (w : World) (instr : Nat) : Option CfiRec :=
  match moduleAt (modTable w.mods) instr with
  | none => none
  | some i =>
    match w.mods[i]?, (w.syms[i]?).join with
    | some m, some sf =>
      if instr < m.base then none
      else match RangeMap.get (cfiTable sf) (instr - m.base) with
        | some j => sf.cfis[j]?
        | none => none
    | _, _ => none

def linkCfi (w : World) (a : Arch) (mask : Nat) (mem : Mem) (instr sp fp lr : Nat) (first : Bool) (e : Exp) : Bool :=
  let p := a.ptr
  decide (4096 ≤ e.ret) && decide (e.sp ≤ a.regMax) && decide (e.ret ≤ a.regMax) &&
  match cfiRecordAt w instr with
  | none => false
  | some rec =>
    let toks := tokenize rec.init
    rec.adds.isEmpty &&
    if first ∧ a.leafOk ∧ toks = leafToks a then
      decide (e.sp = sp) && decide (lr ≤ a.regMax) && decide (e.ret = stripOf a mask lr) &&
      e.fp == some (stripOf a mask fp)
    else
      let bytes := e.sp - sp
      decide (sp < e.sp) && decide (p ≤ bytes) &&
      (mem.read (e.sp - p) p).map (stripOf a mask) == some e.ret &&
      (if toks = canonicalToks a bytes true then
         decide (2 * p ≤ bytes) && (mem.read (e.sp - 2 * p) p).map (stripOf a mask) == e.fp && e.fp.isSome
       else toks = canonicalToks a bytes false && e.fp == some (stripOf a mask fp))

def preCfiFrom (w : World) (a : Arch) (os : Os) (mask : Nat) (mem : Mem) :
    Nat → Nat → Nat → Nat → Bool → List Exp → Bool
  | instr, sp, fp, _, _, [] =>
    -- the outermost frame: no CFI for it, a zero frame pointer, zeros up to the end of the stack
    !mem.inRange sp ||
      ((cfiRecordAt w instr).isNone && decide (fp = 0) && decide (16 < mem.base) && zerosFrom mem a.ptr sp)
  | instr, sp, fp, lr, first, e :: rest =>
    mem.inRange sp && linkCfi w a mask mem instr sp fp lr first e &&
    preCfiFrom w a os mask mem (e.ret - a.adj) e.sp (e.fp.getD 0) 0 false rest

/-- `mask` = the walk's ptr-auth mask (`Env.mask`; used on ARM64 only) -/
def preCfi (w : World) (a : Arch) (os : Os) (mask : Nat) (mem : Mem) (ctx : Ctx) (chain : List Exp) : Bool :=
  ctx.valid.isNone &&
  preCfiFrom w a os mask mem ctx.ip ctx.sp (ctx.raw a a.fpName)
    (ctx.raw a (if a.isMips then "ra" else "lr")) true chain

/-- symbol files without any STACK CFI record -/
def noCfi (w : World) : Bool :=
  w.syms.all fun s => match s with
    | some sf => sf.cfis.isEmpty
    | none => true

/-- **The precondition of the C04 theorems** for a generated case. -/
def Pre (w : World) (env : Env) (a : Arch) (os : Os) (t : Technique) (mem : Mem) (ctx : Ctx) (chain : List Exp) : Bool :=
  mem.range?.isSome &&
  match t with
  | .fp => noCfi w && ctx.valid.isNone && preFp a os env.mask mem ctx.sp (ctx.raw a a.fpName) chain
  | .scan => noCfi w && preScan env a os mem ctx chain
  | .cfi => preCfi w a os env.mask mem ctx chain
  -- per-frame techniques need the STACK WIN records: see `PreW` (Walk/LayoutMixed.lean)
  | .win | .mixed => false

end MdModel.Walk
