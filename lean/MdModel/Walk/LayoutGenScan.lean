/-
  MdModel.Walk.LayoutGenScan — C04: the scan-only GENERATOR of the `chain` engine (`gen_chain`,
  technique `scan`) as a Lean function of its parameters, generically in the pointer width.

  The context has `sp = addr s0`, frame pointer 0. A frame = `junk` words (each 0 or a small
  integer `< 4096`, never a valid instruction address) followed by the return address. On MIPS32 the
  walker skips the first four words of every frame but the topmost (the argument area): there the
  generator emits at least four junk words and only those after the fourth are scanned. After the
  last frame `tail` zero words (`tail = 0`: the stack ENDS with the outermost return-address slot).
-/
import MdModel.Walk.LayoutGen
namespace MdModel.Walk
open MdModel

/-- one generated frame: the junk words below the return address, the return address -/
structure ScFr where
  junk : List Nat
  ret : Nat
  deriving Repr, Inhabited

def gscanBody : List ScFr → List Nat
  | [] => []
  | c :: rest => c.junk ++ [c.ret] ++ gscanBody rest

def gscanWords (s0 tail : Nat) (frames : List ScFr) : List Nat :=
  List.replicate s0 0 ++ gscanBody frames ++ List.replicate tail 0

/-- the expected chain: `s` = word index of the callee's stack pointer; no frame pointer recovered -/
def gscanChain (p base : Nat) : Nat → List ScFr → List Exp
  | _, [] => []
  | s, c :: rest =>
    { ret := c.ret, sp := pAddr p base (s + c.junk.length + 1), fp := none } ::
      gscanChain p base (s + c.junk.length + 1) rest

/-- words of a frame the walker does not look at (MIPS32, not the topmost frame: 4) -/
def gscanSkip (a : Arch) (first : Bool) : Nat := if a = .mips32 ∧ !first then 4 else 0

/-- the scan windows of the property text -/
def gscanWindow (a : Arch) (first : Bool) : Nat :=
  match a with
  | .mips32 => if first then 256 else 252
  | .mips64 => 128
  | _ => if first then 160 else 40

/-- the side condition on the environment (module list, symbol records — NOT the stack) and the
    parameter ranges: the skipped words exist, the scanned junk words fit the window, are `< 4096`
    and no valid instruction; the return address is a valid instruction `≥ 4096` -/
def gscanFramesOk (env : Env) (a : Arch) : Bool → List ScFr → Bool
  | _, [] => true
  | first, c :: rest =>
    decide (gscanSkip a first ≤ c.junk.length) && decide (c.junk.length - gscanSkip a first < gscanWindow a first) &&
    (c.junk.drop (gscanSkip a first)).all (fun w => decide (w < 4096) && !instrValid env a w) &&
    (c.junk.take (gscanSkip a first)).all (fun w => decide (w ≤ a.regMax)) &&
    decide (4096 ≤ c.ret) && decide (c.ret ≤ a.regMax) && instrValid env a c.ret &&
    gscanFramesOk env a false rest

/-- `gscanFramesOk` without the by-symbols check of the junk words: when every module starts at or
    above 4096 a word `< 4096` is no valid instruction (`junk_not_valid`,
    MdProofs/Lemmas/WalkGenScanJunk.lean), so this implies `gscanFramesOk` (`gscanFramesOk_of_junk`) -/
def gscanFramesOkJ (env : Env) (a : Arch) : Bool → List ScFr → Bool
  | _, [] => true
  | first, c :: rest =>
    decide (gscanSkip a first ≤ c.junk.length) && decide (c.junk.length - gscanSkip a first < gscanWindow a first) &&
    (c.junk.drop (gscanSkip a first)).all (fun w => decide (w < 4096)) &&
    (c.junk.take (gscanSkip a first)).all (fun w => decide (w ≤ a.regMax)) &&
    decide (4096 ≤ c.ret) && decide (c.ret ≤ a.regMax) && instrValid env a c.ret &&
    gscanFramesOkJ env a false rest

end MdModel.Walk
