/-
  MdModel.Walk.Cfi — `get_caller_by_cfi` for STACK CFI records:

    per-arch get_caller_by_cfi            amd64.rs:26 x86.rs:22 arm.rs:26 arm64.rs:28 mips.rs:21
    CfiStackWalker (FrameWalker impl)     lib.rs:553-655
    SymbolFile::walk_frame (CFI part)     sym_file/mod.rs:491-522
    walk_with_stack_cfi, parse_cfi_exprs, eval_cfi_expr      sym_file/walker.rs:493-738

  STACK WIN records are not part of this model (property C07 models their evaluator); the
  `walk`/`chain` engines only compare walks whose symbol files carry no STACK WIN record.
  C05's theorems do not depend on this file: there the whole of `get_caller_by_cfi` is an
  arbitrary function (`Env.cfi`).
-/
import MdModel.Walk.Sym
namespace MdModel.Walk
open MdModel

inductive CfiReg where
  | cfa | ra | other (name : String)
  deriving DecidableEq, Repr

/-! The lexer works on the characters of a line (`String.toList`) with structural recursion only,
    so that it also reduces inside the kernel: C04's non-vacuity examples evaluate the
    precondition — which tokenizes the rule text of concrete records — by `decide`. -/

def isWs (c : Char) : Bool := c = ' ' || c = '\t' || c = '\n' || c = '\r' || c = '\x0c'

/-- `cur` = the characters of the piece being read, reversed -/
def splitWsAux : List Char → List Char → List (List Char)
  | [], cur => if cur.isEmpty then [] else [cur.reverse]
  | c :: rest, cur =>
    if isWs c then (if cur.isEmpty then splitWsAux rest [] else cur.reverse :: splitWsAux rest [])
    else splitWsAux rest (c :: cur)

/-- `split_ascii_whitespace`, on characters -/
def splitWsL (cs : List Char) : List (List Char) := splitWsAux cs []

/-- `split_ascii_whitespace` -/
def splitWs (s : String) : List String := (splitWsL s.toList).map String.ofList

/-- `i64::from_str`, result as the `u64` bit pattern (`value as u64`) -/
def parseI64L (cs : List Char) : Option Nat :=
  let (neg, ds) : Bool × List Char :=
    match cs with
    | '-' :: t => (true, t)
    | '+' :: t => (false, t)
    | _ => (false, cs)
  if ds.isEmpty ∨ !(ds.all Char.isDigit) then none
  else
    let v := ds.foldl (fun acc c => acc * 10 + (c.toNat - '0'.toNat)) 0
    if neg then (if v ≤ 2 ^ 63 then some ((2 ^ 64 - v) % 2 ^ 64) else none)
    else (if v < 2 ^ 63 then some v else none)

def parseI64 (s : String) : Option Nat := parseI64L s.toList

/-! ### tokens

  `parse_cfi_exprs` and `eval_cfi_expr` look at one whitespace-separated token at a time, and what
  they do with a token depends on its text only. The model therefore classifies every token once
  (`classify`, in the order of the `match` in `eval_cfi_expr`; `classifyR` adds the `REG:` test of
  `parse_cfi_exprs`) and lets the splitter and the evaluator work on the classified tokens — the
  same computation, with the lexing separated from the evaluation (which is what C04's theorems
  about the canonical rules need: `Pre` compares `tokenize rule` with the canonical token list). -/

/-- a token of an expression -/
inductive ETok where
  | add | sub | mul | div | rem | align | deref | cfa | undef
  /-- a token containing `$`: the register named by the text after the first `$` -/
  | dollar (name : String)
  /-- `i64::from_str` succeeded (value as the `u64` bit pattern) -/
  | lit (v : Nat)
  /-- anything else: a bare register name -/
  | bare (name : String)
  deriving DecidableEq, Repr

/-- the `match token { … }` of `eval_cfi_expr`, in the code's order -/
def classifyL (tok : List Char) : ETok :=
  if tok = ['+'] then .add
  else if tok = ['-'] then .sub
  else if tok = ['*'] then .mul
  else if tok = ['/'] then .div
  else if tok = ['%'] then .rem
  else if tok = ['@'] then .align
  else if tok = ['^'] then .deref
  else if tok = ['.', 'c', 'f', 'a'] then .cfa
  else if tok = ['.', 'u', 'n', 'd', 'e', 'f'] then .undef
  else if tok.contains '$' then .dollar (String.ofList ((tok.dropWhile (· ≠ '$')).drop 1))
  else match parseI64L tok with
    | some v => .lit v
    | none => .bare (String.ofList tok)

def classify (tok : String) : ETok := classifyL tok.toList

def mkCfiRegL (tok : List Char) : CfiReg :=
  if tok = ['.', 'c', 'f', 'a'] then .cfa else if tok = ['.', 'r', 'a'] then .ra
  else match tok with
    | '$' :: t => .other (String.ofList t)
    | _ => .other (String.ofList tok)

def mkCfiReg (tok : String) : CfiReg := mkCfiRegL tok.toList

/-- a token of a rule set: `REG:` or an expression token -/
inductive RTok where
  | label (r : CfiReg)
  | tok (t : ETok)
  deriving DecidableEq, Repr

def classifyRL (tok : List Char) : RTok :=
  if tok.getLast? = some ':' then .label (mkCfiRegL tok.dropLast) else .tok (classifyL tok)

def classifyR (tok : String) : RTok := classifyRL tok.toList

/-- the classified tokens of a `STACK CFI` rule text -/
def tokenize (line : String) : List RTok := (splitWsL line.toList).map classifyRL

def ruleSet (out : List (CfiReg × List ETok)) (r : CfiReg) (e : List ETok) : List (CfiReg × List ETok) :=
  match out with
  | [] => [(r, e)]
  | (r', e') :: t => if r' = r then (r, e) :: t else (r', e') :: ruleSet t r e

/-- `parse_cfi_exprs`: `cur` = register being defined, `expr` = its tokens so far (reversed) -/
def parseRules : List RTok → Option CfiReg → List ETok → List (CfiReg × List ETok) →
    Option (List (CfiReg × List ETok))
  | [], cur, expr, out =>
    if expr.isEmpty then none
    else match cur with
      | none => none
      | some r => some (ruleSet out r expr.reverse)
  | .label name :: rest, cur, expr, out =>
    match cur with
    | some r =>
      if expr.isEmpty then none
      else parseRules rest (some name) [] (ruleSet out r expr.reverse)
    | none => parseRules rest (some name) [] out
  | .tok t :: rest, cur, expr, out =>
    match cur with
    | none => none
    | some _ => parseRules rest cur (t :: expr) out

def isPow2 (n : Nat) : Bool := n != 0 && (n &&& (n - 1)) == 0

/-- the state `eval_cfi_expr` reads: callee registers and stack memory -/
structure CfiIn where
  arch : Arch
  callee : Ctx
  mem : Mem

def CfiIn.reg (x : CfiIn) (name : String) : Option Nat := x.callee.get x.arch name
def CfiIn.deref (x : CfiIn) (addr : Nat) : Option Nat :=
  x.mem.read addr (if x.arch.regMax = U32MAX then 4 else 8)

def W64 : Nat := 2 ^ 64

/-- `eval_cfi_expr` -/
def evalCfi (x : CfiIn) (cfa : Option Nat) : List ETok → List Nat → Option Nat
  | [], st => match st with
    | [v] => some v
    | _ => none
  | tok :: rest, st =>
    let bin (f : Nat → Nat → Option Nat) : Option Nat :=
      match st with
      | rhs :: lhs :: st' => match f lhs rhs with
        | some v => evalCfi x cfa rest (v :: st')
        | none => none
      | _ => none
    match tok with
    | .add => bin fun l r => some ((l + r) % W64)
    | .sub => bin fun l r => some ((l + W64 - r) % W64)
    | .mul => bin fun l r => some ((l * r) % W64)
    | .div => bin fun l r => if r = 0 then none else some (l / r)
    | .rem => bin fun l r => if r = 0 then none else some (l % r)
    | .align => bin fun l r => if isPow2 r then some (l - l % r) else none
    | .deref =>
      match st with
      | p :: st' => match x.deref p with
        | some v => evalCfi x cfa rest (v :: st')
        | none => none
      | _ => none
    | .cfa =>
      match cfa with
      | some v => evalCfi x cfa rest (v :: st)
      | none => none
    | .undef => none
    | .dollar name | .bare name =>
      match x.reg name with
      | some v => evalCfi x cfa rest (v :: st)
      | none => none
    | .lit v => evalCfi x cfa rest (v :: st)

/-- `CfiStackWalker`'s mutable half: caller registers and the caller validity set -/
structure CfiOut where
  ctx : Ctx
  valid : List String

def setInsert (l : List String) (s : String) : List String := if l.contains s then l else l ++ [s]

/-- `set_caller_register`: `none` for an unknown name or a value the register cannot hold -/
def CfiOut.setReg (a : Arch) (o : CfiOut) (name : String) (v : Nat) : Option CfiOut :=
  match a.canon name with
  | none => none
  | some m =>
    if v > a.regMax then none
    else match o.ctx.set a name v with
      | some c => some { ctx := c, valid := setInsert o.valid m }
      | none => none

/-- `clear_caller_register` -/
def CfiOut.clearReg (a : Arch) (o : CfiOut) (name : String) : CfiOut :=
  match a.canon name with
  | none => o
  | some m => { o with valid := o.valid.filter (· ≠ m) }

def otherRules (rs : List (CfiReg × List ETok)) : List (String × List ETok) :=
  rs.filterMap fun (r, e) => match r with
    | .other n => some (n, e)
    | _ => none

def strLe (a b : String) : Bool := a < b || a == b

/-- `walk_with_stack_cfi` -/
def walkCfi (x : CfiIn) (o : CfiOut) (init : String) (adds : List String) : Option CfiOut :=
  let a := x.arch
  -- later definitions of a register override earlier ones
  let parsed := (init :: adds).foldl (fun acc line => acc.bind fun out => parseRules (tokenize line) none [] out) (some [])
  match parsed with
  | none => none
  | some rs =>
    match rs.lookup .cfa, rs.lookup .ra with
    | some cfaE, some raE =>
      match evalCfi x none cfaE [] with
      | none => none
      | some cfa =>
        match evalCfi x (some cfa) raE [] with
        | none => none
        | some ra =>
          -- `set_cfa(cfa)?; set_ra(ra)?` — both must fit the register width
          if cfa > a.regMax ∨ ra > a.regMax then none
          else
            let o := { o with ctx := { o.ctx with sp := cfa, ip := ra },
                              valid := setInsert (setInsert o.valid a.spName) a.ipName }
            let others := (otherRules rs).mergeSort fun p q => strLe p.1 q.1
            some (others.foldl (fun o (n, e) =>
              match evalCfi x (some cfa) e [] with
              | some v =>
                -- a value that does not fit is a failed rule too (fix 15b778b): clear, do not forward
                (match o.setReg a n v with
                 | some o' => o'
                 | none => o.clearReg a n)
              | none => o.clearReg a n) o)
    | _, _ => none

/-- `callee_forwarded_regs`: x86 / x86-64 / MIPS test `which.contains(reg)`; the three ARM
    unwinders go through `register_is_valid` (fix of F28), so that a frame pointer recorded under
    its other name (`r11` / `x29`, as the frame-pointer unwinder does) is forwarded too -/
def forwarded (a : Arch) (c : Ctx) : List String :=
  match a with
  | .arm | .arm64 | .arm64old => a.calleeSaved.filter fun r => c.has a r
  | _ => a.calleeSaved.filter fun r => c.hasLit r

/-- derived `Ord` of `CfiRules`: `(address, rules)` -/
def addLe (p q : Nat × String) : Bool := p.1 < q.1 || (p.1 == q.1 && strLe p.2 q.2)

/-- `SymbolFile::walk_frame`, STACK CFI part -/
def walkFrameCfi (sf : SymFile) (ctbl : List RangeMap.Entry) (modBase : Nat) (x : CfiIn) (o : CfiOut)
    (instr : Nat) : Option CfiOut :=
  if instr < modBase then none
  else
    let addr := instr - modBase
    match RangeMap.get ctbl addr with
    | none => none
    | some i => match sf.cfis[i]? with
      | none => none
      | some rec =>
        let adds := (rec.adds.mergeSort addLe).takeWhile fun p => p.1 ≤ addr
        walkCfi x o rec.init (adds.map (·.2))

/-- module of the callee's lookup address, its symbol file, `SymbolFile::walk_frame` on a fresh
    `CfiStackWalker` -/
def cfiWalk (a : Arch) (w : World) (mtbl : List RangeMap.Entry) (ctbls : List (List RangeMap.Entry))
    (mem : Mem) (callee : Frame) : Option CfiOut :=
  match moduleAt mtbl callee.instruction with
  | none => none
  | some i =>
    match w.mods[i]?, (w.syms[i]?).join, ctbls[i]? with
    | some m, some sf, some ct =>
      walkFrameCfi sf ct m.base { arch := a, callee := callee.ctx, mem := mem }
        { ctx := callee.ctx, valid := forwarded a callee.ctx } callee.instruction
    | _, _, _ => none

/-- `get_caller_by_cfi` of every architecture -/
def cfiOf (arch : Arch) (w : World) (mtbl : List RangeMap.Entry) (ctbls : List (List RangeMap.Entry))
    (mask : Nat) (mem : Mem) (callee : Frame) (_grand : Option Frame) : Option Ctx :=
  let a := effArch arch callee.ctx
  let c := callee.ctx
  let spOk : Bool :=
    match a with
    | .x86 => c.hasLit "esp"
    | .amd64 => c.hasLit "rsp"
    | .arm => c.has a "r13"
    | _ => c.has a "sp"
  if !spOk then none
  else match cfiWalk a w mtbl ctbls mem callee with
    | none => none
    | some o =>
      let r : Ctx := { o.ctx with valid := some o.valid }
      match a with
      | .arm64 | .arm64old =>
        -- ptr-auth stripping of pc, and of lr / fp when they are valid
        let r := { r with ip := r.ip &&& mask }
        let r := if r.has a "x30" then (r.set a "x30" (r.raw a "x30" &&& mask)).getD r else r
        let r := if r.has a "x29" then (r.set a "x29" (r.raw a "x29" &&& mask)).getD r else r
        some r
      | _ => some r

/-- the CFI range table of every module's symbol file (by module position) -/
def cfiTables (w : World) : List (List RangeMap.Entry) :=
  w.syms.map fun s => match s with
    | some sf => cfiTable sf
    | none => []

/-- The environment of a concrete walk: modules, symbol records, stack memory. -/
def mkEnv (arch : Arch) (os : Os) (w : World) (mem : Mem) : Env :=
  let mtbl := modTable w.mods
  let ftbls := w.syms.map fun s => match s with
    | some sf => funcTable sf
    | none => []
  let ctbls := cfiTables w
  let bits := if arch = .arm64old then Consts.arm64old_ptrauth_bits else Consts.arm64_ptrauth_bits
  let mask := ptrAuthMask w mtbl bits
  { arch := arch, os := os,
    cfi := cfiOf arch w mtbl ctbls mask mem,
    instrOk := instrOkOf w mtbl ftbls,
    symb := symbOf w mtbl ftbls,
    mask := mask }

end MdModel.Walk
