/-
  MdModel.Walk.Proto — parsing of `walk`/`chain` requests and canonical printing of call stacks.
-/
import MdModel.Prelude
import MdModel.Walk.Cfi
namespace MdModel.Walk
open MdModel MdModel.Proto

def stripPrefix? (s pre : String) : Option String :=
  if s.startsWith pre then some (s.drop pre.length).toString else none

def parseOs (s : String) : Os :=
  if s = "windows" then .windows else if s = "ios" then .ios else .other

def parseAssign (s : String) : Option (String × Nat) :=
  match s.splitOn "=" with
  | [k, v] => (optNat v).map fun n => (k, n)
  | _ => none

def parseCtx (a : Arch) (regs valid : String) : Option Ctx := do
  let assigns ← (pieces regs ",").mapM parseAssign
  let v : Option (List String) ←
    if valid = "all" then some none
    else if valid = "-" then some (some [])
    else some (some (pieces valid ","))
  let base : Ctx := { ip := 0, sp := 0, rest := [], valid := v, m64 := a = .mips64 }
  let lim := if a.isMips then U64MAX else a.regMax
  assigns.foldlM (fun c (k, n) => if n ≤ lim then c.set a k n else none) base

def parseMem (s : String) : Option (Option Mem) :=
  if s = "none" then some none
  else match s.splitOn ":" with
    | [b, h] => do
      let base ← optNat b
      let bytes ← unhex h
      if base ≤ U64MAX then some (some { base := base, bytes := bytes.toArray }) else none
    | _ => none

def parseMods (s : String) : Option (List Module) :=
  if s = "-" then some []
  else (pieces s ",").mapM fun m =>
    match m.splitOn ":" with
    | [b, sz, n] => do
      let base ← optNat b
      let size ← optNat sz
      if base ≤ U64MAX ∧ size ≤ U32MAX then some { base := base, size := size, name := n } else none
    | _ => none

def unUnderscore (s : String) : String := s.map fun c => if c = '_' then ' ' else c

/-- The rules text as the symbol-file parser stores it: the `space1` after the last hex field of
    a `STACK CFI [INIT]` line swallows every leading space / tab of the rest of the line (parser.rs
    `stack_cfi`, `stack_cfi_init`); the request carries the text as written in the file. Matters
    only for the `(address, text)` order of delta records at one address. -/
def storedRules (text : String) : String := String.ofList (text.toList.dropWhile fun c => c = ' ' || c = '\t')

/-- rule text, hex-encoded UTF-8 (records `c` / `a`): any text a symbol-file line can hold — leading
    blanks, `_`, tabs, form feeds, `;` `|`, non-ASCII; a line cannot hold CR / LF -/
def unhexRules (h : String) : Option String := do
  let bytes ← unhex h
  let t ← String.fromUTF8? bytes.toByteArray
  if t.toList.any fun c => c = '\n' || c = '\r' then none else some t

def parseRecords (s : String) : Option SymFile :=
  let addC (sf : SymFile) (a sz : Nat) (rules : String) : SymFile :=
    { sf with cfis := sf.cfis ++ [{ addr := a, size := sz, init := storedRules rules, adds := [] }] }
  let addA (sf : SymFile) (a : Nat) (rules : String) : Option SymFile :=
    match sf.cfis.reverse with
    | last :: before =>
      some { sf with cfis := (({ last with adds := last.adds ++ [(a, storedRules rules)] }) :: before).reverse }
    | [] => none
  (pieces s ";").foldlM (fun (sf : SymFile) r =>
    match r.splitOn "|" with
    | ["F", a, sz, ps, n] => do
      let a ← optNat a; let sz ← optNat sz; let ps ← optNat ps
      some { sf with funcs := sf.funcs ++ [{ addr := a, size := sz, psize := ps, name := n }] }
    | ["P", a, ps, n] => do
      let a ← optNat a; let ps ← optNat ps
      some { sf with pubs := sf.pubs ++ [{ addr := a, psize := ps, name := n }] }
    -- rule text with `_` for a space (plain texts only; kept for readable cases and old corpus lines)
    | ["C", a, sz, rules] => do
      let a ← optNat a; let sz ← optNat sz
      some (addC sf a sz (unUnderscore rules))
    | ["A", a, rules] => do
      let a ← optNat a
      addA sf a (unUnderscore rules)
    -- rule text hex-encoded
    | ["c", a, sz, h] => do
      let a ← optNat a; let sz ← optNat sz; let rules ← unhexRules h
      some (addC sf a sz rules)
    | ["a", a, h] => do
      let a ← optNat a; let rules ← unhexRules h
      addA sf a rules
    | _ => none) {}

def parseSyms (mods : List Module) (fields : List String) : Option (List (Option SymFile)) := do
  let named ← fields.mapM fun f => do
    let body ← stripPrefix? f "sym:"
    -- module name up to the first `:`; the records (CFI rules contain `:`) follow
    let n := String.ofList (body.toList.takeWhile (· ≠ ':'))
    let recs := String.ofList ((body.toList.dropWhile (· ≠ ':')).drop 1)
    (parseRecords recs).map fun sf => (n, sf)
  some (mods.map fun m => named.lookup m.name)

def showValid (a : Arch) (c : Ctx) : String :=
  match c.valid with
  | none => "all"
  | some names =>
    let sorted := names.mergeSort fun p q => strLe p q
    joinWith "," (sorted.map fun n => s!"{n}={c.raw a n}")

def showFrame (a : Arch) (f : Frame) : String :=
  let m := match f.module with
    | some i => toString i
    | none => "-"
  let fn := match f.func with
    | some g => s!"{g.name}@{g.base}/{g.psize}"
    | none => "-"
  s!"{f.trust.str}|ip={f.ctx.ip}|in={f.instruction}|sp={f.ctx.sp}|m={m}|f={fn}|v={showValid (effArch a f.ctx) f.ctx}"

def showWalk (a : Arch) (fs : List Frame) : String :=
  "frames:" ++ joinWith ";" (fs.map (showFrame a))

/-- the parsed fields shared by `walk` and `chain` requests -/
structure Request where
  arch : Arch
  os : Os
  ctx : Ctx
  mem : Option Mem
  world : World

def parseRequest (args : List String) : Option Request :=
  match args with
  | arch :: os :: ctx :: valid :: stack :: mods :: syms => do
    let a ← Arch.ofStr arch
    let regs ← stripPrefix? ctx "ctx:"
    let v ← stripPrefix? valid "valid:"
    let c ← parseCtx a regs v
    let mem ← (stripPrefix? stack "stack:").bind parseMem
    let ms ← (stripPrefix? mods "mods:").bind parseMods
    let sy ← parseSyms ms syms
    some { arch := a, os := parseOs os, ctx := c, mem := mem, world := { mods := ms, syms := sy } }
  | _ => none

def Request.env (r : Request) : Env :=
  mkEnv r.arch r.os r.world (r.mem.getD { base := 0, bytes := #[] })

end MdModel.Walk
