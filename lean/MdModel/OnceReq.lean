/-
  MdModel.OnceReq (namespace MdModel.Once) — what the requests of the symbolizer API are made of.

  * module identity and `module_key` (breakpad-symbols/src/lib.rs:678-688): the key is the tuple
    (code_file().to_string(), code_identifier, debug_file, debug_identifier) — ALL FOUR take part.
    `Module::code_file()` returns a string, not an option: a `SimpleModule` without a code file and
    one whose code file is `""` have the same key. The three others keep their `Option`.
  * request kinds: `fill_symbol`, `walk_frame` (both through `Symbolizer::get_symbols`, i.e. the
    `symbols` cache slot of the module key) and `get_file_path(kind)` for the three `FileKind`s,
    which `Symbolizer::get_file_path` (lib.rs:907-913) hands STRAIGHT to `supplier.locate_file` —
    the symbolizer does not cache it and does not count it in `pending_stats`. Only a supplier
    with its own cache coalesces file lookups: `HttpSymbolSupplier::locate_file_internal`
    (http.rs:81-132) keeps one `CachedAsyncResult` per `(module_key, FileKind)`.
  * `MultiSymbolProvider` (minidump-unwind/src/symbols/mod.rs:184-263): providers are consulted in
    the order they were added. `fill_symbol` and `get_file_path` consult EVERY provider whatever the
    earlier ones answered (`best_result.or(new_result)` evaluates `new_result` first);
    `fill_symbol` is `Ok` iff some provider had symbols and the frame keeps what the LAST such
    provider wrote; `get_file_path` returns the FIRST `Ok`. `walk_frame` returns at the first
    provider whose walk succeeded (symbols found AND usable CFI at the address); later providers
    are not consulted. `stats()` merges the providers' maps in order (a later provider overwrites an
    equal key), `pending_stats()` is the LAST provider's.
  * `stats()` (lib.rs:874-897): written inside the `get_symbols` closure right after
    `symbols_processed += 1`, keyed by `leafname(code_file)` — NOT by the module key — with
    insert-overwrite semantics.

  A request of task `t` becomes one `Item` per consulted provider. Slots:
    `symSlot p k`      the `symbols` slot of provider `p`'s symbolizer for module key `k`
    `fileSlot p k fk`  the file-cache slot of provider `p`'s supplier (only if it caches)
    `privSlot t j p`   a slot private to request `j` of task `t` at provider `p`: an uncached
                       `locate_file` call. No other request names it, so its lock is never contended
                       and the lookup is a plain call (`MdProofs.C12.private_slot_*`).
-/
import MdModel.OnceG
namespace MdModel.Once
open MdModel

/-! ### module identity -/

/-- the `code_file` field of a `SimpleModule` -/
inductive CodeFile where
  | absent                     -- `None`
  | empty                      -- `Some("")`
  | path (dir leaf : Nat)      -- `Some("/d<dir>/m<leaf>.so")`
  deriving DecidableEq, Repr, Inhabited

/-- `Module::code_file()`: a string -/
inductive CodeStr where
  | empty
  | path (dir leaf : Nat)
  deriving DecidableEq, Repr, Inhabited

def CodeFile.str : CodeFile → CodeStr
  | .absent => .empty
  | .empty => .empty
  | .path d l => .path d l

/-- `leafname(code_file)`: the key of the statistics map (`none` = the empty string) -/
def CodeStr.leaf : CodeStr → Option Nat
  | .empty => none
  | .path _ l => some l

structure ModId where
  codeFile : CodeFile
  codeId : Option Nat
  debugFile : Option Nat
  debugId : Option Nat
  deriving DecidableEq, Repr, Inhabited

abbrev ModKey := CodeStr × Option Nat × Option Nat × Option Nat

/-- `module_key` -/
def moduleKey (m : ModId) : ModKey := (m.codeFile.str, m.codeId, m.debugFile, m.debugId)

/-- index of the first module of the table with the same key (the table's name for that key) -/
def keyIx (mods : List ModId) (m : Nat) : Nat :=
  match mods[m]? with
  | none => m
  | some x => mods.findIdx fun y => decide (moduleKey y = moduleKey x)

/-! ### providers, requests -/

/-- one provider: a `Symbolizer` and its supplier -/
structure Prov where
  /-- `locate_symbols` per module key -/
  sym : Nat → Sup
  /-- the symbol file of that key has usable CFI at the walked address -/
  cfi : Nat → Bool
  /-- `locate_file` per module key and file kind (outcome `ok` or `notFound`) -/
  file : Nat → Nat → Sup
  /-- the supplier keeps its own per-(module key, kind) cache (`HttpSymbolSupplier`) -/
  cached : Bool

instance : Inhabited Prov :=
  ⟨⟨fun _ => ⟨0, .notFound⟩, fun _ => false, fun _ _ => ⟨0, .notFound⟩, false⟩⟩

inductive Kind where
  | fill
  | walk
  | file (fk : Nat)   -- 0 BreakpadSym, 1 Binary, 2 ExtraDebugInfo
  deriving DecidableEq, Repr, Inhabited

structure Req where
  kind : Kind
  mod : Nat
  deriving DecidableEq, Repr, Inhabited

structure RCfg where
  mods : List ModId
  provs : List Prov
  progs : List (List Req)

def RCfg.M (rc : RCfg) : Nat := rc.mods.length
def RCfg.P (rc : RCfg) : Nat := rc.provs.length
def RCfg.T (rc : RCfg) : Nat := rc.progs.length
def RCfg.prov (rc : RCfg) (p : Nat) : Prov := rc.provs.getD p default
def RCfg.prog (rc : RCfg) (t : Nat) : List Req := rc.progs.getD t []
def RCfg.key (rc : RCfg) (m : Nat) : Nat := keyIx rc.mods m

/-! ### slots -/

def symSlot (rc : RCfg) (p k : Nat) : Nat := 4 * (p * rc.M + k)
def fileSlot (rc : RCfg) (p k fk : Nat) : Nat := 4 * ((p * rc.M + k) * 3 + fk) + 1
def privSlot (rc : RCfg) (t j p : Nat) : Nat := 4 * ((j * rc.T + t) * rc.P + p) + 2

/-- the supplier behaviour behind a slot -/
def slotSup (rc : RCfg) (s : Nat) : Sup :=
  let x := s / 4
  match s % 4 with
  | 0 => (rc.prov (x / rc.M)).sym (x % rc.M)
  | 1 => (rc.prov (x / 3 / rc.M)).file (x / 3 % rc.M) (x % 3)
  | 2 =>
    match (rc.prog (x / rc.P % rc.T))[x / rc.P / rc.T]? with
    | some ⟨.file fk, m⟩ => (rc.prov (x % rc.P)).file (rc.key m) fk
    | _ => ⟨0, .notFound⟩
  | _ => ⟨0, .notFound⟩

/-- request `j` of task `t`: one item per provider, in provider order -/
def expandReq (rc : RCfg) (t j : Nat) (q : Req) : List Item :=
  (List.range rc.P).map fun p =>
    match q.kind with
    | .fill => ⟨symSlot rc p (rc.key q.mod), 0⟩
    | .walk => ⟨symSlot rc p (rc.key q.mod), if (rc.prov p).cfi (rc.key q.mod) then rc.P - 1 - p else 0⟩
    | .file fk =>
      ⟨if (rc.prov p).cached then fileSlot rc p (rc.key q.mod) fk else privSlot rc t j p, 0⟩

def expandFrom (rc : RCfg) (t : Nat) : Nat → List Req → List Item
  | _, [] => []
  | j, q :: qs => expandReq rc t j q ++ expandFrom rc t (j + 1) qs

def toICfg (rc : RCfg) : ICfg :=
  ⟨(List.range rc.T).map fun t => expandFrom rc t 0 (rc.prog t), slotSup rc⟩

/-- run a schedule on the request-level configuration -/
def rexec (rc : RCfg) (sched : List Nat) : GState := gexec (toICfg rc) sched (ginit (toICfg rc))

/-! ### observations -/

def isSym (rc : RCfg) (p s : Nat) : Bool := s % 4 == 0 && s / 4 / rc.M == p

/-- `pending_stats().symbols_requested` of provider `p`'s symbolizer: it is incremented exactly
    where a `call` event of one of its `symbols` slots is emitted -/
def reqCount (rc : RCfg) (p : Nat) (log : List Event) : Nat :=
  (log.filter fun e => match e with
    | .call s => isSym rc p s
    | _ => false).length

/-- `pending_stats().symbols_processed` of provider `p`'s symbolizer -/
def procCount (rc : RCfg) (p : Nat) (log : List Event) : Nat :=
  (log.filter fun e => match e with
    | .ret s => isSym rc p s
    | _ => false).length

/-- `MultiSymbolProvider::pending_stats`: the last provider's (default if there is none) -/
def multiPending (rc : RCfg) (log : List Event) : Nat × Nat :=
  if rc.P = 0 then (0, 0) else (reqCount rc (rc.P - 1) log, procCount rc (rc.P - 1) log)

def leafOfKey (rc : RCfg) (k : Nat) : Option Nat := (rc.mods.getD k default).codeFile.str.leaf

/-- the writes to provider `p`'s `stats` map, in order: one per returned `locate_symbols`,
    `(leafname(code_file), outcome)` -/
def statWrites (rc : RCfg) (p : Nat) (log : List Event) : List (Option Nat × Res) :=
  log.filterMap fun e => match e with
    | .ret s => if isSym rc p s then some (leafOfKey rc (s / 4 % rc.M), (slotSup rc s).res) else none
    | _ => none

/-- `HashMap::insert` overwrites: the entry of a key is the last write to it -/
def statGet (ws : List (Option Nat × Res)) (l : Option Nat) : Option Res :=
  (ws.reverse.find? fun e => e.1 == l).map (·.2)

/-- `MultiSymbolProvider::stats`: `extend` in provider order — the last provider that has the key -/
def multiStatGet (rc : RCfg) (log : List Event) (l : Option Nat) : Option Res :=
  (List.range rc.P).foldl (fun acc p =>
    match statGet (statWrites rc p log) l with
    | some r => some r
    | none => acc) none

/-- what a request returned to its caller -/
inductive ROut where
  | fillOk (p : Nat)    -- `Ok(())`, the frame holds what provider `p` wrote
  | fillErr
  | walkOk (p : Nat)    -- `Some(())` from provider `p`
  | walkNone
  | fileOk (p : Nat)    -- `Ok(path)` of provider `p`
  | fileErr
  deriving DecidableEq, Repr, Inhabited

/-- the per-provider observations of one request, read off what the task has seen: items in
    provider order; after an `ok` observation `skipOk` items are dropped.
    `none`: the observations run out (request not finished). -/
def consume : Nat → Nat → List Item → List (Nat × Res) →
    Option (List (Nat × Res) × List (Nat × Res))
  | _, _, [], seen => some ([], seen)
  | n + 1, p, _ :: is, seen => consume n (p + 1) is seen
  | 0, _, _ :: _, [] => none
  | 0, p, i :: is, (_, r) :: seen =>
    (consume (skipOf r i) (p + 1) is seen).map fun (obs, rest) => ((p, r) :: obs, rest)

/-- how the per-provider results are combined (`obs` = (provider, result) in consultation order) -/
def combine (rc : RCfg) (q : Req) (obs : List (Nat × Res)) : ROut :=
  match q.kind with
  | .fill =>
    match (obs.filter fun o => o.2 == .ok).getLast? with
    | some o => .fillOk o.1
    | none => .fillErr
  | .walk =>
    match obs.find? fun o => o.2 == .ok && (rc.prov o.1).cfi (rc.key q.mod) with
    | some o => .walkOk o.1
    | none => .walkNone
  | .file _ =>
    match obs.find? fun o => o.2 == .ok with
    | some o => .fileOk o.1
    | none => .fileErr

/-- the answers task `t` has received for its requests `j, j+1, ..` so far -/
def outcomesFrom (rc : RCfg) (t : Nat) : Nat → List Req → List (Nat × Res) → List ROut
  | _, [], _ => []
  | j, q :: qs, seen =>
    match consume 0 0 (expandReq rc t j q) seen with
    | none => []
    | some (obs, rest) => combine rc q obs :: outcomesFrom rc t (j + 1) qs rest

def outcomes (rc : RCfg) (t : Nat) (log : List Event) : List ROut :=
  outcomesFrom rc t 0 (rc.prog t) (seenBy t log)

/-- the answer a request gets according to the providers' supplier tables alone -/
def specOut (rc : RCfg) (q : Req) : ROut :=
  let k := rc.key q.mod
  match q.kind with
  | .fill =>
    match ((List.range rc.P).filter fun p => ((rc.prov p).sym k).res == .ok).getLast? with
    | some p => .fillOk p
    | none => .fillErr
  | .walk =>
    match (List.range rc.P).find? fun p => ((rc.prov p).sym k).res == .ok && (rc.prov p).cfi k with
    | some p => .walkOk p
    | none => .walkNone
  | .file fk =>
    match (List.range rc.P).find? fun p => ((rc.prov p).file k fk).res == .ok with
    | some p => .fileOk p
    | none => .fileErr

/-- the providers a request consults, according to the supplier tables alone -/
def specConsulted (rc : RCfg) (q : Req) : List Nat :=
  match q.kind with
  | .walk =>
    match (List.range rc.P).find? fun p =>
        ((rc.prov p).sym (rc.key q.mod)).res == .ok && (rc.prov p).cfi (rc.key q.mod) with
    | some p => List.range (p + 1)
    | none => List.range rc.P
  | _ => List.range rc.P

end MdModel.Once
