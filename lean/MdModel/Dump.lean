/-
  MdModel.Dump — executable model of the reader kernel of `minidump/src/minidump.rs`
  (line numbers of the pinned source in brackets).

    location_slice [698]                 -> `locationRange` / `locationSlice`
    read_string_utf16 [710]              -> `readStringUtf16` (+ strict UTF-16 decoding `utf16Decode`)
    read_string_utf8(_unterminated) [728,738], read_cstring_utf8 [750]
                                         -> `readStringUtf8Unterminated`, `readStringUtf8`, `readCStringUtf8`
    read_codeview [775] + CV_INFO_* (format.rs 472-672) -> `readCodeview`
    ensure_count_in_bound [846]          -> `ensureCountInBound`
    read_stream_list [1292], read_ex_stream_list [1336] -> `readStreamList`, `readExStreamList`
    MinidumpModule::read [886], MinidumpModuleList::read [1544]         -> `readModule`, `readModuleList`
    MinidumpUnloadedModule(List)::read [1188,1650]                      -> `readUnloadedModuleList`
    MinidumpThreadNames::read [1405]     -> `readThreadNames`
    handle data [1768-1975]              -> `readObjectInfo`, `walkChain`, `readHandleDescriptor`, `readHandleData`
    MinidumpMemory::read [1979], MinidumpMemoryList::read [2314]        -> `readMemoryDesc`, `readMemoryList`
    MinidumpMemory64List::read [2340]    -> `readMemory64List`
    MinidumpMemoryInfoList::read [2404]  -> `readMemoryInfoList`
    MinidumpThreadList::read [2999], MinidumpThreadInfoList::read [3148] -> `readThreadList`, `readThreadInfoList`
    MinidumpException::read [4867], ::print's parameter loop [4988], get_crash_address [4918]
                                         -> `readException`, `printedParams`, `crashAddressRaw`
    Minidump::read [5420], get_raw_stream [5600], get_stream [5578], get_memory [5612]
                                         -> `readDump`, `getRawStream`, `getStream`, `getMemoryKind`
    `readAll` is what the `read` engine compares with the real code: `Minidump::read` followed by
    `get_stream` for every modelled stream type.

  Every reader returns `M α` (`MdModel.ReadM`): value / `Err` / panic, plus the allocation log.
  What is NOT modelled (oracle-only in the engine): MinidumpSystemInfo, MiscInfo, BreakpadInfo,
  CrashpadInfo, MacCrashInfo/Bootargs, Assertion, the Linux text streams, contexts, every `print`
  except the exception parameter loop, `encoding_rs`, `RangeMap` construction (that is C08's model).
  The in-memory element sizes (`size_of::<MinidumpModule>()` ...) are a parameter (`MemSizes`):
  the harness passes the values of the build under test.
-/
import MdModel.ReadM
namespace MdModel.Dump
open MdModel
open MdModel.Gen.Layouts

/-! ## `size_of` of the element types the readers allocate vectors of -/

/-- In-memory sizes (bytes) of the Rust element types; wire sizes come from the layouts. -/
structure MemSizes where
  rawThread : Nat      -- md::MINIDUMP_THREAD
  thread : Nat         -- MinidumpThread
  rawModule : Nat      -- md::MINIDUMP_MODULE
  module : Nat         -- MinidumpModule
  rawUnloaded : Nat    -- md::MINIDUMP_UNLOADED_MODULE
  unloaded : Nat       -- MinidumpUnloadedModule
  rawMemDesc : Nat     -- md::MINIDUMP_MEMORY_DESCRIPTOR
  memory : Nat         -- MinidumpMemory
  rawMemDesc64 : Nat   -- md::MINIDUMP_MEMORY_DESCRIPTOR64
  memory64 : Nat       -- MinidumpMemory64
  rawMemInfo : Nat     -- md::MINIDUMP_MEMORY_INFO
  memInfo : Nat        -- MinidumpMemoryInfo
  rawThreadName : Nat  -- md::MINIDUMP_THREAD_NAME
  handleDesc : Nat     -- MinidumpHandleDescriptor
  objInfo : Nat        -- MinidumpHandleObjectInformation
  rawThreadInfo : Nat  -- md::MINIDUMP_THREAD_INFO
  threadInfo : Nat     -- MinidumpThreadInfo
  string : Nat := 24   -- String (elements of `Vec<String>` in the Crashpad annotation lists)
  moduleCrashpad : Nat := 112  -- MinidumpModuleCrashpadInfo
  deriving Repr

/-- The sizes of the build the model was written against (x86_64, rustc 1.8x); the `read` engine
    sends the real ones with every request. -/
def MemSizes.default : MemSizes :=
  { rawThread := 48, thread := 128, rawModule := 112, module := 312, rawUnloaded := 24, unloaded := 48,
    rawMemDesc := 16, memory := 56, rawMemDesc64 := 16, memory64 := 56, rawMemInfo := 48, memInfo := 64,
    rawThreadName := 16, handleDesc := 120, objInfo := 16, rawThreadInfo := 64, threadInfo := 64 }

/-- Executable form of `MemSizes.Bounded` (MdProofs.Lemmas.BytesSafe): every vector element is at most
    four times its wire record, an object-info element at most 16 bytes. The allocation theorems
    assume it; `MdModel.Bytes.handle` answers `bad-op` for sizes outside it. -/
def MemSizes.bounded (ms : MemSizes) : Bool :=
  decide (ms.rawThread ≤ 4 * 48) && decide (ms.thread ≤ 4 * 48) && decide (ms.rawModule ≤ 4 * 108) &&
  decide (ms.module ≤ 4 * 108) && decide (ms.rawUnloaded ≤ 4 * 24) && decide (ms.unloaded ≤ 4 * 24) &&
  decide (ms.rawMemDesc ≤ 4 * 16) && decide (ms.memory ≤ 4 * 16) && decide (ms.rawMemDesc64 ≤ 4 * 16) &&
  decide (ms.memory64 ≤ 4 * 16) && decide (ms.rawMemInfo ≤ 4 * 48) && decide (ms.memInfo ≤ 4 * 48) &&
  decide (ms.rawThreadName ≤ 4 * 12) && decide (ms.handleDesc ≤ 4 * 32) && decide (ms.objInfo ≤ 16) &&
  decide (ms.rawThreadInfo ≤ 4 * 64) && decide (ms.threadInfo ≤ 4 * 64) &&
  decide (ms.string ≤ 8 * 4) && decide (ms.moduleCrashpad ≤ 10 * 12)

/-- Slots of a `HashMap<u32, usize>` cost 16 bytes + 1 control byte; hashbrown rounds
    `cap * 8 / 7` up to a power of two: at most `2 * (8/7) * 17 < 40` bytes per requested
    element (+ a constant). Logged as an inexact allocation. -/
def HASHMAP_SLOT : Nat := 40

/-! ## location descriptors, memory descriptors -/

/-- `MINIDUMP_LOCATION_DESCRIPTOR` -/
structure Loc where
  size : Nat
  rva : Nat
  deriving Repr, DecidableEq, Inhabited

/-- `location_slice` [698]: `start.checked_add(size).and_then(|end| bytes.get(start..end))`,
    as the index range `(start, end)`. -/
def locationRange (len : Nat) (l : Loc) : Option (Nat × Nat) :=
  match checkedAdd l.rva l.size with
  | none => none
  | some e => if l.rva ≤ e ∧ e ≤ len then some (l.rva, e) else none

/-- `location_slice` [698] -/
def locationSlice (b : Bytes) (l : Loc) : Option Bytes :=
  match locationRange b.size l with
  | none => none
  | some (s, e) => some (b.extract s e)

/-- A region of process memory whose contents are `all[rva .. rva + size]`. -/
structure Region where
  base : Nat
  size : Nat
  rva : Nat
  deriving Repr, DecidableEq, Inhabited

/-- `MinidumpMemory::read` [1979] -/
def readMemoryDesc (allLen : Nat) (start : Nat) (mem : Loc) : Except Err Region :=
  if mem.rva = 0 ∨ mem.size = 0 then .error .MemoryReadFailure
  else match locationRange allLen mem with
    | none => .error .StreamReadFailure
    | some _ => .ok ⟨start, mem.size, mem.rva⟩

/-! ## strings -/

/-- the 16-bit code units of a byte string (a trailing odd byte is dropped; callers test evenness) -/
def utf16Units (e : Endian) : List UInt8 → List Nat
  | a :: b :: rest =>
    (match e with
     | .little => a.toNat + 256 * b.toNat
     | .big => 256 * a.toNat + b.toNat) :: utf16Units e rest
  | _ => []

def isHighSurrogate (u : Nat) : Bool := 0xD800 ≤ u && u < 0xDC00
def isLowSurrogate (u : Nat) : Bool := 0xDC00 ≤ u && u < 0xE000

/-- strict UTF-16 decoding (`decode_without_bom_handling_and_without_replacement`): `none` on an
    unpaired surrogate; otherwise the scalar values. -/
def utf16Decode : List Nat → Option (List Nat)
  | [] => some []
  | [u] => if isHighSurrogate u || isLowSurrogate u then none else some [u]
  | u :: l :: rest =>
    if isHighSurrogate u then
      if isLowSurrogate l then
        match utf16Decode rest with
        | none => none
        | some cs => some ((0x10000 + (u - 0xD800) * 1024 + (l - 0xDC00)) :: cs)
      else none
    else if isLowSurrogate u then none
    else
      match utf16Decode (l :: rest) with
      | none => none
      | some cs => some (u :: cs)

/-- `read_string_utf16` [710]. Returns the decoded scalar values and the offset after the string.
    Panic sites: `*offset + size` (usize add), `&bytes[*offset..*offset + size]`. -/
def readStringUtf16 (b : Bytes) (off : Nat) (e : Endian) : M (Option (List Nat × Nat)) :=
  match readU32 b off e with
  | none => pure none
  | some size =>
    if size % 2 ≠ 0 then pure none else
    usizeAdd "read_string_utf16: *offset + size" (off + 4) size >>= fun stop =>
    if stop > b.size then pure none else
    sliceRange "read_string_utf16: &bytes[*offset..*offset + size]" b (off + 4) stop >>= fun s =>
    -- the decoder's output buffer: at most 3 UTF-8 bytes per code unit
    M.alloc (size / 2) 3 false >>= fun _ =>
    match utf16Decode (utf16Units e s.toList) with
    | none => pure none
    | some cs => pure (some (cs, stop))

def isCont (b : UInt8) : Bool := 0x80 ≤ b && b ≤ 0xBF

/-- `std::str::from_utf8(..).is_ok()`: well-formed UTF-8 (no overlong forms, no surrogates,
    nothing above U+10FFFF) -/
def utf8Valid : List UInt8 → Bool
  | [] => true
  | [b0] => b0 < 0x80
  | [b0, b1] =>
    if b0 < 0x80 then utf8Valid [b1]
    else 0xC2 ≤ b0 && b0 ≤ 0xDF && isCont b1
  | [b0, b1, b2] =>
    if b0 < 0x80 then utf8Valid [b1, b2]
    else if 0xC2 ≤ b0 && b0 ≤ 0xDF then isCont b1 && utf8Valid [b2]
    else if b0 == 0xE0 then 0xA0 ≤ b1 && b1 ≤ 0xBF && isCont b2
    else if b0 == 0xED then 0x80 ≤ b1 && b1 ≤ 0x9F && isCont b2
    else if 0xE1 ≤ b0 && b0 ≤ 0xEF then isCont b1 && isCont b2
    else false
  | b0 :: b1 :: b2 :: b3 :: rest =>
    if b0 < 0x80 then utf8Valid (b1 :: b2 :: b3 :: rest)
    else if 0xC2 ≤ b0 && b0 ≤ 0xDF then isCont b1 && utf8Valid (b2 :: b3 :: rest)
    else if b0 == 0xE0 then 0xA0 ≤ b1 && b1 ≤ 0xBF && isCont b2 && utf8Valid (b3 :: rest)
    else if b0 == 0xED then 0x80 ≤ b1 && b1 ≤ 0x9F && isCont b2 && utf8Valid (b3 :: rest)
    else if 0xE1 ≤ b0 && b0 ≤ 0xEF then isCont b1 && isCont b2 && utf8Valid (b3 :: rest)
    else if b0 == 0xF0 then 0x90 ≤ b1 && b1 ≤ 0xBF && isCont b2 && isCont b3 && utf8Valid rest
    else if b0 == 0xF4 then 0x80 ≤ b1 && b1 ≤ 0x8F && isCont b2 && isCont b3 && utf8Valid rest
    else if 0xF1 ≤ b0 && b0 ≤ 0xF3 then isCont b1 && isCont b2 && isCont b3 && utf8Valid rest
    else false

/-- `read_string_utf8_unterminated` [728]: u32 length, then that many bytes
    (`gread_with(offset, len)`), which must be well-formed UTF-8 (`str::from_utf8(..).ok()`). -/
def readStringUtf8Unterminated (b : Bytes) (off : Nat) (e : Endian) : Option (Bytes × Nat) :=
  match readU32 b off e with
  | none => none
  | some len =>
    -- gread_with::<&[u8]>(offset, len): BadOffset if offset > len(bytes), TooBig if len > remaining
    if off + 4 > b.size then none
    else if len > b.size - (off + 4) then none
    else
      let s := b.extract (off + 4) (off + 4 + len)
      if utf8Valid s.toList then some (s, off + 4 + len) else none

/-- `read_string_utf8` [738]: as above, followed by a NUL byte -/
def readStringUtf8 (b : Bytes) (off : Nat) (e : Endian) : Option (Bytes × Nat) :=
  match readStringUtf8Unterminated b off e with
  | none => none
  | some (s, off') =>
    match readScalar b off' 1 e with
    | some 0 => some (s, off' + 1)
    | _ => none

/-- the scan loop of `read_cstring_utf8` [750]: position just after the first NUL at or after `off` -/
def cstringScan (b : Bytes) : Nat → Nat → Option Nat
  | 0, _ => none
  | fuel + 1, off =>
    match readScalar b off 1 .little with
    | none => none
    | some 0 => some (off + 1)
    | some _ => cstringScan b fuel (off + 1)

/-- `read_cstring_utf8` [750]. Panic sites: `*offset - 1`, `&bytes[initial_offset..*offset - 1]`.
    The scan reads at most `len - off + 1` bytes, hence the fuel. -/
def readCStringUtf8 (b : Bytes) (off : Nat) : M (Option (Bytes × Nat)) :=
  match cstringScan b (b.size + 1) off with
  | none => pure none
  | some stop =>
    usizeSub "read_cstring_utf8: *offset - 1" stop 1 >>= fun last =>
    sliceRange "read_cstring_utf8: &bytes[initial_offset..*offset - 1]" b off last >>= fun s =>
    pure (some (s, stop))

/-! ## CodeView records -/

inductive CodeView where
  /-- `CV_INFO_PDB70`: signature GUID as 4 numbers (data1, data2, data3, data4 as LE number), age, file name bytes -/
  | pdb70 (guid : List Nat) (age : Nat) (name : Bytes)
  /-- `CV_INFO_PDB20`: cv_offset, signature, age, file name bytes -/
  | pdb20 (offset signature age : Nat) (name : Bytes)
  /-- `CV_INFO_ELF`: build id -/
  | elf (buildId : Bytes)
  | unknown (raw : Bytes)
  deriving Repr

def CodeView.kind : CodeView → String
  | .pdb70 .. => "pdb70"
  | .pdb20 .. => "pdb20"
  | .elf .. => "elf"
  | .unknown r => s!"unk{r.size}"

/-- fixed part of `CV_INFO_PDB70` (hand-written `TryFromCtx`, format.rs:509): cv_signature, GUID, age -/
def CV_PDB70_FIXED : Layout := ("cv_signature", 4) :: (GUID.map fun (n, w) => ("signature." ++ n, w)) ++ [("age", 4)]
/-- fixed part of `CV_INFO_PDB20` (format.rs:474) -/
def CV_PDB20_FIXED : Layout := [("cv_signature", 4), ("cv_offset", 4), ("signature", 4), ("age", 4)]

/-- the variable tail of the three `CV_INFO_*` readers:
    `let size = src.len() - *offset; src.gread_with::<&[u8]>(offset, size)?.to_owned()` -/
def cvTail (src : Bytes) (fixed : Nat) : M Bytes :=
  usizeSub "CV_INFO_*: src.len() - *offset" src.size fixed >>= fun n =>
  M.alloc n 1 >>= fun _ =>
  pure (src.extract fixed src.size)

/-- `read_codeview` [775] -/
def readCodeview (all : Bytes) (e : Endian) (loc : Loc) : M (Option CodeView) :=
  match locationSlice all loc with
  | none => pure none
  | some src =>
    match readU32 src 0 e with
    | none => pure none
    | some sig =>
      if sig = CV_SIGNATURE_PDB70 then
        match readFields CV_PDB70_FIXED src 0 e with
        | none => pure none
        | some vs =>
          cvTail src (Layout.size CV_PDB70_FIXED) >>= fun name =>
          pure (some (.pdb70 ((vs.drop 1).take 11) (fld vs 12) name))
      else if sig = CV_SIGNATURE_PDB20 then
        match readFields CV_PDB20_FIXED src 0 e with
        | none => pure none
        | some vs =>
          cvTail src (Layout.size CV_PDB20_FIXED) >>= fun name =>
          pure (some (.pdb20 (fld vs 1) (fld vs 2) (fld vs 3) name))
      else if sig = CV_SIGNATURE_ELF then
        cvTail src 4 >>= fun id => pure (some (.elf id))
      else
        M.alloc src.size 1 >>= fun _ => pure (some (.unknown src))

/-! ## list headers -/

/-- `ensure_count_in_bound` [846]; returns `expected_size`. -/
def ensureCountInBound (len n size off : Nat) : Except Err Nat :=
  match checkedMul n size with
  | none => .error .StreamReadFailure
  | some v =>
    match checkedAdd v off with
    | none => .error .StreamReadFailure
    | some expected => if len < expected then .error .StreamSizeMismatch else .ok expected

/-- `read_stream_list` [1292]: u32 count; the stream is exactly the entries, or the entries plus 4
    bytes of padding after the count. `memSz` = `size_of::<T>()` of the vector it allocates.
    Panic sites: `bytes.len() - counted_size`, `*offset += 4`. -/
def readStreamList (l : Layout) (memSz : Nat) (b : Bytes) (e : Endian) : M (List (List Nat)) :=
  match readU32 b 0 e with
  | none => M.fail .StreamReadFailure
  | some count =>
    match ensureCountInBound b.size count (Layout.size l) 4 with
    | .error er => M.fail er
    | .ok counted =>
      usizeSub "read_stream_list: bytes.len() - counted_size" b.size counted >>= fun rest =>
      (if rest = 0 then pure 4
       else if rest = 4 then usizeAdd "read_stream_list: *offset += 4" 4 4
       else M.fail .StreamSizeMismatch) >>= fun off =>
      M.alloc count memSz >>= fun _ =>
      M.ofOption .StreamReadFailure (readEntries l b e off count)

/-- `read_ex_stream_list` [1336]: header size, entry size (must equal the struct's), u32 count.
    Panic site: `*offset += header_padding`. -/
def readExStreamList (l : Layout) (memSz : Nat) (b : Bytes) (e : Endian) : M (List (List Nat)) :=
  match readU32 b 0 e, readU32 b 4 e, readU32 b 8 e with
  | some hdr, some ent, some count =>
    if ent ≠ Layout.size l then M.fail .StreamReadFailure else
    match ensureCountInBound b.size count ent hdr with
    | .error er => M.fail er
    | .ok _ =>
      match checkedSub hdr 12 with
      | none => M.fail .StreamReadFailure
      | some pad =>
        usizeAdd "read_ex_stream_list: *offset += header_padding" 12 pad >>= fun off =>
        M.alloc count memSz >>= fun _ =>
        M.ofOption .StreamReadFailure (readEntries l b e off count)
  | _, _, _ => M.fail .StreamReadFailure

/-! ## modules -/

/-- the fields of `MINIDUMP_MODULE` the model looks at (all values stay available in `vals`) -/
structure RawModule where
  base : Nat
  size : Nat
  checksum : Nat
  time : Nat
  nameRva : Nat
  cv : Loc
  misc : Loc
  vals : List Nat
  deriving Repr

def RawModule.ofVals (v : List Nat) : RawModule :=
  { base := fld v 0, size := fld v 1, checksum := fld v 2, time := fld v 3, nameRva := fld v 4,
    cv := ⟨fld v 18, fld v 19⟩, misc := ⟨fld v 20, fld v 21⟩, vals := v }

structure Module where
  raw : RawModule
  name : List Nat
  codeview : Option CodeView
  deriving Repr

/-- `MinidumpModule::read` [886] -/
def readModule (all : Bytes) (e : Endian) (raw : RawModule) : M Module :=
  readStringUtf16 all raw.nameRva e >>= fun r =>
  match r with
  | none => M.fail .CodeViewReadFailure
  | some (name, _) =>
    if raw.cv.size = 0 then pure ⟨raw, name, none⟩
    else
      readCodeview all e raw.cv >>= fun cv =>
      match cv with
      | none => M.fail .CodeViewReadFailure
      | some cv => pure ⟨raw, name, some cv⟩

/-- "bad image size" test shared by both module lists:
    `size_of_image == 0 || size_of_image as u64 > u64::MAX - base_of_image` -/
def badImageSize (base size : Nat) : Bool := size = 0 || size > U64MAX - base

/-- the loop of `MinidumpModuleList::read` [1554]: bad sizes are skipped, a module that cannot be
    read fails the stream. -/
def readModules (all : Bytes) (e : Endian) : List RawModule → M (List Module)
  | [] => pure []
  | r :: rs =>
    if badImageSize r.base r.size then readModules all e rs
    else
      readModule all e r >>= fun m =>
      readModules all e rs >>= fun ms =>
      pure (m :: ms)

/-- `MinidumpModuleList::read` [1544] -/
def readModuleList (ms : MemSizes) (b all : Bytes) (e : Endian) : M (List Module) :=
  readStreamList MINIDUMP_MODULE ms.rawModule b e >>= fun raws =>
  M.alloc raws.length ms.module >>= fun _ =>
  readModules all e (raws.map RawModule.ofVals)

structure UnloadedModule where
  base : Nat
  size : Nat
  checksum : Nat
  time : Nat
  nameRva : Nat
  name : List Nat
  deriving Repr

/-- the loop of `MinidumpUnloadedModuleList::read` [1661]: a bad size FAILS the stream. -/
def readUnloadedModules (all : Bytes) (e : Endian) : List (List Nat) → M (List UnloadedModule)
  | [] => pure []
  | v :: vs =>
    if badImageSize (fld v 0) (fld v 1) then M.fail .ModuleReadFailure
    else
      readStringUtf16 all (fld v 4) e >>= fun r =>
      match r with
      | none => M.fail .DataError
      | some (name, _) =>
        readUnloadedModules all e vs >>= fun ms =>
        pure (⟨fld v 0, fld v 1, fld v 2, fld v 3, fld v 4, name⟩ :: ms)

/-- `MinidumpUnloadedModuleList::read` [1650] -/
def readUnloadedModuleList (ms : MemSizes) (b all : Bytes) (e : Endian) : M (List UnloadedModule) :=
  readExStreamList MINIDUMP_UNLOADED_MODULE ms.rawUnloaded b e >>= fun raws =>
  M.alloc raws.length ms.unloaded >>= fun _ =>
  readUnloadedModules all e raws

/-! ## thread names -/

/-- `BTreeMap::insert`: sorted by key, an existing key is overwritten -/
def mapInsert {α : Type} (k : Nat) (v : α) : List (Nat × α) → List (Nat × α)
  | [] => [(k, v)]
  | (k', v') :: rest =>
    if k < k' then (k, v) :: (k', v') :: rest
    else if k = k' then (k, v) :: rest
    else (k', v') :: mapInsert k v rest

def mapGet {α : Type} (k : Nat) : List (Nat × α) → Option α
  | [] => none
  | (k', v) :: rest => if k = k' then some v else mapGet k rest

/-- the loop of `MinidumpThreadNames::read` [1416]: unreadable names are dropped one by one -/
def readNames (all : Bytes) (e : Endian) : List (List Nat) → List (Nat × List Nat) → M (List (Nat × List Nat))
  | [], acc => pure acc
  | v :: vs, acc =>
    readStringUtf16 all (fld v 1) e >>= fun r =>
    match r with
    | none => readNames all e vs acc
    | some (name, _) => readNames all e vs (mapInsert (fld v 0) name acc)

/-- `MinidumpThreadNames::read` [1405]; result sorted by thread id, last duplicate wins -/
def readThreadNames (ms : MemSizes) (b all : Bytes) (e : Endian) : M (List (Nat × List Nat)) :=
  readStreamList MINIDUMP_THREAD_NAME ms.rawThreadName b e >>= fun raws =>
  readNames all e raws []

/-! ## memory lists -/

/-- `MinidumpMemoryList::read` [2314]: corrupt entries are skipped -/
def readMemoryList (ms : MemSizes) (b all : Bytes) (e : Endian) : M (List Region) :=
  readStreamList MINIDUMP_MEMORY_DESCRIPTOR ms.rawMemDesc b e >>= fun raws =>
  M.alloc raws.length ms.memory >>= fun _ =>
  pure (raws.filterMap fun v =>
    match readMemoryDesc all.size (fld v 0) ⟨fld v 1, fld v 2⟩ with
    | .ok r => some r
    | .error _ => none)

/-- the second loop of `MinidumpMemory64List::read` [2378]: running RVA with `checked_add`,
    `all.get(start as usize..end as usize)` -/
def mem64Regions (allLen : Nat) : Nat → List (List Nat) → Except Err (List Region)
  | _, [] => .ok []
  | rva, v :: vs =>
    match checkedAdd rva (fld v 1) with
    | none => .error .StreamReadFailure
    | some stop =>
      if rva ≤ stop ∧ stop ≤ allLen then
        match mem64Regions allLen stop vs with
        | .error er => .error er
        | .ok rs => .ok (⟨fld v 0, fld v 1, rva⟩ :: rs)
      else .error .StreamReadFailure

/-- `MinidumpMemory64List::read` [2340]: u64 count, u64 base RVA, exact length -/
def readMemory64List (ms : MemSizes) (b all : Bytes) (e : Endian) : M (List Region) :=
  match readU64 b 0 e, readU64 b 8 e with
  | some count, some rva =>
    -- `u.try_into::<usize>()` cannot fail on a 64-bit target
    match ensureCountInBound b.size count (Layout.size MINIDUMP_MEMORY_DESCRIPTOR64) 16 with
    | .error er => M.fail er
    | .ok counted =>
      if b.size ≠ counted then M.fail .StreamSizeMismatch else
      M.alloc count ms.rawMemDesc64 >>= fun _ =>
      M.ofOption .StreamReadFailure (readEntries MINIDUMP_MEMORY_DESCRIPTOR64 b e 16 count) >>= fun raws =>
      M.alloc raws.length ms.memory64 >>= fun _ =>
      M.ofExcept (mem64Regions all.size rva raws)
  | _, _ => M.fail .StreamReadFailure

structure MemInfo where
  base : Nat
  allocBase : Nat
  allocProt : Nat
  size : Nat
  state : Nat
  prot : Nat
  ty : Nat
  deriving Repr

/-- `MinidumpMemoryInfoList::read` [2404] -/
def readMemoryInfoList (ms : MemSizes) (b : Bytes) (e : Endian) : M (List MemInfo) :=
  readExStreamList MINIDUMP_MEMORY_INFO ms.rawMemInfo b e >>= fun raws =>
  M.alloc raws.length ms.memInfo >>= fun _ =>
  pure (raws.map fun v => ⟨fld v 0, fld v 1, fld v 2, fld v 4, fld v 5, fld v 6, fld v 7⟩)

/-! ## threads -/

structure Thread where
  id : Nat
  suspendCount : Nat
  priorityClass : Nat
  priority : Nat
  teb : Nat
  stackStart : Nat
  stackLoc : Loc
  ctxLoc : Loc
  /-- `location_slice(all, &raw.thread_context).ok()` as an index range -/
  context : Option (Nat × Nat)
  /-- `MinidumpMemory::read(&raw.stack, all, endian).ok()` -/
  stack : Option Region
  deriving Repr

def Thread.ofVals (allLen : Nat) (v : List Nat) : Thread :=
  let stackLoc : Loc := ⟨fld v 6, fld v 7⟩
  let ctxLoc : Loc := ⟨fld v 8, fld v 9⟩
  { id := fld v 0, suspendCount := fld v 1, priorityClass := fld v 2, priority := fld v 3, teb := fld v 4,
    stackStart := fld v 5, stackLoc := stackLoc, ctxLoc := ctxLoc,
    context := locationRange allLen ctxLoc,
    stack := match readMemoryDesc allLen (fld v 5) stackLoc with
      | .ok r => some r
      | .error _ => none }

/-- `MinidumpThreadList::read` [2999] -/
def readThreadList (ms : MemSizes) (b all : Bytes) (e : Endian) : M (List Thread) :=
  readStreamList MINIDUMP_THREAD ms.rawThread b e >>= fun raws =>
  M.alloc raws.length ms.thread >>= fun _ =>
  M.alloc raws.length HASHMAP_SLOT false >>= fun _ =>
  pure (raws.map (Thread.ofVals all.size))

/-- `MinidumpThreadInfoList::read` [3148]: the thread ids, in file order -/
def readThreadInfoList (ms : MemSizes) (b : Bytes) (e : Endian) : M (List (List Nat)) :=
  readExStreamList MINIDUMP_THREAD_INFO ms.rawThreadInfo b e >>= fun raws =>
  M.alloc raws.length ms.threadInfo >>= fun _ =>
  M.alloc raws.length HASHMAP_SLOT false >>= fun _ =>
  pure raws

/-! ## handle data -/

structure ObjInfo where
  next : Nat
  ty : Nat
  size : Nat
  deriving Repr, DecidableEq

/-- `read_object_info` [1777]: `None` for offset 0, an unreadable record, or an unknown
    `info_type` (F1: that used to be an `unwrap` panic). -/
def readObjectInfo (all : Bytes) (e : Endian) (rva : Nat) : Option ObjInfo :=
  if rva = 0 then none else
  match readFields MINIDUMP_HANDLE_OBJECT_INFORMATION all rva e with
  | none => none
  | some v => if fld v 1 < OBJECT_INFO_TYPE_COUNT then some ⟨fld v 0, fld v 1, fld v 2⟩ else none

/-- The `while object_info_rva != 0` loop [1853] with the visited set `seen_rvas` (F2).
    `none` = fuel exhausted, i.e. the loop did not end within `fuel` iterations; the theorem
    `handle_chain_terminates` shows this cannot happen for `fuel = all.size + 1`. -/
def walkChain (all : Bytes) (e : Endian) : Nat → Nat → List Nat → List ObjInfo → Option (List ObjInfo)
  | 0, _, _, _ => none
  | fuel + 1, rva, seen, acc =>
    if rva = 0 then some acc.reverse
    else if seen.contains rva then some acc.reverse
    else
      match readObjectInfo all e rva with
      | none => some acc.reverse
      | some oi => walkChain all e fuel oi.next (rva :: seen) (oi :: acc)

structure Handle where
  vals : List Nat
  typeName : Option (List Nat)
  objectName : Option (List Nat)
  infos : List ObjInfo
  deriving Repr

/-- `MinidumpHandleDescriptor::read_string` [1768] -/
def handleString (all : Bytes) (e : Endian) (off : Nat) : M (Option (List Nat)) :=
  if off = 0 then pure none
  else readStringUtf16 all off e >>= fun r => pure (r.map (·.1))

/-- `TryFromCtx<HandleDescriptorContext> for MinidumpHandleDescriptor` [1821], `src = bytes[off..]`.
    `Ok(none)` stands for the scroll error (unreadable descriptor / unknown size). -/
def readHandleDescriptor (ms : MemSizes) (b all : Bytes) (e : Endian) (fieldsize off : Nat) : M (Option Handle) :=
  if fieldsize = Layout.size MINIDUMP_HANDLE_DESCRIPTOR then
    match readFields MINIDUMP_HANDLE_DESCRIPTOR b off e with
    | none => pure none
    | some v =>
      handleString all e (fld v 1) >>= fun tn =>
      handleString all e (fld v 2) >>= fun on =>
      pure (some ⟨v, tn, on, []⟩)
  else if fieldsize = Layout.size MINIDUMP_HANDLE_DESCRIPTOR_2 then
    match readFields MINIDUMP_HANDLE_DESCRIPTOR_2 b off e with
    | none => pure none
    | some v =>
      handleString all e (fld v 1) >>= fun tn =>
      handleString all e (fld v 2) >>= fun on =>
      match walkChain all e (all.size + 1) (fld v 7) [] [] with
      | none => M.panic "handle object-info chain: the walk does not end (hang)"
      | some infos =>
        -- `object_infos` grows by `push`, `seen_rvas` by `insert`: inexact, ≤ 2x the final length
        M.alloc infos.length (2 * ms.objInfo) false >>= fun _ =>
        pure (some ⟨v, tn, on, infos⟩)
  else pure none

/-- the `for _ in 0..number_of_entries` loop of `MinidumpHandleDataStream::read` [1967] -/
def readHandles (ms : MemSizes) (b all : Bytes) (e : Endian) (fieldsize : Nat) : Nat → Nat → M (List Handle)
  | 0, _ => pure []
  | n + 1, off =>
    -- gread_with(&mut offset, ctx): BadOffset when offset > len
    if off > b.size then M.fail .StreamReadFailure else
    readHandleDescriptor ms b all e fieldsize off >>= fun h =>
    match h with
    | none => M.fail .StreamReadFailure
    | some h =>
      readHandles ms b all e fieldsize n (off + fieldsize) >>= fun hs =>
      pure (h :: hs)

/-- `MinidumpHandleDataStream::read` [1929] (F3: an unknown descriptor size fails before the
    `Vec::with_capacity(number_of_entries)`) -/
def readHandleData (ms : MemSizes) (b all : Bytes) (e : Endian) : M (List Handle) :=
  match readU32 b 0 e, readU32 b 4 e, readU32 b 8 e with
  | some hdr, some desc, some count =>
    match ensureCountInBound b.size count desc hdr with
    | .error er => M.fail er
    | .ok _ =>
      if count ≠ 0 ∧ desc ≠ Layout.size MINIDUMP_HANDLE_DESCRIPTOR ∧ desc ≠ Layout.size MINIDUMP_HANDLE_DESCRIPTOR_2 then
        M.fail .StreamReadFailure
      else
        M.alloc count ms.handleDesc >>= fun _ =>
        readHandles ms b all e desc count hdr
  | _, _, _ => M.fail .StreamReadFailure

/-! ## exception -/

structure Exception where
  threadId : Nat
  code : Nat
  flags : Nat
  record : Nat
  address : Nat
  numberParameters : Nat
  /-- `exception_information: [u64; 15]` -/
  info : List Nat
  ctxLoc : Loc
  context : Option (Nat × Nat)
  deriving Repr

/-- `MinidumpException::read` [4867] -/
def readException (b all : Bytes) (e : Endian) : M Exception :=
  match readFields MINIDUMP_EXCEPTION_STREAM b 0 e with
  | none => M.fail .StreamReadFailure
  | some v =>
    let ctxLoc : Loc := ⟨fld v 23, fld v 24⟩
    pure { threadId := fld v 0, code := fld v 2, flags := fld v 3, record := fld v 4, address := fld v 5,
           numberParameters := fld v 6, info := (v.drop 8).take 15, ctxLoc := ctxLoc,
           context := locationRange all.size ctxLoc }

/-- Indexing the fixed array `exception_information[i]`: panics when `i` is out of bounds. -/
def infoAt (x : Exception) (i : Nat) : M Nat :=
  match x.info[i]? with
  | some v => pure v
  | none => M.panic "exception_information[i]: index out of bounds"

/-- The parameter loop of `MinidumpException::print` [4988] (F4):
    `exception_information.iter().enumerate().take(number_parameters as usize)`;
    the pairs (index, value) it prints. No indexing is left in the loop. -/
def printedParams (x : Exception) : List (Nat × Nat) :=
  (x.info.zipIdx.take x.numberParameters).map fun (v, i) => (i, v)

/-- The address selection of `get_crash_address` [4918] before the pointer-width mask:
    `exception_information[1]` for Windows access violations / in-page errors with ≥ 2 parameters. -/
def crashAddressRaw (x : Exception) (windows : Bool) : M Nat :=
  if windows ∧ (x.code = 0xC0000005 ∨ x.code = 0xC0000006) ∧ x.numberParameters ≥ 2 then infoAt x 1
  else pure x.address

/-! ## Crashpad info (the code after `fix: Crashpad annotations can no longer blow a small dump up cubically`) -/

/-- lexicographic order on byte strings = `Ord for str` (UTF-8 byte order) -/
def bytesLt : List UInt8 → List UInt8 → Bool
  | [], [] => false
  | [], _ :: _ => true
  | _ :: _, [] => false
  | a :: as, b :: bs => a < b || (a == b && bytesLt as bs)

/-- `BTreeMap<String, V>::insert` on an association list sorted by key -/
def dictInsert {α : Type} (k : Bytes) (v : α) : List (Bytes × α) → List (Bytes × α)
  | [] => [(k, v)]
  | (k', v') :: rest =>
    if bytesLt k.toList k'.toList then (k, v) :: (k', v') :: rest
    else if k.toList == k'.toList then (k, v) :: rest
    else (k', v') :: dictInsert k v rest

/-- `charge_string_budget` [5103]: `budget.checked_sub(len).ok_or(StreamReadFailure)` -/
def chargeBudget (budget len : Nat) : Except Err Nat :=
  match checkedSub budget len with
  | none => .error .StreamReadFailure
  | some b => .ok b

/-- one iteration of the loop of `read_string_list` [5127]; state = (strings so far, reversed; budget) -/
def stringListStep (all data : Bytes) (e : Endian) (st : List Bytes × Nat) (i : Nat) : M (List Bytes × Nat) :=
  match readU32 data (4 + 4 * i) e with
  | none => M.fail .StreamReadFailure
  | some rva =>
    match readStringUtf8 all rva e with
    | none => M.fail .StreamReadFailure
    | some (s, _) =>
      match chargeBudget st.2 s.size with
      | .error er => M.fail er
      | .ok budget =>
        M.alloc s.size 1 >>= fun _ => pure (s :: st.1, budget)   -- `string.to_owned()`

/-- `read_string_list` [5108]: returns the strings and the budget left -/
def readStringList (ms : MemSizes) (all : Bytes) (e : Endian) (loc : Loc) (budget : Nat) : M (List Bytes × Nat) :=
  match locationSlice all loc with
  | none => M.fail .StreamReadFailure
  | some data =>
    if data.size = 0 then pure ([], budget) else
    match readU32 data 0 e with
    | none => M.fail .StreamReadFailure
    | some count =>
      -- NB: bounded against the whole file, not against `data`
      match ensureCountInBound all.size count 4 0 with
      | .error er => M.fail er
      | .ok _ =>
        M.alloc count ms.string >>= fun _ =>
        M.loop count ([], budget) (stringListStep all data e) >>= fun st =>
        pure (st.1.reverse, st.2)

/-- one iteration of the loop of `read_simple_string_dictionary` [5162] -/
def dictStep (all data : Bytes) (e : Endian) (st : List (Bytes × Bytes) × Nat) (i : Nat) :
    M (List (Bytes × Bytes) × Nat) :=
  match readFields MINIDUMP_SIMPLE_STRING_DICTIONARY_ENTRY data (4 + 8 * i) e with
  | none => M.fail .StreamReadFailure
  | some v =>
    match readStringUtf8 all (fld v 0) e, readStringUtf8 all (fld v 1) e with
    | some (k, _), some (val, _) =>
      match chargeBudget st.2 (k.size + val.size) with
      | .error er => M.fail er
      | .ok budget =>
        M.alloc k.size 1 >>= fun _ =>
        M.alloc val.size 1 >>= fun _ =>
        pure (dictInsert k val st.1, budget)
    | _, _ => M.fail .StreamReadFailure

/-- `read_simple_string_dictionary` [5143]; the count is NOT checked against anything: the loop
    ends when an entry can no longer be read from `data`. -/
def readSimpleDict (all : Bytes) (e : Endian) (loc : Loc) (budget : Nat) : M (List (Bytes × Bytes) × Nat) :=
  match locationSlice all loc with
  | none => M.fail .StreamReadFailure
  | some data =>
    if data.size = 0 then pure ([], budget) else
    match readU32 data 0 e with
    | none => M.fail .StreamReadFailure
    | some count => M.loop count ([], budget) (dictStep all data e)

inductive AnnotationValue where
  | invalid
  | string (s : Bytes)
  | userDefined (ty value : Nat)
  | unsupported (ty value : Nat)
  deriving Repr

/-- one iteration of the loop of `read_annotation_objects` [5198] -/
def annotationStep (all data : Bytes) (e : Endian) (st : List (Bytes × AnnotationValue) × Nat) (i : Nat) :
    M (List (Bytes × AnnotationValue) × Nat) :=
  match readFields MINIDUMP_ANNOTATION data (4 + 12 * i) e with
  | none => M.fail .StreamReadFailure
  | some v =>
    match readStringUtf8 all (fld v 0) e with
    | none => M.fail .StreamReadFailure
    | some (k, _) =>
      match chargeBudget st.2 k.size with
      | .error er => M.fail er
      | .ok budget =>
        let ty := fld v 1
        if ty = ANNOTATION_TYPE_INVALID then
          M.alloc k.size 1 >>= fun _ => pure (dictInsert k .invalid st.1, budget)
        else if ty = ANNOTATION_TYPE_STRING then
          match readStringUtf8Unterminated all (fld v 3) e with
          | none => M.fail .StreamReadFailure
          | some (val, _) =>
            match chargeBudget budget val.size with
            | .error er => M.fail er
            | .ok budget' =>
              M.alloc val.size 1 >>= fun _ =>
              M.alloc k.size 1 >>= fun _ =>
              pure (dictInsert k (.string val) st.1, budget')
        else if ty ≥ ANNOTATION_TYPE_USER_DEFINED then
          M.alloc k.size 1 >>= fun _ => pure (dictInsert k (.userDefined ty (fld v 3)) st.1, budget)
        else
          M.alloc k.size 1 >>= fun _ => pure (dictInsert k (.unsupported ty (fld v 3)) st.1, budget)

/-- `read_annotation_objects` [5179] -/
def readAnnotationObjects (all : Bytes) (e : Endian) (loc : Loc) (budget : Nat) :
    M (List (Bytes × AnnotationValue) × Nat) :=
  match locationSlice all loc with
  | none => M.fail .StreamReadFailure
  | some data =>
    if data.size = 0 then pure ([], budget) else
    match readU32 data 0 e with
    | none => M.fail .StreamReadFailure
    | some count => M.loop count ([], budget) (annotationStep all data e)

structure ModuleCrashpadInfo where
  moduleIndex : Nat
  version : Nat
  listAnnotations : List Bytes
  simpleAnnotations : List (Bytes × Bytes)
  annotationObjects : List (Bytes × AnnotationValue)
  /-- what is left of the budget `all.len()` the three reads share -/
  budgetLeft : Nat
  deriving Repr

/-- `MinidumpModuleCrashpadInfo::read` [5228]: the three reads share one budget of `all.len()`
    bytes of copied string data. -/
def readModuleCrashpadInfo (ms : MemSizes) (all : Bytes) (e : Endian) (index : Nat) (loc : Loc) : M ModuleCrashpadInfo :=
  match readFields MINIDUMP_MODULE_CRASHPAD_INFO all loc.rva e with
  | none => M.fail .StreamReadFailure
  | some v =>
    readStringList ms all e ⟨fld v 1, fld v 2⟩ all.size >>= fun r1 =>
    readSimpleDict all e ⟨fld v 3, fld v 4⟩ r1.2 >>= fun r2 =>
    readAnnotationObjects all e ⟨fld v 5, fld v 6⟩ r2.2 >>= fun r3 =>
    pure ⟨index, fld v 0, r1.1, r2.1, r3.1, r3.2⟩

/-- one iteration of the loop of `read_crashpad_module_links` [5275] -/
def linkStep (ms : MemSizes) (all data : Bytes) (e : Endian) (st : List ModuleCrashpadInfo) (i : Nat) :
    M (List ModuleCrashpadInfo) :=
  match readFields MINIDUMP_MODULE_CRASHPAD_INFO_LINK data (4 + 12 * i) e with
  | none => M.fail .StreamReadFailure
  | some v =>
    readModuleCrashpadInfo ms all e (fld v 0) ⟨fld v 1, fld v 2⟩ >>= fun info => pure (info :: st)

/-- `read_crashpad_module_links` [5254] -/
def readCrashpadModuleLinks (ms : MemSizes) (all : Bytes) (e : Endian) (loc : Loc) : M (List ModuleCrashpadInfo) :=
  match locationSlice all loc with
  | none => M.fail .StreamReadFailure
  | some data =>
    if data.size = 0 then pure [] else
    match readU32 data 0 e with
    | none => M.fail .StreamReadFailure
    | some count =>
      match ensureCountInBound all.size count (Layout.size MINIDUMP_MODULE_CRASHPAD_INFO_LINK) 0 with
      | .error er => M.fail er
      | .ok _ =>
        M.alloc count ms.moduleCrashpad >>= fun _ =>
        M.loop count [] (linkStep ms all data e) >>= fun st => pure st.reverse

structure CrashpadInfo where
  version : Nat
  simpleAnnotations : List (Bytes × Bytes)
  modules : List ModuleCrashpadInfo
  deriving Repr

/-- `MinidumpCrashpadInfo::read` [5293] -/
def readCrashpadInfo (ms : MemSizes) (b all : Bytes) (e : Endian) : M CrashpadInfo :=
  match readFields MINIDUMP_CRASHPAD_INFO b 0 e with
  | none => M.fail .StreamReadFailure
  | some v =>
    if fld v 0 = 0 then M.fail .VersionMismatch else
    readSimpleDict all e ⟨fld v 23, fld v 24⟩ all.size >>= fun d =>
    readCrashpadModuleLinks ms all e ⟨fld v 25, fld v 26⟩ >>= fun ms' =>
    pure ⟨fld v 0, d.1, ms'⟩

/-! ## `Minidump::read` -/

structure Header where
  signature : Nat
  version : Nat
  streamCount : Nat
  dirRva : Nat
  checksum : Nat
  time : Nat
  flags : Nat
  deriving Repr

def Header.ofVals (v : List Nat) : Header :=
  ⟨fld v 0, fld v 1, fld v 2, fld v 3, fld v 4, fld v 5, fld v 6⟩

/-- directory entry as kept in `streams: BTreeMap<u32, (u32, MINIDUMP_DIRECTORY)>` -/
structure DirEntry where
  idx : Nat
  loc : Loc
  deriving Repr, DecidableEq

/-- The directory loop `for i in 0..header.stream_count` [5447]; `todo` = iterations left.
    Returns the map and the number of iterations performed (`directory_terminates`). -/
def readDirectory (b : Bytes) (e : Endian) : Nat → Nat → Nat → List (Nat × DirEntry) → Except Err (List (Nat × DirEntry)) × Nat
  | 0, i, _, acc => (.ok acc, i)
  | todo + 1, i, off, acc =>
    match readFields MINIDUMP_DIRECTORY b off e with
    | none => (.error .MissingDirectory, i + 1)
    | some v =>
      readDirectory b e todo (i + 1) (off + Layout.size MINIDUMP_DIRECTORY)
        (mapInsert (fld v 0) ⟨i, ⟨fld v 1, fld v 2⟩⟩ acc)

/-- `u32::swap_bytes` -/
def swapBytes32 (x : Nat) : Nat :=
  (x % 256) * 16777216 + (x / 256 % 256) * 65536 + (x / 65536 % 256) * 256 + (x / 16777216 % 256)

structure Dump where
  endian : Endian
  header : Header
  /-- sorted by stream type; the LAST directory entry of a type wins -/
  streams : List (Nat × DirEntry)
  /-- iterations of the directory loop -/
  dirSteps : Nat
  deriving Repr

/-- The first part of `Minidump::read` [5421-5439]: the header is read little-endian; if the
    signature only matches byte-swapped it is read again big-endian. -/
def pickHeader (b : Bytes) : Except Err (Endian × Header) :=
  match readFields MINIDUMP_HEADER b 0 .little with
  | none => .error .MissingHeader
  | some v =>
    let h := Header.ofVals v
    if h.signature = MINIDUMP_SIGNATURE then .ok (.little, h)
    else if swapBytes32 h.signature ≠ MINIDUMP_SIGNATURE then .error .HeaderMismatch
    else
      match readFields MINIDUMP_HEADER b 0 .big with
      | none => .error .MissingHeader
      | some v' =>
        let h' := Header.ofVals v'
        if h'.signature ≠ MINIDUMP_SIGNATURE then .error .HeaderMismatch else .ok (.big, h')

/-- `Minidump::read` [5420] without the eager `MinidumpSystemInfo` parse (not modelled; its
    failure is ignored by the code: `.ok()`). -/
def readDump (b : Bytes) : Except Err Dump :=
  match pickHeader b with
  | .error er => .error er
  | .ok (e, h) =>
    if h.version % 65536 ≠ MINIDUMP_VERSION then .error .VersionMismatch else
    match readDirectory b e h.streamCount 0 h.dirRva [] with
    | (.error er, _) => .error er
    | (.ok streams, steps) => .ok ⟨e, h, streams, steps⟩

/-- `get_raw_stream` [5600] -/
def getRawStream (d : Dump) (b : Bytes) (ty : Nat) : Except Err Bytes :=
  match mapGet ty d.streams with
  | none => .error .StreamNotFound
  | some ent =>
    match locationSlice b ent.loc with
    | none => .error .StreamReadFailure
    | some s => .ok s

/-- `get_stream::<S>` [5578] with `S::read = reader`; the error becomes a value (`M.catch'`). -/
def getStream {α : Type} (d : Dump) (b : Bytes) (ty : Nat) (reader : Bytes → M α) : M (Except Err α) :=
  match getRawStream d b ty with
  | .error er => pure (.error er)
  | .ok s => M.catch' (reader s)

/-! ## everything the `read` engine compares -/

def ST_THREAD_LIST : Nat := 3
def ST_MODULE_LIST : Nat := 4
def ST_MEMORY_LIST : Nat := 5
def ST_EXCEPTION : Nat := 6
def ST_MEMORY64_LIST : Nat := 9
def ST_HANDLE_DATA : Nat := 12
def ST_UNLOADED_MODULE_LIST : Nat := 14
def ST_MEMORY_INFO_LIST : Nat := 16
def ST_THREAD_INFO_LIST : Nat := 17
def ST_THREAD_NAMES : Nat := 24
def ST_CRASHPAD_INFO : Nat := 0x43500001

/-- the ten list / record streams -/
structure Core where
  threads : Except Err (List Thread)
  modules : Except Err (List Module)
  unloaded : Except Err (List UnloadedModule)
  memory : Except Err (List Region)
  memory64 : Except Err (List Region)
  memInfo : Except Err (List MemInfo)
  threadNames : Except Err (List (Nat × List Nat))
  threadInfo : Except Err (List (List Nat))
  handles : Except Err (List Handle)
  exception : Except Err Exception

structure Parsed where
  dump : Dump
  threads : Except Err (List Thread)
  modules : Except Err (List Module)
  unloaded : Except Err (List UnloadedModule)
  memory : Except Err (List Region)
  memory64 : Except Err (List Region)
  memInfo : Except Err (List MemInfo)
  threadNames : Except Err (List (Nat × List Nat))
  threadInfo : Except Err (List (List Nat))
  handles : Except Err (List Handle)
  exception : Except Err Exception
  crashpad : Except Err CrashpadInfo

/-- `get_stream` of the ten list / record streams (their allocation count is linear in the file) -/
def readCore (ms : MemSizes) (b : Bytes) (d : Dump) : M Core :=
  let e := d.endian
  getStream d b ST_THREAD_LIST (fun s => readThreadList ms s b e) >>= fun threads =>
  getStream d b ST_MODULE_LIST (fun s => readModuleList ms s b e) >>= fun modules =>
  getStream d b ST_UNLOADED_MODULE_LIST (fun s => readUnloadedModuleList ms s b e) >>= fun unloaded =>
  getStream d b ST_MEMORY_LIST (fun s => readMemoryList ms s b e) >>= fun memory =>
  getStream d b ST_MEMORY64_LIST (fun s => readMemory64List ms s b e) >>= fun memory64 =>
  getStream d b ST_MEMORY_INFO_LIST (fun s => readMemoryInfoList ms s e) >>= fun memInfo =>
  getStream d b ST_THREAD_NAMES (fun s => readThreadNames ms s b e) >>= fun threadNames =>
  getStream d b ST_THREAD_INFO_LIST (fun s => readThreadInfoList ms s e) >>= fun threadInfo =>
  getStream d b ST_HANDLE_DATA (fun s => readHandleData ms s b e) >>= fun handles =>
  getStream d b ST_EXCEPTION (fun s => readException s b e) >>= fun exception =>
  pure ⟨threads, modules, unloaded, memory, memory64, memInfo, threadNames, threadInfo, handles, exception⟩

/-- `Minidump::read` followed by `get_stream` of every modelled stream type. -/
def readAll (ms : MemSizes) (b : Bytes) : M (Except Err Parsed) :=
  match readDump b with
  | .error er => pure (.error er)
  | .ok d =>
    readCore ms b d >>= fun c =>
    getStream d b ST_CRASHPAD_INFO (fun s => readCrashpadInfo ms s b d.endian) >>= fun crashpad =>
    pure (.ok ⟨d, c.threads, c.modules, c.unloaded, c.memory, c.memory64, c.memInfo, c.threadNames, c.threadInfo,
               c.handles, c.exception, crashpad⟩)

/-- `get_memory` [5612]: `Memory64List` preferred, `MemoryList` on ANY error of the former. -/
def getMemoryKind (p : Parsed) : String :=
  match p.memory64, p.memory with
  | .ok _, _ => "mem64"
  | .error _, .ok _ => "mem"
  | .error _, .error _ => "none"

end MdModel.Dump
