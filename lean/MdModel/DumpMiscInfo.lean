/-
  MdModel.DumpMiscInfo — `MinidumpMiscInfo` on ARBITRARY bytes, with everything its accessors and its
  printer compute (line numbers of the pinned minidump/src/minidump.rs in brackets).

    MinidumpMiscInfo::read [3561]                      -> `readMiscInfo` (MdModel.Dump2, C02's reader, re-used)
    the accessors of `misc_accessors!` [3525]          -> `miscAccess` (MdModel.Dump2)
    MinidumpMiscInfo::print [4068]: which field prints "(invalid)", the three kinds of fixed
      UTF-16 arrays handed to `utf16_to_string` [5048] (`time_zone.standard_name` / `daylight_name`
      : [u16; 32], `build_string` : [u16; 260], `dbg_bld_str` : [u16; 40]) with its `&data[..len]`,
      and the `XstateFeatureIter` [format.rs 1748] loop over `xstate_data` (`1 << cur_idx`,
      `features[cur_idx]`)                             -> `miscPrint`
    MinidumpMiscInfo::process_create_time [4059]       -> `MiscPrinted.createTime` (`checked_add`: no panic site)

  Not modelled: the TEXT of `format_time_t` / `format_system_time` (crate `time`; the `as u8` /
  `as i32` casts in front of it cannot panic, the crate's functions return `Result`).
  Allocation log: the three / four decoded strings (`utf16ToString`'s estimate: 3 bytes per code
  unit, at most 260 units); everything else is bounded by a constant of the code.
-/
import MdModel.Dump2
import MdModel.DumpMisc
namespace MdModel.Dump
open MdModel MdModel.Gen.Layouts MdModel.Gen.LayoutsC02

/-- the sixteen fields `print` writes with `write_simple_field!` (and `process_create_time`, which
    it writes by hand), in printing order -/
def MISC_SIMPLE_FIELDS : List String :=
  ["size_of_info", "flags1", "process_id", "process_create_time", "process_user_time", "process_kernel_time",
   "processor_max_mhz", "processor_current_mhz", "processor_mhz_limit", "processor_max_idle_state",
   "processor_current_idle_state", "process_integrity_level", "process_execute_flags", "protected_process",
   "time_zone_id", "process_cookie"]

/-- `TIME_ZONE_INFORMATION` as the printer shows it -/
structure MiscTimeZone where
  bias : Nat
  standardName : Option (List Nat)
  standardDate : List Nat
  standardBias : Nat
  daylightName : Option (List Nat)
  daylightDate : List Nat
  daylightBias : Nat
  deriving Repr

structure MiscPrinted where
  ver : Nat
  /-- one entry per element of `MISC_SIMPLE_FIELDS`: `none` = the accessor returns `None` ("(invalid)") -/
  simple : List (Option Nat)
  timeZone : Option MiscTimeZone
  /-- `build_string().and_then(utf16_to_string)`: outer `none` = no accessor value or not UTF-16 -/
  buildString : Option (List Nat)
  dbgBldStr : Option (List Nat)
  /-- `none` = "(invalid)"; else the enabled features as (index, offset, size) -/
  xstate : Option (List (Nat × Nat × Nat))
  deriving Repr

/-- a scalar accessor: the single value of the field -/
def miscScalar (mi : MiscInfo) (name : String) : Option Nat :=
  match miscAccess mi name with
  | some (v :: _) => some v
  | _ => none

/-- `XstateFeatureIter::next` [format.rs 1748] driven to the end:
    `while self.idx < self.info.features.len()` (64, the length of the fixed array),
    `self.info.enabled_features & (1 << cur_idx)` (`1u64 << cur_idx` panics for `cur_idx >= 64` in a
    build with overflow checks), `self.info.features[cur_idx]` (index panic). `feats` = the
    (offset, size) pairs read from the stream. -/
def xstateIterGo (enabled : Nat) (feats : List (Nat × Nat)) : Nat → Nat → List (Nat × Nat × Nat) → M (List (Nat × Nat × Nat))
  | 0, _, acc => pure acc.reverse
  | todo + 1, idx, acc =>
    if idx ≥ 64 then M.panic "XstateFeatureIter::next: 1 << cur_idx"
    else if enabled &&& (1 <<< idx) ≠ 0 then
      match feats[idx]? with
      | none => M.panic "XstateFeatureIter::next: self.info.features[cur_idx]"
      | some f => xstateIterGo enabled feats todo (idx + 1) ((idx, f.1, f.2) :: acc)
    else xstateIterGo enabled feats todo (idx + 1) acc

def pairsOf : List Nat → List (Nat × Nat)
  | a :: b :: rest => (a, b) :: pairsOf rest
  | _ => []

/-- the length of `XSTATE_CONFIG_FEATURE_MSC_INFO::features` ([XSTATE_FEATURE; 64]) -/
def XSTATE_FEATURES_LEN : Nat := 64

/-- `xstate_data.iter()` on the values of the `xstate_data` field
    (size_of_info, context_size, enabled_features, then 64 x (offset, size)) -/
def xstateIter (vals : List Nat) : M (List (Nat × Nat × Nat)) :=
  xstateIterGo (fld vals 2) (pairsOf (vals.drop 3)) XSTATE_FEATURES_LEN 0 []

/-- the time-zone block of `print` [4114-4145] on the 83 values of the `time_zone` field -/
def miscTimeZone (v : List Nat) : M MiscTimeZone :=
  utf16ToString ((v.drop 1).take 32) >>= fun sn =>
  utf16ToString ((v.drop 42).take 32) >>= fun dn =>
  pure { bias := fld v 0, standardName := sn, standardDate := (v.drop 33).take 8, standardBias := fld v 41,
         daylightName := dn, daylightDate := (v.drop 74).take 8, daylightBias := fld v 82 }

/-- `MinidumpMiscInfo::print` [4068] + `process_create_time` [4059]: every accessor it calls and
    what it computes from the values (the text itself is not modelled) -/
def miscPrint (mi : MiscInfo) : M MiscPrinted :=
  (match miscAccess mi "time_zone" with
   | some v => miscTimeZone v >>= fun t => pure (some t)
   | none => pure none) >>= fun tz =>
  (match miscAccess mi "build_string" with
   | some v => utf16ToString v
   | none => pure none) >>= fun bs =>
  (match miscAccess mi "dbg_bld_str" with
   | some v => utf16ToString v
   | none => pure none) >>= fun dbs =>
  (match miscAccess mi "xstate_data" with
   | some v => xstateIter v >>= fun fs => pure (some fs)
   | none => pure none) >>= fun xs =>
  pure { ver := mi.ver, simple := MISC_SIMPLE_FIELDS.map (miscScalar mi), timeZone := tz, buildString := bs,
         dbgBldStr := dbs, xstate := xs }

/-- `get_stream::<MinidumpMiscInfo>` followed by `print` -/
def readMiscInfoX (b : Bytes) (e : Endian) : M MiscPrinted :=
  readMiscInfo b e >>= fun mi => miscPrint mi

end MdModel.Dump
