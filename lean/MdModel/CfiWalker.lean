/-
  MdModel.CfiWalker — the REAL `FrameWalker`: `CfiStackWalker<C: CpuContext>`
  (minidump-unwind/src/lib.rs:553-655), generic over the register tables of C18.

    struct CfiStackWalker / from_ctx_and_args / impl FrameWalker      lib.rs:553-655
    callee_forwarded_regs, get_caller_by_cfi (six files)              x86.rs amd64.rs arm.rs arm64.rs arm64_old.rs mips.rs
    Mips32Context (the tenth `CpuContext` impl)                       mips.rs:283-303
    the checks at the end of every get_caller_frame                   (constants: MdModel.Gen.WalkConsts)
    walk_stack's stack-pointer test in front of get_caller_frame      lib.rs:767-786

  The register file is C18's (`MdModel.Regs`: a `State` of storage cells interpreted through the
  machine-translated tables `MdModel.Gen.Regs`); every method of the trait impl is written in the
  order of the Rust source: `memoize_register` first, then the width conversion
  (`C::Register::try_from(u64)`), then the validity set, then `set_register` — under the name the
  CALLER passed, not the memoised one. `HashSet<&'static str>` is a duplicate-free list (insertion
  at the end; nothing in this file depends on its order, the protocol prints it sorted).

  Per-architecture constants (`CALLEE_SAVED_REGS`, how `callee_forwarded_regs` and the stack-pointer
  test consult the validity set, the pointer-authentication strip) are machine-read from the six
  unwinder files by translators/cfiwalker.py (`MdModel.Gen.CfiWalkerConsts`), which also pins the
  text of the functions modelled here.

  `walk_with_stack_cfi` running against THIS walker is `walkCfiReal`: C06's parser and evaluator
  (`MdModel.Cfi.parseAll`, `evalCfi`) with the register reads, memory reads and caller writes of
  the real walker. `MdProofs.C06Walker` proves it is an instance of C06's abstract `Walker`.
-/
import MdModel.Prelude
import MdModel.Regs
import MdModel.Cfi
import MdModel.Walk.Sym
import MdModel.Gen.WalkConsts
import MdModel.Gen.CfiWalkerConsts
namespace MdModel.CfiWalker
open MdModel MdModel.Gen.Regs MdModel.Gen.CfiWalkerConsts

abbrev State := Regs.State
abbrev Validity := Regs.Validity

/-! ## the `C: CpuContext` parameter -/

/-- One of the nine context types of minidump/src/context.rs, or `Mips32Context`
    (mips.rs:283-303): CONTEXT_MIPS read through `as u32`, written through `.into()`, with
    `type Register = u32`, `REGISTERS` = CONTEXT_MIPS's and every other method the trait default
    (which is what CONTEXT_MIPS itself uses: theorem `mips_rules_default`). -/
inductive Cpu where
  | ctx (c : Ctx)
  | mips32
  deriving DecidableEq, Repr

namespace Cpu

/-- whose tables (`REGISTERS`, getter/setter arms, alias rules, sp/ip names) the type uses -/
def tbl : Cpu → Ctx
  | ctx c => c
  | mips32 => .MIPS

/-- bits of `C::Register` -/
def bits : Cpu → Nat
  | ctx c => regBits c
  | mips32 => mips32Bits

/-- `get_register_always` -/
def getAlways (p : Cpu) (st : State) (n : String) : Outcome Nat :=
  match p with
  | ctx c => Regs.getAlways c st n
  | mips32 =>
    match Regs.getAlways .MIPS st n with
    | .ok v => .ok (v % 2 ^ mips32Bits)          -- `self.0.get_register_always(reg) as u32`
    | .panic s => .panic s

/-- `set_register` (`Mips32Context`: `self.0.set_register(reg, val.into())`) -/
def setRegister (p : Cpu) (st : State) (n : String) (v : Nat) : Outcome (Option State) :=
  Regs.setRegister p.tbl st n v

/-- `memoize_register` -/
def memoize (p : Cpu) (n : String) : Outcome (Option String) := Regs.memoize p.tbl n

/-- `register_is_valid` -/
def isValid (p : Cpu) (n : String) (v : Validity) : Outcome Bool := Regs.isValid p.tbl n v

/-- `get_register` (provided method of the trait): validity first, then `get_register_always` -/
def getRegister (p : Cpu) (st : State) (n : String) (valid : Validity) : Outcome (Option Nat) :=
  match p.isValid n valid with
  | .panic s => .panic s
  | .ok false => .ok none
  | .ok true =>
    match p.getAlways st n with
    | .ok v => .ok (some v)
    | .panic s => .panic s

def spName (p : Cpu) : String := Gen.Regs.spName p.tbl
def ipName (p : Cpu) : String := Gen.Regs.ipName p.tbl

/-- `C::Register::try_from(val: u64).ok()` succeeds -/
def fits (p : Cpu) (v : Nat) : Bool := decide (v < 2 ^ p.bits)

end Cpu

/-! ## stack memory (`UnifiedMemory::Memory(&MinidumpMemory)`) -/

structure StackMem where
  base : Nat
  bytes : List UInt8
  /-- `MinidumpMemory::endian` (the dump's byte order) -/
  bigEndian : Bool

namespace StackMem

/-- `get_memory_at_address::<T>(addr)`: `addr.checked_sub(base)?`, then `pread_with::<T>(start,
    endian)` — `width` bytes that must lie inside `bytes`, in the dump's byte order. -/
def read (m : StackMem) (addr width : Nat) : Option Nat :=
  if addr < m.base then none else
  let off := addr - m.base
  if off + width ≤ m.bytes.length then
    let bs := (m.bytes.drop off).take width
    some (Cfi.leVal (if m.bigEndian then bs.reverse else bs))
  else none

/-- `memory_range()`: `None` for an empty region or when `base + size` overflows `u64`
    (`size` = `bytes.len()` in every region the harness and the dump reader build) -/
def range? (m : StackMem) : Option (Nat × Nat) :=
  if m.bytes.length = 0 then none
  else if m.base + m.bytes.length > U64MAX then none
  else some (m.base, m.base + m.bytes.length - 1)

/-- `memory_range().is_some_and(|r| r.contains(sp))` -/
def inRange (m : StackMem) (sp : Nat) : Bool :=
  match m.range? with
  | none => false
  | some (lo, hi) => decide (lo ≤ sp) && decide (sp ≤ hi)

end StackMem

/-! ## `struct CfiStackWalker` -/

structure CfiStackWalker where
  cpu : Cpu
  instruction : Nat
  hasGrandCallee : Bool
  grandCalleeParameterSize : Nat
  calleeCtx : State
  calleeValidity : Validity
  callerCtx : State
  /-- `caller_validity: HashSet<&'static str>` -/
  callerValidity : List String
  /-- `module.base_address()` (the only thing `walk_frame` reads of the module) -/
  moduleBase : Nat
  stack : StackMem

/-- `HashSet::insert` -/
def setInsert (l : List String) (s : String) : List String := if l.contains s then l else l ++ [s]

/-- `HashSet::remove` -/
def setRemove (l : List String) (s : String) : List String := l.filter (· ≠ s)

namespace CfiStackWalker

/-! ### `impl FrameWalker for CfiStackWalker` (lib.rs:604-655), method by method -/

def getInstruction (w : CfiStackWalker) : Nat := w.instruction
def hasGrandCallee' (w : CfiStackWalker) : Bool := w.hasGrandCallee
def getGrandCalleeParameterSize (w : CfiStackWalker) : Nat := w.grandCalleeParameterSize

/-- `get_register_at_address`: a `C::Register`-sized read in the dump's byte order; the
    `u64::try_from(val)` that follows cannot fail (`u32`/`u64` → `u64`) -/
def getRegisterAtAddress (w : CfiStackWalker) (addr : Nat) : Option Nat :=
  w.stack.read addr (w.cpu.bits / 8)

/-- `get_callee_register`: `callee_ctx.get_register(name, callee_validity)` — the name goes to
    `register_is_valid` and `get_register_always` AS GIVEN (no memoisation here) -/
def getCalleeRegister (w : CfiStackWalker) (name : String) : Outcome (Option Nat) :=
  w.cpu.getRegister w.calleeCtx name w.calleeValidity

/-- `set_caller_register`:
    ```
    let memoized = self.caller_ctx.memoize_register(name)?;
    let val = C::Register::try_from(val).ok()?;
    self.caller_validity.insert(memoized);
    self.caller_ctx.set_register(name, val)
    ```
    result: (the `Option<()>` is `Some`, the walker afterwards) -/
def setCallerRegister (w : CfiStackWalker) (name : String) (val : Nat) : Outcome (Bool × CfiStackWalker) :=
  match w.cpu.memoize name with
  | .panic s => .panic s
  | .ok none => .ok (false, w)
  | .ok (some memoized) =>
    if !w.cpu.fits val then .ok (false, w) else
    let w1 := { w with callerValidity := setInsert w.callerValidity memoized }
    match w.cpu.setRegister w.callerCtx name val with
    | .panic s => .panic s
    | .ok none => .ok (false, w1)
    | .ok (some st) => .ok (true, { w1 with callerCtx := st })

/-- `clear_caller_register`: the MEMOISED name leaves the validity set (`x29` clears `fp`); a name
    the context type does not know (`$ebx`) clears nothing -/
def clearCallerRegister (w : CfiStackWalker) (name : String) : Outcome CfiStackWalker :=
  match w.cpu.memoize name with
  | .panic s => .panic s
  | .ok none => .ok w
  | .ok (some memoized) => .ok { w with callerValidity := setRemove w.callerValidity memoized }

/-- `set_cfa` / `set_ra`: the register named by `stack_pointer_register_name()` /
    `instruction_pointer_register_name()`; width test first, then the name enters the validity
    set AS IS (no memoisation), then `set_register` -/
def setNamed (w : CfiStackWalker) (reg : String) (val : Nat) : Outcome (Bool × CfiStackWalker) :=
  if !w.cpu.fits val then .ok (false, w) else
  let w1 := { w with callerValidity := setInsert w.callerValidity reg }
  match w.cpu.setRegister w.callerCtx reg val with
  | .panic s => .panic s
  | .ok none => .ok (false, w1)
  | .ok (some st) => .ok (true, { w1 with callerCtx := st })

def setCfa (w : CfiStackWalker) (val : Nat) : Outcome (Bool × CfiStackWalker) := w.setNamed w.cpu.spName val
def setRa (w : CfiStackWalker) (val : Nat) : Outcome (Bool × CfiStackWalker) := w.setNamed w.cpu.ipName val

end CfiStackWalker

/-! ## the seven kinds of unwinder (`get_caller_frame` of lib.rs dispatches on the raw context;
      mips.rs on the `CONTEXT_MIPS64` flag) -/

inductive Kind where
  | x86 | amd64 | arm | arm64 | arm64old | mips32 | mips64
  deriving DecidableEq, Repr

namespace Kind

def all : List Kind := [x86, amd64, arm, arm64, arm64old, mips32, mips64]

def str : Kind → String
  | x86 => "x86" | amd64 => "amd64" | arm => "arm" | arm64 => "arm64" | arm64old => "arm64old"
  | mips32 => "mips32" | mips64 => "mips64"

def ofStr (s : String) : Option Kind := all.find? (fun k => k.str = s)

/-- the source file -/
def file : Kind → Unw
  | x86 => .x86 | amd64 => .amd64 | arm => .arm | arm64 => .arm64 | arm64old => .arm64_old
  | mips32 | mips64 => .mips

/-- the `C` of `CfiStackWalker<C>` -/
def cpu : Kind → Cpu
  | x86 => .ctx .X86 | amd64 => .ctx .AMD64 | arm => .ctx .ARM | arm64 => .ctx .ARM64
  | arm64old => .ctx .ARM64_OLD | mips32 => .mips32 | mips64 => .ctx .MIPS

/-- the context type the raw context has (what `ctx: &C` of `get_caller_frame` is, and whose
    `default()` the ARM `callee_forwarded_regs` ask) -/
def rawCtx (k : Kind) : Ctx := k.cpu.tbl

open Walk.Consts in
def nullish : Kind → Nat
  | x86 => nullish_x86 | amd64 => nullish_amd64 | arm => nullish_arm | arm64 => nullish_arm64
  | arm64old => nullish_arm64old | mips32 | mips64 => nullish_mips

open Walk.Consts in
def adj : Kind → Nat
  | x86 => adj_x86 | amd64 => adj_amd64 | arm => adj_arm | arm64 => adj_arm64
  | arm64old => adj_arm64old | mips32 | mips64 => adj_mips

/-- the `is_leaf` exception of the stack-pointer progress test exists (consts_walk.py pins the
    shape: ARM, ARM64, MIPS have it, x86 and x86-64 do not) -/
def leafOk : Kind → Bool
  | x86 | amd64 => false
  | _ => true

open Walk.Consts in
def ptrAuthBits : Kind → Nat
  | arm64old => arm64old_ptrauth_bits
  | _ => arm64_ptrauth_bits

end Kind

/-! ## `callee_forwarded_regs` -/

/-- keep the elements on which `f` answers `true`; the first panic wins (`Iterator::filter`) -/
def filterO (f : String → Outcome Bool) : List String → Outcome (List String)
  | [] => .ok []
  | r :: t =>
    match f r with
    | .panic s => .panic s
    | .ok b =>
      match filterO f t with
      | .panic s => .panic s
      | .ok l => .ok (if b then r :: l else l)

/-- `callee_forwarded_regs(valid)`: `All` ⇒ every callee-saved register; `Some(which)` ⇒ those the
    validity set covers — literally (`which.contains`, x86 / x86-64 / MIPS) or through
    `register_is_valid` of the context type (the three ARM files, fix of F28: a frame pointer
    recorded under its other name is forwarded too). The result is a `HashSet`. -/
def calleeForwardedRegs (k : Kind) (valid : Validity) : Outcome (List String) :=
  match valid with
  | .all => .ok (calleeSaved k.file)
  | .some which =>
    match fwdLookup k.file with
    | .literal => .ok ((calleeSaved k.file).filter fun r => which.contains r)
    | .isValid => filterO (fun r => Regs.isValid k.rawCtx r valid) (calleeSaved k.file)

/-- a `HashSet` built by `collect()`: duplicates collapse -/
def toSet (l : List String) : List String := l.foldl setInsert []

/-! ## `walk_with_stack_cfi` on the real walker -/

/-- a register name of a rule as the `&str` the walker receives (rule texts are UTF-8: anything
    else is rejected by the symbol-file parser) -/
def nameStr (n : Cfi.Name) : Option String := String.fromUTF8? n.toByteArray

/-- totalised view of an `Outcome` (the panic outcome of the C18 readers is unreachable when the
    validity set names only registers of the context type: `MdProofs.C06Walker.real_reads_total`) -/
def okOr {α : Type} (d : α) : Outcome α → α
  | .ok a => a
  | .panic _ => d

def toU64 (o : Option Nat) : Option UInt64 := o.map UInt64.ofNat

/-- what `eval_cfi_expr` observes of the real walker -/
def envOf (w : CfiStackWalker) : Cfi.Env :=
  { reg := fun n =>
      match nameStr n with
      | some s => toU64 (okOr none (w.getCalleeRegister s))
      | none => none
    deref := fun a => toU64 (w.getRegisterAtAddress a.toNat) }

/-- one iteration of the loop over the remaining rules (walker.rs:537-548): set on success, and a
    failing `set_caller_register` clears like a failing rule (fix 15b778b) -/
def applyOtherReal (cfa : UInt64) (w : CfiStackWalker) (r : Cfi.Name × Cfi.Expr) : Outcome CfiStackWalker :=
  match nameStr r.1 with
  | none => .ok w
  | some s =>
    match Cfi.evalCfi (envOf w) (some cfa) r.2 with
    | some v =>
      match w.setCallerRegister s v.toNat with
      | .panic p => .panic p
      | .ok (true, w') => .ok w'
      | .ok (false, w') => w'.clearCallerRegister s
    | none => w.clearCallerRegister s

def foldReal (cfa : UInt64) : List (Cfi.Name × Cfi.Expr) → CfiStackWalker → Outcome CfiStackWalker
  | [], w => .ok w
  | r :: rs, w =>
    match applyOtherReal cfa w r with
    | .ok w' => foldReal cfa rs w'
    | .panic s => .panic s

/-- `walk_with_stack_cfi(init, additional, walker)` with `walker` = the real `CfiStackWalker`;
    result: (`Some(())`, the walker afterwards — a failing `set_ra` leaves the CFA written).
    Parser, evaluator and processing order are C06's (`MdModel.Cfi`; its evaluator cannot panic:
    `Cfi.evalCfiO_eq`). -/
def walkCfiReal (w : CfiStackWalker) (lines : List Cfi.Bytes) : Outcome (Bool × CfiStackWalker) :=
  match Cfi.parseAll lines [] with
  | none => .ok (false, w)
  | some m =>
    match m.get .cfa, m.get .ra with
    | some cfaE, some raE =>
      match Cfi.evalCfi (envOf w) none cfaE with
      | none => .ok (false, w)
      | some cfa =>
        match Cfi.evalCfi (envOf w) (some cfa) raE with
        | none => .ok (false, w)
        | some ra =>
          match w.setCfa cfa.toNat with
          | .panic s => .panic s
          | .ok (false, w1) => .ok (false, w1)
          | .ok (true, w1) =>
            match w1.setRa ra.toNat with
            | .panic s => .panic s
            | .ok (false, w2) => .ok (false, w2)
            | .ok (true, w2) =>
              match foldReal cfa (Cfi.sortOthers (Cfi.others m)) w2 with
              | .panic s => .panic s
              | .ok w3 => .ok (true, w3)
    | _, _ => .ok (false, w)

/-- `clear_stack_win_caller_registers` (breakpad-symbols walker.rs:1048) on the real walker:
    `clear_caller_register` for each name of the list, in order -/
def clearAllReal : List String → CfiStackWalker → Outcome CfiStackWalker
  | [], w => .ok w
  | n :: t, w =>
    match w.clearCallerRegister n with
    | .ok w' => clearAllReal t w'
    | .panic s => .panic s

/-! ## `get_caller_by_cfi` and the end of `get_caller_frame` -/

/-- what the unwinder is given: `GetCallerFrameArgs` -/
structure Args where
  kind : Kind
  /-- the callee frame's raw context and validity -/
  ctx : State
  valid : Validity
  /-- `callee_frame.instruction` (for a context frame the ip; otherwise ip − adjustment) -/
  instruction : Nat
  /-- `callee_frame.trust == FrameTrust::Context` -/
  isContext : Bool
  /-- the grand callee frame, and its `parameter_size` -/
  grand : Option (Option Nat)
  modules : List Walk.Module
  stack : StackMem

/-- `CfiStackWalker::from_ctx_and_args`: the callee's module, the caller context starts as a clone
    of the callee's, the caller validity as `callee_forwarded_regs(valid)` -/
def fromCtxAndArgs (a : Args) : Outcome (Option CfiStackWalker) :=
  match Walk.moduleAt (Walk.modTable a.modules) a.instruction with
  | none => .ok none
  | some i =>
    match a.modules[i]? with
    | none => .panic "modules[index]"
    | some m =>
      match calleeForwardedRegs a.kind a.valid with
      | .panic s => .panic s
      | .ok fwd =>
        .ok (some
          { cpu := a.kind.cpu
            instruction := a.instruction
            hasGrandCallee := a.grand.isSome
            grandCalleeParameterSize := (a.grand.bind id).getD 0
            calleeCtx := a.ctx
            calleeValidity := a.valid
            callerCtx := a.ctx
            callerValidity := toSet fwd
            moduleBase := m.base
            stack := a.stack })

/-- the stack-pointer test at the head of every `get_caller_by_cfi` -/
def spTest (a : Args) : Outcome Bool :=
  match spLookup a.kind.file with
  | .literal =>
    match a.valid with
    | .all => .ok true
    | .some which => .ok (which.contains (spTestName a.kind.file))
  | .isValid =>
    -- `ctx.get_register(STACK_POINTER, args.valid())?`
    match a.kind.cpu.getRegister a.ctx (spTestName a.kind.file) a.valid with
    | .panic s => .panic s
    | .ok r => .ok r.isSome

/-- `ptr_auth_strip`'s mask (the model of `MdModel.Walk.Sym`) -/
def stripMask (k : Kind) (modules : List Walk.Module) : Nat :=
  Walk.ptrAuthMask { mods := modules, syms := [] } (Walk.modTable modules) k.ptrAuthBits

/-- the pointer-authentication post-processing of arm64.rs / arm64_old.rs: `pc` always (read raw),
    `x30` and `x29` when valid in the caller; every write goes through `set_register`, whose
    result is dropped -/
def stripStep (k : Kind) (valid : List String) (mask : Nat) (st : State) (r : String × Bool) : Outcome State :=
  let c := k.rawCtx
  let write (v : Nat) : Outcome State :=
    match Regs.setRegister c st r.1 (v &&& mask) with
    | .panic s => .panic s
    | .ok none => .ok st
    | .ok (some st') => .ok st'
  if r.2 then
    match Regs.getAlways c st r.1 with
    | .panic s => .panic s
    | .ok v => write v
  else
    match Regs.getRegister c st r.1 (.some valid) with
    | .panic s => .panic s
    | .ok none => .ok st
    | .ok (some v) => write v

def stripAll (k : Kind) (valid : List String) (mask : Nat) : State → List (String × Bool) → Outcome State
  | st, [] => .ok st
  | st, r :: rs =>
    match stripStep k valid mask st r with
    | .panic s => .panic s
    | .ok st' => stripAll k valid mask st' rs

/-- a recovered frame: `StackFrame::from_context(MinidumpContext { raw, valid: Some(caller_validity) },
    FrameTrust::CallFrameInfo)` -/
structure CfiFrame where
  ctx : State
  valid : List String
  instruction : Nat

/-- what `SymbolProvider::walk_frame(module, &mut walker)` did with the walker -/
abbrev Script := CfiStackWalker → Outcome (Bool × CfiStackWalker)

inductive CfiResult where
  /-- the stack-pointer test failed or no module covers the callee: `walk_frame` is not called -/
  | notCalled
  /-- `walk_frame` returned `None` -/
  | noCfi
  | frame (f : CfiFrame)

/-- `get_caller_by_cfi` of the six files, with `walk_frame` a parameter -/
def getCallerByCfi (a : Args) (script : Script) : Outcome CfiResult :=
  match spTest a with
  | .panic s => .panic s
  | .ok false => .ok .notCalled
  | .ok true =>
    match fromCtxAndArgs a with
    | .panic s => .panic s
    | .ok none => .ok .notCalled
    | .ok (some w0) =>
      match script w0 with
      | .panic s => .panic s
      | .ok (false, _) => .ok .noCfi
      | .ok (true, w) =>
        match stripAll a.kind w.callerValidity (stripMask a.kind a.modules) w.callerCtx (stripRegs a.kind.file) with
        | .panic s => .panic s
        | .ok st =>
          -- `instruction: context.get_instruction_pointer()`: the raw cell, valid or not
          match Regs.instructionPointer a.kind.rawCtx st with
          | .panic s => .panic s
          | .ok ip => .ok (.frame { ctx := st, valid := w.callerValidity, instruction := ip })

/-- the checks at the end of every `get_caller_frame` (nullish instruction pointer, stack-pointer
    progress with the leaf exception, call adjustment); sp and ip are read RAW from the context -/
def frameTail (a : Args) (f : CfiFrame) : Outcome (Option CfiFrame) :=
  let c := a.kind.rawCtx
  match Regs.instructionPointer c f.ctx, Regs.stackPointer c f.ctx, Regs.stackPointer c a.ctx with
  | .ok ip, .ok sp, .ok lastSp =>
    if ip < a.kind.nullish then .ok none
    else if sp ≤ lastSp ∧ !(a.kind.leafOk && a.isContext && sp == lastSp) then .ok none
    else if ip < a.kind.adj then .panic "ip - adjustment"
    else .ok (some { f with instruction := ip - a.kind.adj })
  | .panic s, _, _ => .panic s
  | _, .panic s, _ => .panic s
  | _, _, .panic s => .panic s

/-! ## line protocol

  request : `cfi cw kind:<k> ctx:<cell=hex,…|-> valid:<all|some:tokens> instr:<hex> trust:<ctx|other>
                   grand:<-|none|hex> mods:<base:size,…|-> stack:<le|be>:<base hex>:<hex bytes> ops:<op;…>`
    kind    x86 | amd64 | arm | arm64 | arm64old | mips32 | mips64
    ctx     register values by a name `set_register` accepts, applied in order to the zero context
            (values below 2^64; MIPS in 32-bit mode may hold more than 32 bits in a cell)
    valid   as in the `regs` protocol (name tokens: plain or `%`+hex)
    ops     run in order on the walker inside `walk_frame`:
              gi | hg | gp            -> get_instruction / has_grand_callee / get_grand_callee_parameter_size
              mb                      -> module.base_address()
              rd:<hex addr>           -> get_register_at_address
              get:<name>              -> get_callee_register
              set:<name>:<hex>        -> set_caller_register        (1 | 0)
              clr:<name>              -> clear_caller_register      (-)
              cfa:<hex> | ra:<hex>    -> set_cfa / set_ra           (1 | 0)
              cfi:<hex rules>[|<hex rules>…]  -> walk_with_stack_cfi(init, additional)   (1 | 0)
              ret:<1|0>               -> what walk_frame returns (last op)
  answer  : `<op results joined by ,> => <outcome>` where outcome is
            `notcalled` | `nocfi` | `rejected` | `frame in=<hex> valid:<name=hex,…>` (sorted by name) | `PANIC`
-/
open Proto

def parseHex64 (s : String) : Option Nat :=
  match parseHexNat s with
  | some v => if v ≤ U64MAX then some v else none
  | none => none

def showOpt (o : Option Nat) : String :=
  match o with
  | some v => natToHex v
  | none => "none"

def showBool (b : Bool) : String := if b then "1" else "0"

/-- a call the script makes on the walker -/
inductive Op where
  | gi | hg | gp | mb
  | rd (addr : Nat)
  | get (name : String)
  | set (name : String) (val : Nat)
  | clr (name : String)
  | cfa (val : Nat)
  | ra (val : Nat)
  | cfi (lines : List Cfi.Bytes)
  | ret (b : Bool)

def parseOp (op : String) : Option Op :=
  match op.splitOn ":" with
  | ["gi"] => some .gi
  | ["hg"] => some .hg
  | ["gp"] => some .gp
  | ["mb"] => some .mb
  | ["rd", a] => (parseHex64 a).map .rd
  | ["get", n] => (Regs.decName n).map .get
  | ["set", n, v] =>
    match Regs.decName n, parseHex64 v with
    | some n, some v => some (.set n v)
    | _, _ => none
  | ["clr", n] => (Regs.decName n).map .clr
  | ["cfa", v] => (parseHex64 v).map .cfa
  | ["ra", v] => (parseHex64 v).map .ra
  | ["cfi", rules] =>
    match (rules.splitOn "|").mapM unhex with
    | some lines =>
      -- rule texts are UTF-8 without line breaks (the symbol-file parser's guarantee)
      if lines.isEmpty || lines.any (fun l => (nameStr l).isNone || l.any (fun b => b == 0x0A || b == 0x0D)) then none
      else some (.cfi (lines.map Cfi.storedRules))
    | none => none
  | ["ret", b] => if b = "1" then some (.ret true) else if b = "0" then some (.ret false) else none
  | _ => none

/-- a script: calls, then the `ret` that ends it -/
def parseOps (ops : List String) : Option (List Op × Bool) :=
  match ops.mapM parseOp with
  | none => none
  | some l =>
    match l.reverse with
    | .ret b :: before =>
      if before.any (fun o => match o with | .ret _ => true | _ => false) then none
      else some (before.reverse, b)
    | _ => none

/-- one call: the printed answer and the walker afterwards -/
def runOp (w : CfiStackWalker) (op : Op) : Outcome (String × CfiStackWalker) :=
  let flag (r : Outcome (Bool × CfiStackWalker)) : Outcome (String × CfiStackWalker) :=
    match r with
    | .ok (b, w') => .ok (showBool b, w')
    | .panic s => .panic s
  match op with
  | .gi => .ok (natToHex w.getInstruction, w)
  | .hg => .ok (showBool w.hasGrandCallee', w)
  | .gp => .ok (natToHex w.getGrandCalleeParameterSize, w)
  | .mb => .ok (natToHex w.moduleBase, w)
  | .rd a => .ok (showOpt (w.getRegisterAtAddress a), w)
  | .get n =>
    match w.getCalleeRegister n with
    | .ok r => .ok (showOpt r, w)
    | .panic s => .panic s
  | .set n v => flag (w.setCallerRegister n v)
  | .clr n =>
    match w.clearCallerRegister n with
    | .ok w' => .ok ("-", w')
    | .panic s => .panic s
  | .cfa v => flag (w.setCfa v)
  | .ra v => flag (w.setRa v)
  | .cfi lines => flag (walkCfiReal w lines)
  | .ret _ => .ok ("ret", w)

/-- the calls of a script in order, as the `walk_frame` the real walker is handed to -/
def runOps : List Op → CfiStackWalker → List String → Outcome (List String × CfiStackWalker)
  | [], w, acc => .ok (acc.reverse, w)
  | op :: rest, w, acc =>
    match runOp w op with
    | .panic s => .panic s
    | .ok (a, w') => runOps rest w' (a :: acc)

def parseCtxCells (c : Ctx) (s : String) : Option State :=
  if s = "-" then some Regs.State.zero else
  (pieces s ",").foldl (fun acc p =>
    match acc, p.splitOn "=" with
    | some st, [n, v] =>
      (match Regs.decName n, parseHex64 v with
       | some n, some v =>
         if v ≥ 2 ^ regBits c then none else
         (match Regs.setRegister c st n v with
          | .ok (some st') => some st'
          | _ => none)
       | _, _ => none)
    | _, _ => none) (some Regs.State.zero)

def parseMods (s : String) : Option (List Walk.Module) :=
  if s = "-" then some [] else
  (pieces s ",").mapM fun p =>
    match p.splitOn ":" with
    | [b, z] =>
      match parseHex64 b, parseHex64 z with
      | some b, some z => if z ≤ U32MAX then some { base := b, size := z, name := "m" } else none
      | _, _ => none
    | _ => none

def parseStack (s : String) : Option StackMem :=
  match s.splitOn ":" with
  | [e, b, h] =>
    match parseHex64 b, unhex h with
    | some b, some bytes =>
      if e = "le" then some { base := b, bytes := bytes, bigEndian := false }
      else if e = "be" then some { base := b, bytes := bytes, bigEndian := true }
      else none
    | _, _ => none
  | _ => none

def insertSorted (a : String × Nat) : List (String × Nat) → List (String × Nat)
  | [] => [a]
  | b :: t => if a.1 < b.1 then a :: b :: t else b :: insertSorted a t

def showFrame (k : Kind) (f : CfiFrame) : String :=
  let vals := f.valid.map fun n =>
    (n, match Regs.getAlways k.rawCtx f.ctx n with
        | .ok v => v
        | .panic _ => 0)
  let sorted := vals.foldr insertSorted []
  s!"frame in={natToHex f.instruction} valid:" ++
    joinWith "," (sorted.map fun p => Regs.encName p.1 ++ "=" ++ natToHex p.2)

/-- the validity set names only registers (or aliases) of the context type — the invariant of
    every set the unwinders build; a foreign name in the set makes `get_register` of that very
    name hit `unreachable!` (C18 `foreign_name_in_set_panics`), which the `regs` engine covers -/
def validityWf (c : Ctx) : Validity → Bool
  | .all => true
  | .some s => s.all fun n => (Regs.knownNames c).contains n

def handleCw (args : List String) : String :=
  match args with
  | [kind, ctx, valid, instr, trust, grand, mods, stack, ops] =>
    let parsed : Option (Args × List Op × Bool) := do
      let k ← (Cfi.stripKey "kind:" kind).bind Kind.ofStr
      let st ← (Cfi.stripKey "ctx:" ctx).bind (parseCtxCells k.rawCtx)
      let v ← (Cfi.stripKey "valid:" valid).bind Regs.parseValid
      let i ← (Cfi.stripKey "instr:" instr).bind parseHex64
      let t ← Cfi.stripKey "trust:" trust
      let isCtx ← if t = "ctx" then some true else if t = "other" then some false else none
      let g ← Cfi.stripKey "grand:" grand
      let gr : Option (Option Nat) ←
        if g = "-" then some none
        else if g = "none" then some (some none)
        else (parseHex64 g).bind fun p => if p ≤ U32MAX then some (some (some p)) else none
      let ms ← (Cfi.stripKey "mods:" mods).bind parseMods
      let sm ← (Cfi.stripKey "stack:" stack).bind parseStack
      let (os, ret) ← ((Cfi.stripKey "ops:" ops).map fun o => o.splitOn ";").bind parseOps
      if !validityWf k.rawCtx v then none else
      some ({ kind := k, ctx := st, valid := v, instruction := i, isContext := isCtx, grand := gr,
              modules := ms, stack := sm }, os, ret)
    match parsed with
    | none => "bad-op"
    | some (a, ops, ret) =>
      -- `walk_stack`: the callee's stack pointer must lie in the stack memory
      match Regs.stackPointer a.kind.rawCtx a.ctx with
      | .panic _ => "PANIC"
      | .ok sp =>
        if !a.stack.inRange sp then "=> notcalled" else
        -- the script, remembering what each call answered
        let run (w : CfiStackWalker) : Outcome ((Bool × CfiStackWalker) × List String) :=
          match runOps ops w [] with
          | .ok (outs, w') => .ok ((ret, w'), outs)
          | .panic s => .panic s
        let script : Script := fun w =>
          match run w with
          | .ok r => .ok r.1
          | .panic s => .panic s
        let outsOf : Outcome String :=
          match fromCtxAndArgs a with
          | .ok (some w0) =>
            (match run w0 with
             | .ok r => .ok (joinWith "," r.2)
             | .panic s => .panic s)
          | _ => .ok ""
        match getCallerByCfi a script, outsOf with
        | .panic _, _ => "PANIC"
        | _, .panic _ => "PANIC"
        | .ok .notCalled, _ => "=> notcalled"
        | .ok .noCfi, .ok head => head ++ " => nocfi"
        | .ok (.frame f), .ok head =>
          match frameTail a f with
          | .panic _ => "PANIC"
          | .ok none => head ++ " => rejected"
          | .ok (some f') => head ++ " => " ++ showFrame a.kind f'
  | _ => "bad-op"

/-- line-protocol entry point (engine `cfi`, sub-command `cw`) -/
def handle (_engine : String) (args : List String) : String :=
  match args with
  | "cw" :: rest => handleCw rest
  | _ => "bad-op"

end MdModel.CfiWalker
