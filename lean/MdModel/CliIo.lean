/-
  MdModel.CliIo — `main` / `main_result` of minidump-stackwalk (main.rs:274-523) as a state machine over
  a world made of a file system, the standard output and the diagnostics.

  What is modelled, statement by statement:
    * clap's exclusive group `output-format` (five members, `--help-markdown` is one)      → status 2
    * `--log-file`: `File::create(log_path)?` BEFORE anything else; afterwards `error!` goes to that
      file instead of standard error (and prints nothing at `--verbose off`)
    * `--help-markdown`: written to stdout, `.expect(..)` on the result                      → panic, 101
    * the two validity tests (`--pretty` without JSON, `--brief` with JSON alone)            → `error!`, exit(1)
    * `Minidump::read_path` fails                                                            → `error!`, exit(1)
      (nothing but the log file has been touched at that point)
    * `cli.cyborg.map(File::create).transpose()?`  THEN  `File::create(output_path)?`:
      create-or-TRUNCATE, both before the dump is processed; a failing create goes through `?`
      → `main` prints `Error: …` with `eprintln!` (standard error even with `--log-file`) and exits 1
    * `--dump`: `print_minidump_dump(&dump, &mut output, brief)` and return its result
    * processing fails → `error!`, exit(1)  (the output and cyborg files exist and are EMPTY)
    * human report → primary; JSON report → cyborg file if given, else primary; each through `?`
    * `main`: an `Err(e)` with `e.kind() == BrokenPipe` is swallowed (status 0, no diagnostic),
      every other error prints `Error: {e}` and exits 1
    * after the reports: `output.flush()?` (fix 433988c) — what standard output's `LineWriter` still holds
      is written NOW and a failure is an error like any other (status 1, `Error: …`; broken pipe: status 0)
    * `--use-local-debuginfo` on a dump whose CPU is neither x86-64 nor arm64 (or without readable system
      info): `error!` + exit(1) after the files were created, before processing (fix fb88910)
    * process exit (normal return and `process::exit` alike) flushes what standard output's
      `LineWriter` still holds and IGNORES the result (std::rt::cleanup) — after the explicit flush this
      only matters on the failure paths

  A report is a byte string together with `pend`, the number of its trailing bytes that are still
  inside standard output's `LineWriter` when the printer returns (0 for a report that ends in a
  newline; the engine measures it with the real `std::io::LineWriter`). Files are unbuffered.

  File system: `Path → Entry` plus a per-path size limit (disk full / quota / RLIMIT_FSIZE: a write
  that would grow the file past the limit stores the part that fits and fails). Handles carry
  their own offset, so two handles on one path overwrite each other exactly like two descriptors
  obtained from two `open(2)` calls without `O_APPEND`.
-/
import MdModel.CliTable
namespace MdModel.Cli

abbrev Bytes := List UInt8
abbrev Path := String

/-- what a path denotes -/
inductive Entry where
  | absent (creatable : Bool)   -- nothing there; `creatable`: the parent exists and is writable
  | dir                         -- a directory: `File::create` fails (EISDIR)
  | file (content : Bytes)      -- a regular file
  | full                        -- opens fine, every non-empty write fails (`/dev/full`)
  | null                        -- opens fine, accepts and discards (`/dev/null`)
  deriving DecidableEq, Repr

structure Fs where
  entry : Path → Entry
  /-- a regular file at this path cannot grow beyond this many bytes (`none`: no limit) -/
  limit : Path → Option Nat

def Fs.set (fs : Fs) (p : Path) (e : Entry) : Fs :=
  { fs with entry := fun q => if q = p then e else fs.entry q }

/-- an open file description: path + own offset -/
structure Handle where
  path : Path
  off : Nat
  deriving DecidableEq, Repr

/-- `File::create`: `open(O_WRONLY|O_CREAT|O_TRUNC)`; `none` = the call fails -/
def Fs.create (fs : Fs) (p : Path) : Option (Fs × Handle) :=
  match fs.entry p with
  | .absent true => some (fs.set p (.file []), ⟨p, 0⟩)
  | .absent false => none
  | .dir => none
  | .file _ => some (fs.set p (.file []), ⟨p, 0⟩)
  | .full => some (fs, ⟨p, 0⟩)
  | .null => some (fs, ⟨p, 0⟩)

/-- `pwrite`-like: put `bs` at offset `off` (a gap is filled with zeros) -/
def writeAt (old : Bytes) (off : Nat) (bs : Bytes) : Bytes :=
  old.take off ++ List.replicate (off - old.length) 0 ++ bs ++ old.drop (off + bs.length)

/-- how many of `n` bytes fit at offset `off` under the limit -/
def room (lim : Option Nat) (off n : Nat) : Nat :=
  match lim with
  | none => n
  | some l => min n (l - off)

/-- `write_all` of `bs` through a handle: the new file system, the advanced handle, success? -/
def Fs.write (fs : Fs) (h : Handle) (bs : Bytes) : Fs × Handle × Bool :=
  match fs.entry h.path with
  | .file c =>
    let k := room (fs.limit h.path) h.off bs.length
    let fs' := if k = 0 then fs else fs.set h.path (.file (writeAt c h.off (bs.take k)))
    (fs', { h with off := h.off + k }, k == bs.length)
  | .full => (fs, h, bs.isEmpty)
  | .null => (fs, { h with off := h.off + bs.length }, true)
  | _ => (fs, h, bs.isEmpty)          -- unreachable: nothing removes a file

/-- the two `io::ErrorKind`s `main` tells apart -/
inductive ErrKind where
  | other | brokenPipe
  deriving DecidableEq, Repr

/-- a report: its bytes and how many trailing bytes the printer leaves in stdout's `LineWriter` -/
structure Rep where
  bytes : Bytes
  pend : Nat
  deriving Repr

/-- standard output -/
structure Stdout where
  out : Bytes            -- reached the descriptor
  buf : Bytes            -- still inside the `LineWriter`
  cap : Option Nat       -- the descriptor accepts this many bytes in total (`none`: unbounded)
  kind : ErrKind         -- the error once `cap` is exhausted (ENOSPC/EFBIG … vs EPIPE)
  deriving Repr

def Stdout.room (s : Stdout) (n : Nat) : Nat :=
  match s.cap with
  | none => n
  | some c => min n (c - s.out.length)

/-- print a report to stdout: everything but its last `pend` bytes has to go to the descriptor now -/
def Stdout.write (s : Stdout) (r : Rep) : Stdout × Option ErrKind :=
  let keep := min r.pend r.bytes.length
  let now := s.buf ++ r.bytes.take (r.bytes.length - keep)
  let k := s.room now.length
  if k = now.length then
    ({ s with out := s.out ++ now, buf := r.bytes.drop (r.bytes.length - keep) }, none)
  else
    ({ s with out := s.out ++ now.take k, buf := [] }, some s.kind)

/-- `flush()`: write what the `LineWriter` holds; the error is reported -/
def Stdout.flush (s : Stdout) : Stdout × Option ErrKind :=
  let k := s.room s.buf.length
  if k = s.buf.length then ({ s with out := s.out ++ s.buf, buf := [] }, none)
  else ({ s with out := s.out ++ s.buf.take k, buf := [] }, some s.kind)

/-- process exit: flush, ignoring the result -/
def Stdout.atExit (s : Stdout) : Stdout :=
  { s with out := s.out ++ s.buf.take (s.room s.buf.length), buf := [] }

/-- diagnostics; `render` below gives the bytes of a logged one -/
inductive Diag where
  | usage              -- clap's message (standard error, status 2)
  | ioError            -- `Error: {e}` printed by `main` with `eprintln!`
  | prettyInvalid      -- `error!("Humans must be hideous! …")`
  | briefInvalid       -- `error!("Robots cannot be brief! …")`
  | readError          -- `error!("{} - Error reading dump: {}")`
  | processError       -- `error!("{} - Error processing dump: {}")` (also: system info missing with --use-local-debuginfo)
  | localDebuginfoError -- `error!("Local debug info is only supported for x86-64 and arm64 dumps …")`
  | panicLogged        -- the panic hook's `error!("Panic - …")`
  deriving DecidableEq, Repr

structure World where
  fs : Fs
  stdout : Stdout
  stderr : List Diag

/-- the parsed command line as far as it steers the effects -/
structure Cfg where
  flags : Flags
  cyborgPath : Path            -- meaningful iff `flags.cyborg`
  helpMarkdown : Bool
  outputFile : Option Path
  logFile : Option Path
  verboseOff : Bool            -- `--verbose off`: `error!` prints nothing
  /-- `--use-local-debuginfo` was given AND the dump's CPU is not one the debuginfo provider supports -/
  localUnsupported : Bool

structure Reports where
  human : Rep
  humanBrief : Rep
  json : Rep
  jsonPretty : Rep
  dump : Rep
  dumpBrief : Rep
  helpMd : Rep

structure Result where
  exit : Nat
  world : World

/-- `error!(…)`: to the log file if one was opened, else to standard error; nothing at `--verbose off`.
    tracing ignores a failing log write. -/
def logErr (render : Diag → Bytes) (cfg : Cfg) (w : World) (lg : Option Handle) (d : Diag) : World :=
  if cfg.verboseOff then w else
  match lg with
  | none => { w with stderr := w.stderr ++ [d] }
  | some h => { w with fs := (w.fs.write h (render d)).1 }

def finish (code : Nat) (w : World) : Result :=
  ⟨code, { w with stdout := w.stdout.atExit }⟩

/-- `main`'s treatment of `Err(e)` from `main_result` -/
def failWith (w : World) (k : ErrKind) : Result :=
  match k with
  | .brokenPipe => finish 0 w
  | .other => finish 1 { w with stderr := w.stderr ++ [.ioError] }

def done (w : World) (e : Option ErrKind) : Result :=
  match e with
  | none => finish 0 w
  | some k => failWith w k

/-- the primary writer -/
inductive Writer where
  | stdout
  | file (h : Handle)

def emitFile (w : World) (h : Handle) (r : Rep) : World × Handle × Option ErrKind :=
  let (fs', h', ok) := w.fs.write h r.bytes
  ({ w with fs := fs' }, h', if ok then none else some .other)

def emit (w : World) (wr : Writer) (r : Rep) : World × Writer × Option ErrKind :=
  match wr with
  | .stdout =>
    let (s', e) := w.stdout.write r
    ({ w with stdout := s' }, .stdout, e)
  | .file h =>
    let (w', h', e) := emitFile w h r
    (w', .file h', e)

/-- `output.flush()` on the primary writer (a `File` has nothing to flush) -/
def flushPrimary (w : World) : Writer → World × Option ErrKind
  | .stdout => ({ w with stdout := w.stdout.flush.1 }, w.stdout.flush.2)
  | .file _ => (w, none)

/-- `output.flush()?; Ok(())` -/
def finishOk (w : World) (out : Writer) : Result :=
  done (flushPrimary w out).1 (flushPrimary w out).2

/-- the result `e` of the last report write through `?`, then `output.flush()?; Ok(())` -/
def doneThen (w : World) (e : Option ErrKind) (out : Writer) : Result :=
  match e with
  | some k => failWith w k
  | none => finishOk w out

def openOpt (w : World) (p : Option Path) : Option (World × Option Handle) :=
  match p with
  | none => some (w, none)
  | some p =>
    match w.fs.create p with
    | none => none
    | some (fs', h) => some ({ w with fs := fs' }, some h)

def openPrimary (w : World) (p : Option Path) : Option (World × Writer) :=
  match p with
  | none => some (w, .stdout)
  | some p =>
    match w.fs.create p with
    | none => none
    | some (fs', h) => some ({ w with fs := fs' }, .file h)

/-- main.rs:361-368: "Human is just enabled if nothing else is … Cyborg is just desugarred to --json --human" -/
def humanOn (f : Flags) : Bool := if f.cyborg then true else (!f.json && !f.dump)
def jsonOn (f : Flags) : Bool := if f.cyborg then true else f.json

def humanRep (f : Flags) (reps : Reports) : Rep := if f.brief then reps.humanBrief else reps.human
def jsonRep (f : Flags) (reps : Reports) : Rep := if f.pretty then reps.jsonPretty else reps.json
def dumpRep (f : Flags) (reps : Reports) : Rep := if f.brief then reps.dumpBrief else reps.dump

def emitIf (b : Bool) (w : World) (wr : Writer) (r : Rep) : World × Writer × Option ErrKind :=
  if b then emit w wr r else (w, wr, none)

/-- main.rs:503-509: "Print the json output if requested (using "cyborg" output if available)" -/
def writeJson (f : Flags) (reps : Reports) (json : Bool) (cy : Option Handle) (out : Writer) (w : World) : Result :=
  if json then
    match cy with
    | some h => doneThen (emitFile w h (jsonRep f reps)).1 (emitFile w h (jsonRep f reps)).2.2 out
    | none => doneThen (emit w out (jsonRep f reps)).1 (emit w out (jsonRep f reps)).2.2
                (emit w out (jsonRep f reps)).2.1
  else finishOk w out

/-- main.rs:491-511: human report first, then JSON; every write through `?` -/
def writeReports (f : Flags) (reps : Reports) (human json : Bool) (cy : Option Handle) (out : Writer)
    (w : World) : Result :=
  match (emitIf human w out (humanRep f reps)).2.2 with
  | some k => failWith (emitIf human w out (humanRep f reps)).1 k
  | none => writeJson f reps json cy (emitIf human w out (humanRep f reps)).2.1
              (emitIf human w out (humanRep f reps)).1

/-- main.rs:421-516, once both files are open -/
def afterOpen (render : Diag → Bytes) (cfg : Cfg) (inp : Input) (reps : Reports) (human json : Bool)
    (lg cy : Option Handle) (out : Writer) (w : World) : Result :=
  if cfg.flags.dump then
    doneThen (emit w out (dumpRep cfg.flags reps)).1 (emit w out (dumpRep cfg.flags reps)).2.2
      (emit w out (dumpRep cfg.flags reps)).2.1
  else
    match inp with
    | .unprocessable => finish 1 (logErr render cfg w lg .processError)
    | _ =>
      if cfg.localUnsupported then finish 1 (logErr render cfg w lg .localDebuginfoError)
      else writeReports cfg.flags reps human json cy out w

/-- the part of `main_result` after the dump was read (main.rs:408-516): the cyborg file is created
    first, then the output file, then the reports are produced -/
def emitReports (render : Diag → Bytes) (cfg : Cfg) (inp : Input) (reps : Reports)
    (human json : Bool) (lg : Option Handle) (w : World) : Result :=
  match openOpt w (if cfg.flags.cyborg then some cfg.cyborgPath else none) with
  | none => failWith w .other
  | some (w1, cy) =>
    match openPrimary w1 cfg.outputFile with
    | none => failWith w1 .other
    | some (w2, out) => afterOpen render cfg inp reps human json lg cy out w2

/-- `main` (main.rs:274-523). `render` gives the bytes of a logged diagnostic. -/
def run (render : Diag → Bytes) (cfg : Cfg) (inp : Input) (reps : Reports) (w : World) : Result :=
  let f := cfg.flags
  if groupCount f + b2n cfg.helpMarkdown > 1 then
    finish 2 { w with stderr := w.stderr ++ [.usage] }
  else
    match openOpt w cfg.logFile with
    | none => failWith w .other
    | some (w, lg) =>
      if cfg.helpMarkdown then
        let (s', e) := w.stdout.write reps.helpMd
        let w := { w with stdout := s' }
        match e with
        | none => finish 0 w
        | some _ => finish 101 (logErr render cfg w lg .panicLogged)
      else
        let rawDump := f.dump
        let human := humanOn f
        let json := jsonOn f
        if f.pretty && !json then finish 1 (logErr render cfg w lg .prettyInvalid)
        else if f.brief && !(human || rawDump) then finish 1 (logErr render cfg w lg .briefInvalid)
        else
          match inp with
          | .unreadable => finish 1 (logErr render cfg w lg .readError)
          | _ => emitReports render cfg inp reps human json lg w

/-- SPECIFICATION (option documentation): the bytes an accepted command line sends to the PRIMARY
    output — the raw dump; or the human report ("the default"; with `--cyborg` "the --human output will
    be the 'primary' output"); or the JSON report (`--json`). Used by the theorems, not by `run`. -/
def primaryBytes (f : Flags) (reps : Reports) : Bytes :=
  if f.dump then (dumpRep f reps).bytes
  else (if humanOn f then (humanRep f reps).bytes else []) ++
       (if jsonOn f && !f.cyborg then (jsonRep f reps).bytes else [])

end MdModel.Cli
