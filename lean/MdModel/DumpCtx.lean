/-
  MdModel.DumpCtx — executable model of CPU-context reading and of the per-thread accessors the
  property names ("thread contexts and stacks"); line numbers of the pinned sources in brackets.

    MinidumpSystemInfo::read [minidump.rs 3175] (raw record, CSD string, the CPU_INFORMATION union
        resolved into the `cpu_info` text)                      -> `readSystemInfoX`
    Cpu::from_processor_architecture, Cpu::pointer_width [system_info.rs 110,130] -> `cpuOfArch`, `CpuKind.ptrBytes`
    MinidumpContext::read [context.rs 1081]: dispatch on the RAW processor_architecture of the system
        info, `gread_with` of the CONTEXT_* record of that CPU (layouts regenerated from format.rs by
        translators/layouts_c01x.py), `ContextFlagsCpu::from_flags(context_flags) == CONTEXT_<cpu>`
                                                                 -> `ctxKindOfArch`, `contextFlagsCpu`, `contextRead`
    get_instruction_pointer / get_stack_pointer [context.rs 1219,1235] (array indexing with the
        register-number enums)                                   -> `Context.ip`, `Context.sp`
    MinidumpContext::print [context.rs 1366]: the array indexing of the ARM64 / MIPS printers
                                                                 -> `ctxPrintReads`
    MinidumpThread::context [minidump.rs 2855], MinidumpException::context [4898] -> `contextOf`
    MinidumpMemoryListBase::from_regions [2162] (`into_rangemap_safe`, C08's model), memory_at_address [2177]
                                                                 -> `memTable`, `memoryAtAddress`
    MinidumpThread::stack_memory [2865]                          -> `stackMemory`
    MinidumpMemoryBase::get_memory_at_address::<u32> [2048]      -> `regionU32`
    MinidumpThread::last_error [2980]                            -> `lastError`
    MinidumpThread::print's stack dump loop [2938-2967], print_contents [2058] -> `printStackWords`, `printContents`

  What is NOT modelled: the XSTATE warning (a log line), `valid_registers`/`format_register`
  (C18's model), the text the printers emit.
-/
import MdModel.Dump
import MdModel.RangeMap
import MdModel.Gen.LayoutsX
namespace MdModel.Dump
open MdModel
open MdModel.Gen.Layouts
open MdModel.Gen.LayoutsX

/-! ## field access by NAME in a generated layout -/

/-- position of the scalar called `name` in a flattened layout -/
def fieldIdx (l : Layout) (name : String) : Option Nat := l.findIdx? (fun f => f.1 == name)

/-- value of the scalar called `name`; `none` when the generated layout has no such field (a renamed
    field in format.rs): callers treat that as the Rust compile error / out-of-bounds it would be. -/
def getField? (l : Layout) (vs : List Nat) (name : String) : Option Nat :=
  match fieldIdx l name with
  | none => none
  | some i => vs[i]?

/-- element `i` of the fixed array field `arr` (`raw.iregs[i]`): indexing past the end of a fixed
    array is a panic in Rust. -/
def arrayAt (l : Layout) (vs : List Nat) (arr : String) (i : Nat) : M Nat :=
  match getField? l vs (arr ++ "[" ++ toString i ++ "]") with
  | some v => pure v
  | none => M.panic ("index out of bounds: " ++ arr ++ "[" ++ toString i ++ "]")

/-- a plain field (`raw.rip`); a missing name is reported like an out-of-bounds index -/
def fieldAtName (l : Layout) (vs : List Nat) (name : String) : M Nat :=
  match getField? l vs name with
  | some v => pure v
  | none => M.panic ("no such field: " ++ name)

/-! ## system info -/

/-- `minidump::system_info::Cpu` -/
inductive CpuKind where
  | x86 | x86_64 | ppc | ppc64 | sparc | arm | arm64 | mips | mips64 | unknown
  deriving DecidableEq, Repr, Inhabited

/-- `Cpu::from_processor_architecture` [system_info.rs 110] -/
def cpuOfArch (a : Nat) : CpuKind :=
  if a = PROCESSOR_ARCHITECTURE_INTEL ∨ a = PROCESSOR_ARCHITECTURE_IA32_ON_WIN64 then .x86
  else if a = PROCESSOR_ARCHITECTURE_AMD64 then .x86_64
  else if a = PROCESSOR_ARCHITECTURE_PPC then .ppc
  else if a = PROCESSOR_ARCHITECTURE_PPC64 then .ppc64
  else if a = PROCESSOR_ARCHITECTURE_SPARC then .sparc
  else if a = PROCESSOR_ARCHITECTURE_ARM then .arm
  else if a = PROCESSOR_ARCHITECTURE_ARM64 ∨ a = PROCESSOR_ARCHITECTURE_ARM64_OLD then .arm64
  else if a = PROCESSOR_ARCHITECTURE_MIPS then .mips
  else if a = PROCESSOR_ARCHITECTURE_MIPS64 then .mips64
  else .unknown

/-- `Display for Cpu` -/
def CpuKind.name : CpuKind → String
  | .x86 => "x86" | .x86_64 => "amd64" | .ppc => "ppc" | .ppc64 => "ppc64" | .sparc => "sparc"
  | .arm => "arm" | .arm64 => "arm64" | .mips => "mips" | .mips64 => "mips64" | .unknown => "unknown"

/-- `cpu.pointer_width().size_in_bytes()` [system_info.rs 130,163] -/
def CpuKind.ptrBytes : CpuKind → Option Nat
  | .x86 | .ppc | .sparc | .arm | .mips => some 4
  | .x86_64 | .ppc64 | .arm64 | .mips64 => some 8
  | .unknown => none

/-- `{:#x}` of an unsigned integer -/
def hexLit (n : Nat) : String := "0x" ++ String.ofList (Nat.toDigits 16 n)

/-- the four bytes `u32::to_le_bytes` yields, as `char::from(u8)` -/
def leChars (v : Nat) : List Char :=
  [Char.ofNat (v % 256), Char.ofNat (v / 256 % 256), Char.ofNat (v / 65536 % 256), Char.ofNat (v / 16777216 % 256)]

/-- the `vendors` table of `MinidumpSystemInfo::read` [3241] -/
def ARM_VENDORS : List (Nat × String) :=
  [(0x41, "ARM"), (0x51, "Qualcomm"), (0x56, "Marvell"), (0x69, "Intel/Marvell")]

/-- the `parts` table [3247] -/
def ARM_PARTS : List (Nat × String) :=
  [(0x4100c050, "Cortex-A5"), (0x4100c080, "Cortex-A8"), (0x4100c090, "Cortex-A9"), (0x4100c0f0, "Cortex-A15"),
   (0x4100c140, "Cortex-R4"), (0x4100c150, "Cortex-R5"), (0x4100b360, "ARM1136"), (0x4100b560, "ARM1156"),
   (0x4100b760, "ARM1176"), (0x4100b020, "ARM11-MPCore"), (0x41009260, "ARM926"), (0x41009460, "ARM946"),
   (0x41009660, "ARM966"), (0x510006f0, "Krait"), (0x510000f0, "Scorpion")]

/-- the `features` table [3264]: (`ArmElfHwCaps` constant, printed name), in printing order -/
def ARM_FEATURES : List (String × String) :=
  [("HWCAP_SWP", "swp"), ("HWCAP_HALF", "half"), ("HWCAP_THUMB", "thumb"), ("HWCAP_26BIT", "26bit"),
   ("HWCAP_FAST_MULT", "fastmult"), ("HWCAP_FPA", "fpa"), ("HWCAP_VFP", "vfpv2"), ("HWCAP_EDSP", "edsp"),
   ("HWCAP_JAVA", "java"), ("HWCAP_IWMMXT", "iwmmxt"), ("HWCAP_CRUNCH", "crunch"), ("HWCAP_THUMBEE", "thumbee"),
   ("HWCAP_NEON", "neon"), ("HWCAP_VFPv3", "vfpv3"), ("HWCAP_VFPv3D16", "vfpv3d16"), ("HWCAP_TLS", "tls"),
   ("HWCAP_VFPv4", "vfpv4"), ("HWCAP_IDIVA", "idiva"), ("HWCAP_IDIVT", "idivt")]

def lookupNat {α : Type} (t : List (Nat × α)) (k : Nat) : Option α := (t.find? fun p => p.1 == k).map (·.2)
def lookupStr {α : Type} (t : List (String × α)) (k : String) : Option α := (t.find? fun p => p.1 == k).map (·.2)

/-- every bit `ArmElfHwCaps::from_bits_truncate` keeps -/
def ARM_HWCAPS_ALL : Nat := ARM_ELF_HWCAPS.foldl (fun acc p => acc ||| p.2) 0

/-- the x86 / x86-64 branch of the `cpu_info` text [3198-3229] -/
def cpuInfoX86 (cpu : CpuKind) (e : Endian) (cpuData : Bytes) (level revision : Nat) : M String :=
  (if cpu = .x86 then
     M.ofOption .StreamReadFailure (readFields X86CpuInfo cpuData 0 e) >>= fun v =>
     pure (String.ofList (leChars (fld v 0) ++ leChars (fld v 1) ++ leChars (fld v 2)) ++ " ")
   else pure "") >>= fun pre =>
  pure (pre ++ "family " ++ toString level ++ " model " ++ toString ((revision >>> 8) &&& 0xff) ++
        " stepping " ++ toString (revision &&& 0xff))

/-- the ARM branch [3230-3326] -/
def cpuInfoArm (e : Endian) (cpuData : Bytes) (level : Nat) : M String :=
  M.ofOption .StreamReadFailure (readFields ARMCpuInfo cpuData 0 e) >>= fun v =>
  let cpuid := fld v 0
  let s0 := "ARMv" ++ toString level
  let s1 :=
    if cpuid ≠ 0 then
      let vendorId := (cpuid >>> 24) &&& 0xff
      let partId := cpuid &&& 0xff00fff0
      s0 ++ (match lookupNat ARM_VENDORS vendorId with
             | some n => " " ++ n
             | none => " vendor(" ++ hexLit vendorId ++ ")") ++
            (match lookupNat ARM_PARTS partId with
             | some n => " " ++ n
             | none => " part(" ++ hexLit partId ++ ")")
    else s0
  let caps := fld v 1 &&& ARM_HWCAPS_ALL
  let s2 :=
    if caps ≠ 0 then
      let names := ARM_FEATURES.filterMap fun (c, n) =>
        match lookupStr ARM_ELF_HWCAPS c with
        | some bit => if caps &&& bit = bit then some n else none
        | none => none
      s1 ++ " features: " ++ ",".intercalate names
    else s1
  pure s2

structure SysInfo where
  /-- the 36 scalars of `MINIDUMP_SYSTEM_INFO` (12 header fields, 24 bytes of `cpu.data`) -/
  vals : List Nat
  arch : Nat
  level : Nat
  revision : Nat
  platform : Nat
  csdRva : Nat
  cpuData : Bytes
  cpu : CpuKind
  /-- `csd_version`: `None` when the string cannot be read -/
  csd : Option (List Nat)
  /-- byte length of the UTF-16 text of the CSD string (0 when it cannot be read) -/
  csdBytes : Nat
  cpuInfo : Option String
  deriving Repr

/-- `MinidumpSystemInfo::read(bytes, all, endian, None)` [3175] -/
def readSystemInfoX (s all : Bytes) (e : Endian) : M SysInfo :=
  match readFields MINIDUMP_SYSTEM_INFO s 0 e with
  | none => M.fail .StreamReadFailure
  | some v =>
    let arch := fld v 0
    let cpu := cpuOfArch arch
    let cpuData : Bytes := (((v.drop 12).take 24).map UInt8.ofNat).toArray
    readStringUtf16 all (fld v 9) e >>= fun csd =>
    (match cpu with
     | .x86 | .x86_64 => cpuInfoX86 cpu e cpuData (fld v 1) (fld v 2) >>= fun t => pure (some t)
     | .arm => cpuInfoArm e cpuData (fld v 1) >>= fun t => pure (some t)
     | _ => pure none) >>= fun info =>
    pure { vals := v, arch := arch, level := fld v 1, revision := fld v 2, platform := fld v 8, csdRva := fld v 9,
           cpuData := cpuData, cpu := cpu, csd := csd.map (·.1),
           csdBytes := (match csd with
             | some (_, stop) => stop - (fld v 9 + 4)
             | none => 0),
           cpuInfo := info }

/-- What `Minidump::read` [5502] does eagerly and `get_stream::<MinidumpSystemInfo>` [5601] repeats:
    the directory lookup + `location_slice` + `MinidumpSystemInfo::read`; on success `get_stream`
    clones the cached value (the CSD `String` is copied: at most 3 UTF-8 bytes per UTF-16 code
    unit, the estimate also used for the decoder's buffer), on failure it reads the stream again —
    with the same result and the same requests. -/
def getSystemInfo (d : Dump) (b : Bytes) : M (Except Err SysInfo) :=
  getStream d b ST_SystemInfoStream (fun s => readSystemInfoX s b d.endian) >>= fun eager =>
  match eager with
  | .ok si =>
    M.alloc (si.csdBytes / 2) 3 false >>= fun _ => pure (.ok si)
  | .error _ => getStream d b ST_SystemInfoStream (fun s => readSystemInfoX s b d.endian)

/-! ## `MinidumpContext::read` -/

inductive CtxKind where
  | x86 | amd64 | ppc | ppc64 | sparc | arm | arm64 | arm64Old | mips
  deriving DecidableEq, Repr, Inhabited

def CtxKind.all : List CtxKind := [.x86, .amd64, .ppc, .ppc64, .sparc, .arm, .arm64, .arm64Old, .mips]

/-- the variant name of `MinidumpRawContext` -/
def CtxKind.name : CtxKind → String
  | .x86 => "X86" | .amd64 => "Amd64" | .ppc => "Ppc" | .ppc64 => "Ppc64" | .sparc => "Sparc"
  | .arm => "Arm" | .arm64 => "Arm64" | .arm64Old => "OldArm64" | .mips => "Mips"

/-- the wire record `gread_with` reads for this CPU -/
def CtxKind.layout : CtxKind → Layout
  | .x86 => CONTEXT_X86 | .amd64 => CONTEXT_AMD64 | .ppc => CONTEXT_PPC | .ppc64 => CONTEXT_PPC64
  | .sparc => CONTEXT_SPARC | .arm => CONTEXT_ARM | .arm64 => CONTEXT_ARM64 | .arm64Old => CONTEXT_ARM64_OLD
  | .mips => CONTEXT_MIPS

/-- `SizeWith::size_with` of that record (generated; equal to `Layout.size layout`, proved by `decide`) -/
def CtxKind.wireSize : CtxKind → Nat
  | .x86 => SIZE_CONTEXT_X86 | .amd64 => SIZE_CONTEXT_AMD64 | .ppc => SIZE_CONTEXT_PPC | .ppc64 => SIZE_CONTEXT_PPC64
  | .sparc => SIZE_CONTEXT_SPARC | .arm => SIZE_CONTEXT_ARM | .arm64 => SIZE_CONTEXT_ARM64
  | .arm64Old => SIZE_CONTEXT_ARM64_OLD | .mips => SIZE_CONTEXT_MIPS

/-- the `ContextFlagsCpu` constant the flags are compared with -/
def CtxKind.cpuFlag : CtxKind → Nat
  | .x86 => CPUFLAG_CONTEXT_X86 | .amd64 => CPUFLAG_CONTEXT_AMD64 | .ppc => CPUFLAG_CONTEXT_PPC
  | .ppc64 => CPUFLAG_CONTEXT_PPC64 | .sparc => CPUFLAG_CONTEXT_SPARC | .arm => CPUFLAG_CONTEXT_ARM
  | .arm64 => CPUFLAG_CONTEXT_ARM64 | .arm64Old => CPUFLAG_CONTEXT_ARM64_OLD | .mips => CPUFLAG_CONTEXT_MIPS

/-- The `match` of `MinidumpContext::read` on `ProcessorArchitecture::from_u16(raw.processor_architecture)`;
    `none` = `Err(ContextError::UnknownCpuContext)` (MIPS64, IA64, ALPHA, SHX, MSIL, UNKNOWN and
    every number that is not a discriminant). -/
def ctxKindOfArch (a : Nat) : Option CtxKind :=
  if a = PROCESSOR_ARCHITECTURE_INTEL ∨ a = PROCESSOR_ARCHITECTURE_IA32_ON_WIN64 then some .x86
  else if a = PROCESSOR_ARCHITECTURE_AMD64 then some .amd64
  else if a = PROCESSOR_ARCHITECTURE_PPC then some .ppc
  else if a = PROCESSOR_ARCHITECTURE_PPC64 then some .ppc64
  else if a = PROCESSOR_ARCHITECTURE_SPARC then some .sparc
  else if a = PROCESSOR_ARCHITECTURE_ARM then some .arm
  else if a = PROCESSOR_ARCHITECTURE_ARM64 then some .arm64
  else if a = PROCESSOR_ARCHITECTURE_ARM64_OLD then some .arm64Old
  else if a = PROCESSOR_ARCHITECTURE_MIPS then some .mips
  else none

/-- `ContextFlagsCpu::from_flags(flags as u32)` [format.rs 814]:
    `from_bits_truncate(flags & CONTEXT_CPU_MASK)` keeps the bits of the declared constants only.
    (For PPC64 / ARM64_OLD `context_flags` is a u64 that is truncated with `as u32` first.) -/
def contextFlagsCpu (flags : Nat) : Nat := ((flags % 4294967296) &&& CONTEXT_CPU_MASK) &&& CONTEXT_FLAGS_CPU_ALL

inductive CtxErr where
  | readFailure
  | unknownCpu
  deriving DecidableEq, Repr

structure Context where
  kind : CtxKind
  /-- the scalars of the record in layout order -/
  vals : List Nat
  flags : Nat
  deriving Repr

/-- `MinidumpContext::read(bytes, endian, system_info, misc)` [context.rs 1081]. The record is read
    from the START of `bytes`; trailing bytes (XSTATE, padding) are ignored, a short buffer or a
    `context_flags` whose CPU bits are not exactly this CPU's constant is `ReadFailure`. -/
def contextRead (bytes : Bytes) (e : Endian) (arch : Nat) : Except CtxErr Context :=
  match ctxKindOfArch arch with
  | none => .error .unknownCpu
  | some k =>
    match readFields k.layout bytes 0 e with
    | none => .error .readFailure
    | some vs =>
      match getField? k.layout vs "context_flags" with
      | none => .error .readFailure
      | some flags => if contextFlagsCpu flags = k.cpuFlag then .ok ⟨k, vs, flags⟩ else .error .readFailure

/-- `get_instruction_pointer` [context.rs 1219] -/
def Context.ip (c : Context) : M Nat :=
  let l := c.kind.layout
  match c.kind with
  | .amd64 => fieldAtName l c.vals "rip"
  | .arm => arrayAt l c.vals "iregs" ArmRegisterNumbers_ProgramCounter
  | .arm64 | .arm64Old => fieldAtName l c.vals "pc"
  | .ppc | .ppc64 => fieldAtName l c.vals "srr0"
  | .sparc => fieldAtName l c.vals "pc"
  | .x86 => fieldAtName l c.vals "eip"
  | .mips => fieldAtName l c.vals "epc"

/-- `get_stack_pointer` [context.rs 1235] -/
def Context.sp (c : Context) : M Nat :=
  let l := c.kind.layout
  match c.kind with
  | .amd64 => fieldAtName l c.vals "rsp"
  | .arm => arrayAt l c.vals "iregs" ArmRegisterNumbers_StackPointer
  | .arm64 | .arm64Old => fieldAtName l c.vals "sp"
  | .ppc => arrayAt l c.vals "gpr" PpcRegisterNumbers_StackPointer
  | .ppc64 => arrayAt l c.vals "gpr" Ppc64RegisterNumbers_StackPointer
  | .sparc => arrayAt l c.vals "g_r" SparcRegisterNumbers_StackPointer
  | .x86 => fieldAtName l c.vals "esp"
  | .mips => arrayAt l c.vals "iregs" MipsRegisterNumbers_StackPointer

/-- the registers `MinidumpContext::print` [context.rs 1366] reaches by INDEX (everything else is
    iterated): ARM64 / ARM64_OLD `raw.iregs[..29]`, `raw.iregs[29]`, `raw.iregs[30]`; MIPS
    `raw.iregs[*reg as usize]` for the twelve `MIPS_REGS`. -/
def ctxPrintIndices : CtxKind → List Nat
  | .arm64 | .arm64Old => (List.range 29) ++ [Arm64RegisterNumbers_FramePointer, Arm64RegisterNumbers_LinkRegister]
  | .mips => [MipsRegisterNumbers_S0, MipsRegisterNumbers_S1, MipsRegisterNumbers_S2, MipsRegisterNumbers_S3,
              MipsRegisterNumbers_S4, MipsRegisterNumbers_S5, MipsRegisterNumbers_S6, MipsRegisterNumbers_S7,
              MipsRegisterNumbers_GlobalPointer, MipsRegisterNumbers_StackPointer, MipsRegisterNumbers_FramePointer,
              MipsRegisterNumbers_ReturnAddress]
  | _ => []

def readRegs (l : Layout) (vs : List Nat) (arr : String) : List Nat → M (List Nat)
  | [] => pure []
  | i :: is => arrayAt l vs arr i >>= fun v => readRegs l vs arr is >>= fun rest => pure (v :: rest)

/-- the indexed register reads of `MinidumpContext::print` -/
def ctxPrintReads (c : Context) : M (List Nat) := readRegs c.kind.layout c.vals "iregs" (ctxPrintIndices c.kind)

/-- what the engine compares for one context: kind, flags, instruction pointer, stack pointer and
    the sum of the registers the printer indexes -/
structure CtxOut where
  kind : CtxKind
  flags : Nat
  ip : Nat
  sp : Nat
  printed : Nat
  deriving Repr

/-- `MinidumpThread::context` [2855] / `MinidumpException::context` [4898] followed by the accessors
    and the printer: `self.context?` (the `location_slice` of the descriptor, taken at read time),
    `MinidumpContext::read(..)`. `none` = no context bytes. -/
def contextOf (all : Bytes) (e : Endian) (arch : Nat) (range : Option (Nat × Nat)) :
    M (Option (Except CtxErr CtxOut)) :=
  match range with
  | none => pure none
  | some (s, t) =>
    match contextRead (all.extract s t) e arch with
    | .error er => pure (some (.error er))
    | .ok c =>
      c.ip >>= fun ip => c.sp >>= fun sp => ctxPrintReads c >>= fun regs =>
      pure (some (.ok ⟨c.kind, c.flags, ip, sp, regs.sum % 18446744073709551616⟩))

/-! ## memory lookup -/

/-- `MinidumpMemoryListBase::from_regions` [2162]: `(region.memory_range(), index)` through
    `into_rangemap_safe` — C08's model; its final `unwrap` is the panic outcome. The collected
    vector and the range map are logged as growth allocations (≤ 32 bytes per region each). -/
def memTable (rs : List Region) : M (List RangeMap.Entry) :=
  M.alloc rs.length 32 false >>= fun _ =>
  M.alloc rs.length 32 false >>= fun _ =>
  match RangeMap.safe (rs.zipIdx.map fun (r, i) => (RangeMap.mkRange r.base r.size, i)) with
  | .ok m => pure m
  | .panic s => M.panic s

/-- the memory list `get_memory` serves, with its lookup table (arrays: O(1) / O(log n) access in
    the compiled model; `RangeMap.get m a` is by definition `RangeMap.bsearch m.toArray a`) -/
structure MemView where
  regions : Array Region
  table : Array RangeMap.Entry
  deriving Repr

def MemView.empty : MemView := ⟨#[], #[]⟩

/-- `memory_at_address` [2177]: `regions_by_addr.get(address).and_then(|&index| self.regions.get(index))` -/
def memoryAtAddress (mv : MemView) (a : Nat) : Option Region :=
  match RangeMap.bsearch mv.table a with
  | none => none
  | some i => mv.regions[i]?

/-- `MinidumpThread::stack_memory` [2865]: the thread's own stack memory, else the region of the
    memory list that contains `stack.start_of_memory_range` -/
def stackMemory (mv : MemView) (t : Thread) : Option Region :=
  match t.stack with
  | some r => some r
  | none => memoryAtAddress mv t.stackStart

/-- `get_memory_at_address::<u32>(addr)` [2048]: `addr.checked_sub(base)? as usize`, then
    `bytes.pread_with::<u32>(start, endian)` on the region's bytes `all[rva .. rva+size]` -/
def regionU32 (all : Bytes) (e : Endian) (r : Region) (addr : Nat) : Option Nat :=
  match checkedSub addr r.base with
  | none => none
  | some start => readScalar (all.extract r.rva (r.rva + r.size)) start 4 e

/-- `MinidumpThread::last_error(cpu, memory)` [2980] up to the `u32` read from the TEB
    (`CrashReason::from_windows_error` of that value is `MdModel.Reason.windowsError`) -/
def lastError (all : Bytes) (e : Endian) (mv : MemView) (t : Thread) (cpu : CpuKind) : Option Nat :=
  match cpu.ptrBytes with
  | none => none
  | some pw =>
    match checkedMul pw 13 with
    | none => none
    | some off =>
      match checkedAdd t.teb off with
      | none => none
      | some addr =>
        match memoryAtAddress mv addr with
        | none => none
        | some r => regionU32 all e r addr

/-! ## the stack / memory dump loops of the printers -/

/-- The stack dump of `MinidumpThread::print` [2938-2967]:
    `chunk_size = pointer_width.size_in_bytes().unwrap_or(8)`; `chunks_exact(chunk_size)` (panics
    for 0); per chunk `chunk.try_into().unwrap()` into `[u8; 4]` (Bits32) or `[u8; 8]` (otherwise)
    and `offset += chunk_size`. Returns the final `offset`. -/
def printStackWords (cpu : CpuKind) (stackLen : Nat) : M Nat :=
  let chunk := cpu.ptrBytes.getD 8
  let want := if cpu.ptrBytes = some 4 then 4 else 8
  if chunk = 0 then M.panic "chunks_exact: chunk size must be non-zero"
  else
    M.loop (stackLen / chunk) 0 fun off _ =>
      if chunk ≠ want then M.panic "chunk.try_into().unwrap()"
      else usizeAdd "MinidumpThread::print: offset += chunk_size" off chunk

/-- `print_contents` [2058]: one line per 16-byte paragraph (`chunks(16)`), `offset += 16` -/
def printContents (len : Nat) : M Nat :=
  M.loop ((len + 15) / 16) 0 fun off _ => usizeAdd "print_contents: offset += PARAGRAPH_SIZE" off 16

/-! ## per-thread view -/

structure ThreadX where
  id : Nat
  ctx : Option (Except CtxErr CtxOut)
  stack : Option Region
  /-- `last_error` for the dump's CPU, `Cpu::X86`, `Cpu::X86_64` -/
  lastErrors : List (Option Nat)
  /-- final offset of the printer's stack dump -/
  printed : Nat
  deriving Repr

def threadX (all : Bytes) (e : Endian) (sys : Option SysInfo) (mv : MemView) (t : Thread) : M ThreadX :=
  (match sys with
   | none => pure none
   | some si => contextOf all e si.arch t.context) >>= fun ctx =>
  let cpu := match sys with
    | none => CpuKind.unknown
    | some si => si.cpu
  let stack := stackMemory mv t
  -- `stack.bytes()` is the slice `all[rva .. rva + size]`
  let stackLen := match stack with
    | some r => (all.extract r.rva (r.rva + r.size)).size
    | none => 0
  printStackWords cpu stackLen >>= fun printed =>
  pure { id := t.id, ctx := ctx, stack := stack,
         lastErrors := [cpu, .x86, .x86_64].map (lastError all e mv t), printed := printed }

def threadsX (all : Bytes) (e : Endian) (sys : Option SysInfo) (mv : MemView) : List Thread → M (List ThreadX)
  | [] => pure []
  | t :: ts => threadX all e sys mv t >>= fun x => threadsX all e sys mv ts >>= fun xs => pure (x :: xs)

end MdModel.Dump
