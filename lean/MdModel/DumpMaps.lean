/-
  MdModel.DumpMaps — `MinidumpLinuxMaps` on ARBITRARY bytes, panicking inputs included.

    MinidumpLinuxMaps::read [minidump.rs 2566] = procfs-core 0.17 `MemoryMaps::from_read`
        (`BufReader` + `lines()`, `MemoryMap::from_line`, `MMapPath::from`, the smaps-attribute
        branch)                                              -> `readLinuxMapsX`
    MinidumpLinuxMaps::from_regions [2607] (`memory_range()` = both addresses taken as inclusive
        ends, `into_rangemap_safe` = C08's model)            -> `mapsFromRegions`
    MinidumpLinuxMaps::memory_info_at_address [2620] (`&self.regions[index]`) -> `mapsInfoAt`

  The line parser itself is C02's (`MdModel.Dump2`: `textLines`, `mapEntryOfLine`, `mapPathOf`,
  `smapsAttribute`, written for the round trip and tied there on malformed lines as well); it is
  used here UNCHANGED. This file adds
    * the allocation log (`mapsLoopX`; `mapsLoopX_res` in MdProofs.Lemmas.BytesMaps shows that the
      outcome is the one of C02's `mapsLoop`),
    * the lookup table and the lookups,
    * the SPECIFICATION of the inputs on which the reader panics (known finding
      C01-procfs-mmappath): `HostileStackPath`, `HostileSysvPath`, `HostileAttrLine` — the three
      shapes —, `HostileLine`, and `MapsHostile` = "the first line the parser does not accept is of
      one of the three shapes". Theorem `maps_panics_iff` (MdProofs.C01): the reader reaches a
      panic outcome iff `MapsHostile`.

  The three panic sites of procfs-core 0.17 (src/process/mod.rs):
    [473]  `x[1..x.len() - 1]`  for a path column starting with `[stack:` whose last byte is not ASCII
    [478]  `&x[5..13]`          for a path column starting with `/SYSV` that is shorter than 13 bytes
                                or has a UTF-8 continuation byte at index 13
    [538]  `v * size_multiplier` for an smaps attribute line `Key: <v> <suffix>` with `v * 1024 > u64::MAX`
                                (only in a build with overflow checks — which the property counts)
-/
import MdModel.Dump2
import MdModel.RangeMap
import MdModel.Gen.MapsGuard
namespace MdModel.Dump
open MdModel

/-! ## the specification of hostile lines -/

/-- `line.starts_with(|c: char| c.is_ascii_uppercase())` -/
def startsUpper (line : List UInt8) : Bool := (line.head?.map fun c => decide (65 ≤ c ∧ c ≤ 90)) == some true

/-- shape 1: the (trimmed) path column starts with `[stack:` and its last byte is not ASCII, so that
    `x.len() - 1` is not a char boundary -/
def HostileStackPath (x : List UInt8) : Bool :=
  startsWithB x S_STACK_COLON && ((x.getLast?.map fun c => decide (0x80 ≤ c)) == some true)

/-- shape 2: the (trimmed) path column starts with `/SYSV` and `x[5..13]` does not exist: fewer than
    13 bytes, or byte 13 is a UTF-8 continuation byte (index 13 is inside a character) -/
def HostileSysvPath (x : List UInt8) : Bool :=
  startsWithB x S_SYSV && (decide (x.length < 13) || ((x[13]?.map fun c => decide (0x80 ≤ c ∧ c < 0xC0)) == some true))

def HostilePath (x : List UInt8) : Bool := HostileStackPath x || HostileSysvPath x

/-- shape 3: an smaps attribute line (not `VmFlags…`) with at least three blank-separated words whose
    second word is a decimal u64 `v` with `v * 1024 > u64::MAX` -/
def HostileAttrLine (line : List UInt8) : Bool :=
  !startsWithB line S_VMFLAGS &&
  (match asciiWords line with
   | _ :: v :: _ :: _ =>
     (match parseUnsigned 10 U64MAX v with
      | some val => decide (val * 1024 > U64MAX)
      | none => false)
   | _ => false)

/-- the five leading columns of a maps line, parsed the way `MemoryMap::from_line` parses them
    (`splitn(6, ' ')`, `split_into_num`, `from_str_radix`), and the raw sixth column.
    `none`: the line is rejected before the path column is looked at. -/
def mapEntryCols (line : List UInt8) : Option (MapEntry × List UInt8) :=
  match splitNByte 32 6 line with
  | [address, perms, offset, dev, inode, path] =>
    match splitPair 45 address with
    | none => none
    | some (a, b) =>
      match parseUnsigned 16 U64MAX a, parseUnsigned 16 U64MAX b with
      | some lo, some hi =>
        match parseUnsigned 16 U64MAX offset with
        | none => none
        | some off =>
          match splitPair 58 dev with
          | none => none
          | some (dm, dn) =>
            match parseI32Hex dm, parseI32Hex dn with
            | some maj, some min =>
              match parseUnsigned 10 U64MAX inode with
              | none => none
              | some ino => some (⟨lo, hi, parsePerms perms, off, maj, min, ino, .anonymous⟩, path)
            | _, _ => none
      | _, _ => none
  | _ => none

/-- a line of one of the three shapes, in the parser state `cur` (= a map entry precedes it):
    well-formed UTF-8, and either an attribute line of shape 3 behind a map entry, or a map-entry
    line whose five leading columns parse and whose trimmed path column is of shape 1 or 2 -/
def HostileLine (cur : Bool) (line : List UInt8) : Bool :=
  utf8Valid line &&
  (if startsUpper line then cur && HostileAttrLine line
   else
     match mapEntryCols line with
     | some (_, path) => HostilePath (trimBytes path)
     | none => false)

/-- the parser consumes the line without error (and without panic): the new state -/
def lineAccepted (cur : Bool) (line : List UInt8) : Option Bool :=
  if !utf8Valid line then none
  else if startsUpper line then
    if !cur then none
    else
      match (smapsAttribute line).res with
      | .ok _ => some cur
      | _ => none
  else
    match (mapEntryOfLine line).res with
    | .ok _ => some true
    | _ => none

/-- the first line that is not accepted is hostile -/
def hostileFrom : List (List UInt8) → Bool → Bool
  | [], _ => false
  | l :: rest, cur =>
    if HostileLine cur l then true
    else
      match lineAccepted cur l with
      | some cur' => hostileFrom rest cur'
      | none => false

/-- **the frontier of the known finding**: the `/proc/<pid>/maps` text makes the reader panic -/
def MapsHostile (text : List UInt8) : Prop := hostileFrom (textLines text) false = true

instance (text : List UInt8) : Decidable (MapsHostile text) := by unfold MapsHostile; infer_instance

/-! ## the reader with its allocation log -/

/-- upper estimate of `size_of::<MinidumpLinuxMapInfo>()` (= `procfs_core::MemoryMap`: 136 bytes in
    the pinned build) plus the 24-byte `(Range<u64>, usize)` the lookup table keeps per entry -/
def MAPINFO_SZ : Nat := 160

/-- one key/value slot of `MMapExtension::map` (`HashMap<String, u64>`: 24 + 8 bytes + control byte,
    with the table's growth headroom) -/
def SMAPS_SLOT : Nat := 80

/-- `MemoryMaps::from_buf_read`: C02's `mapsLoop` with the allocation log. Per line: the `String`
    `lines()` yields (`read_until` grows its buffer by doubling: at most twice the line); per
    attribute line the key `String` and its hash-map slot; the vector of entries is logged by
    `readLinuxMapsX`. -/
def mapsLoopX : List (List UInt8) → Bool → List MapEntry → M (List MapEntry)
  | [], _, acc => pure acc.reverse
  | line :: rest, cur, acc =>
    M.alloc line.length 2 false >>= fun _ =>
    if !utf8Valid line then M.fail .StreamReadFailure
    else if startsUpper line then
      if !cur then M.fail .StreamReadFailure
      else
        M.alloc line.length 1 false >>= fun _ =>
        M.alloc 1 SMAPS_SLOT false >>= fun _ =>
        smapsAttribute line >>= fun _ => mapsLoopX rest cur acc
    else
      mapEntryOfLine line >>= fun en => mapsLoopX rest true (en :: acc)

/-- `MinidumpLinuxMaps::from_regions` [2607]: `(region.memory_range(), index)` through
    `into_rangemap_safe`; its final `unwrap` is the panic outcome (unreachable: C08) -/
def mapsFromRegions (es : List MapEntry) : M (List RangeMap.Entry) :=
  M.alloc es.length 32 false >>= fun _ =>
  match RangeMap.safe (es.zipIdx.map fun (x, i) => (RangeMap.mkRangeMap x.lo x.hi, i)) with
  | .ok m => pure m
  | .panic s => M.panic s

structure LinuxMapsX where
  entries : List MapEntry
  table : List RangeMap.Entry
  deriving Repr

/-- `MinidumpLinuxMaps::read` [2566] -/
def readLinuxMapsX (b : Bytes) : M LinuxMapsX :=
  mapsLoopX (textLines b.toList) false [] >>= fun es =>
  M.alloc es.length MAPINFO_SZ false >>= fun _ =>
  mapsFromRegions es >>= fun t =>
  pure ⟨es, t⟩

/-! ## the proposed repair (notes/pending-fix-procfs-mmappath.diff): `maps_text_is_safe`

`translators/maps_guard.py` looks at `MinidumpLinuxMaps::read` of the repository under test and sets
`MdModel.Gen.MapsGuard.MAPS_GUARDED`: `false` for the code with the open finding, `true` when `read`
first refuses text that fails `maps_text_is_safe` (whose text the translator pins). -/

/-- the per-line test of `maps_text_is_safe`: an attribute line of shape 3 (whatever precedes it),
    or a line whose sixth blank-separated column, trimmed, is of shape 1 or 2 (whatever the other
    columns hold) -/
def guardLineBad (line : List UInt8) : Bool :=
  if startsUpper line then HostileAttrLine line
  else
    match (splitNByte 32 6 line)[5]? with
    | some path => HostilePath (trimBytes path)
    | none => false

/-- `maps_text_is_safe` on the lines `BufRead::lines` yields: `true` at the first line that is not
    UTF-8 (procfs-core stops there with an error of its own), `false` at the first bad line -/
def mapsGuardOk : List (List UInt8) → Bool
  | [] => true
  | l :: rest => if !utf8Valid l then true else if guardLineBad l then false else mapsGuardOk rest

/-- the same with its allocation log (one `String` per line looked at) -/
def mapsGuard : List (List UInt8) → M Bool
  | [] => pure true
  | l :: rest =>
    M.alloc l.length 2 false >>= fun _ =>
    if !utf8Valid l then pure true else if guardLineBad l then pure false else mapsGuard rest

/-- `MinidumpLinuxMaps::read` with (`guarded = true`) or without the guard -/
def readLinuxMapsG (guarded : Bool) (b : Bytes) : M LinuxMapsX :=
  if guarded then
    mapsGuard (textLines b.toList) >>= fun ok =>
    if ok then readLinuxMapsX b else M.fail .StreamReadFailure
  else readLinuxMapsX b

/-- `MinidumpLinuxMaps::read` of the repository under test -/
def readLinuxMapsR (b : Bytes) : M LinuxMapsX := readLinuxMapsG MdModel.Gen.MapsGuard.MAPS_GUARDED b

/-- `memory_info_at_address` [2620]: `self.regions_by_addr.get(address).map(|&index| &self.regions[index])`
    — the index panic is explicit -/
def mapsInfoAt (m : LinuxMapsX) (a : Nat) : M (Option Nat) :=
  match RangeMap.get m.table a with
  | none => pure none
  | some i =>
    match m.entries[i]? with
    | some _ => pure (some i)
    | none => M.panic "MinidumpLinuxMaps::memory_info_at_address: self.regions[index]"

/-- the addresses the engine probes: both ends of every entry and their neighbours -/
def mapsProbeAddrs (es : List MapEntry) : List Nat :=
  es.flatMap fun x =>
    (if x.lo > 0 then [x.lo - 1] else []) ++ [x.lo, x.hi] ++ (if x.hi < U64MAX then [x.hi + 1] else [])

def mapsProbes (m : LinuxMapsX) : List Nat → M (List (Nat × Option Nat))
  | [] => pure []
  | a :: as => mapsInfoAt m a >>= fun r => mapsProbes m as >>= fun rest => pure ((a, r) :: rest)

/-- the class of a panic site of this reader, as the engine names it -/
def mapsPanicClass (site : String) : String :=
  if (site.splitOn "x[1..x.len() - 1]").length > 1 then "stack"
  else if (site.splitOn "x[5..13]").length > 1 then "sysv"
  else if (site.splitOn "size_multiplier").length > 1 then "smaps"
  else "other"

end MdModel.Dump
