/-
  MdModel.Cli — placeholder (model not written yet).
-/
import MdModel.Prelude
namespace MdModel.Cli

/-- line-protocol entry point of this model (engine(s): cli) -/
def handle (_engine : String) (_args : List String) : String := "bad-op"

end MdModel.Cli
