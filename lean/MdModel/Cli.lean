/-
  MdModel.Cli — line-protocol entry of engine `cli` (C20). The models live in
    MdModel.CliTable  decision table over the six format flags × three input classes
    MdModel.CliIo     `main` as a state machine over files, standard output and diagnostics
    MdModel.CliOpts   command line ↦ ProcessorOptions / symbol supplier / interactive UI
    MdModel.CliDump   the raw dump as a table of sections
  requests (first field after `cli`):
    `<flags> <input>`                      the decision table (as before)
    `io …`                                 one run of `main` in a described world
    `opts …`                               the processing plan
    `dumpsecs …`                           the sections of `--dump`
-/
import MdModel.CliTable
import MdModel.CliIo
import MdModel.CliOpts
import MdModel.CliDump
namespace MdModel.Cli

/-! ### `cli io <flags> v:<0|1> hm:<0|1> lu:<0|1> in:<class> cy:<id|-> out:<id|-> log:<id|-> so:<ok|full|closed|cap:N> lim:<N|-> fs:<id=kind;…|-> H:<pend>:<hex> J:<pend>:<hex> D:<pend>:<hex> M:<pend>:<hex>`
    kinds: `file:<len>:<seed>` | `dir` | `nodir` | `full` | `null`; ids not listed are absent and creatable.
    answer: `exit:<n> so:<len>:<fnv64> se:<diag+diag|-> f:<id>=<absent|nodir|dir|full|null|file:<len>:<fnv64>|log:<empty|nonempty>>;…`
    (ids = those listed in `fs:` and the three path options, sorted; the `--log-file`, when it is not also
    another option's path, is shown as `log:empty|nonempty` because the text of a logged line is not modelled) -/

def fnv64 (bs : Bytes) : UInt64 :=
  bs.foldl (fun h b => (h ^^^ b.toUInt64) * 0x100000001b3) 0xcbf29ce484222325

def hex16 (n : UInt64) : String :=
  let ds := Nat.toDigits 16 n.toNat
  String.ofList (List.replicate (16 - ds.length) '0' ++ ds)

/-- deterministic filler for pre-existing files (the engine writes the same bytes) -/
def filler (len seed : Nat) : Bytes :=
  (List.range len).map fun i => UInt8.ofNat ((seed + i * 7 + i / 251) % 251)

def parseEntry (kind : String) : Option Entry :=
  match kind.splitOn ":" with
  | ["dir"] => some .dir
  | ["nodir"] => some (.absent false)
  | ["full"] => some .full
  | ["null"] => some .null
  | ["file", len, seed] =>
    match len.toNat?, seed.toNat? with
    | some l, some s => some (.file (filler l s))
    | _, _ => none
  | _ => none

def parseFsSpec (s : String) : Option (List (Path × Entry)) :=
  if s == "-" then some [] else
  (Proto.pieces s ";").mapM fun item =>
    match item.splitOn "=" with
    | [id, kind] => (parseEntry kind).map fun e => (id, e)
    | _ => none

def parseRep (pre : String) (s : String) : Option Rep :=
  match s.splitOn ":" with
  | [p, pend, hx] =>
    if p != pre then none else
    match pend.toNat?, Proto.unhex hx with
    | some n, some bs => some ⟨bs, n⟩
    | _, _ => none
  | _ => none

def parseStdout (s : String) : Option Stdout :=
  match s.splitOn ":" with
  | ["ok"] => some ⟨[], [], none, .other⟩
  | ["full"] => some ⟨[], [], some 0, .other⟩
  | ["closed"] => some ⟨[], [], some 0, .brokenPipe⟩
  | ["cap", n] => n.toNat?.map fun c => ⟨[], [], some c, .other⟩
  | _ => none

def optPath (pre s : String) : Option (Option Path) :=
  match field? pre s with
  | some "-" => some none
  | some p => if p.isEmpty then none else some (some p)
  | none => none

def Diag.name : Diag → String
  | .usage => "usage" | .ioError => "io-error" | .prettyInvalid => "pretty-invalid"
  | .briefInvalid => "brief-invalid" | .readError => "read-error" | .processError => "process-error"
  | .localDebuginfoError => "local-debuginfo-error" | .panicLogged => "panic"

def Entry.render (isLog : Bool) : Entry → String
  | .absent true => "absent"
  | .absent false => "nodir"
  | .dir => "dir"
  | .full => "full"
  | .null => "null"
  | .file c =>
    if isLog then (if c.isEmpty then "log:empty" else "log:nonempty")
    else s!"file:{c.length}:{hex16 (fnv64 c)}"

def insertSorted (x : String) : List String → List String
  | [] => [x]
  | y :: ys => if x < y then x :: y :: ys else if x == y then y :: ys else y :: insertSorted x ys

def handleIo (args : List String) : String :=
  match args with
  | [fl, v, hm, lu, inp, cy, out, lg, so, lim, fsS, h, j, d, m] =>
    match parseFlags fl, bit? "v:" v, bit? "hm:" hm, bit? "lu:" lu, (field? "in:" inp).bind parseInput, optPath "cy:" cy,
          optPath "out:" out, optPath "log:" lg, (field? "so:" so).bind parseStdout, field? "lim:" lim,
          (field? "fs:" fsS).bind parseFsSpec, parseRep "H" h, parseRep "J" j, parseRep "D" d, parseRep "M" m with
    | some f, some voff, some hmd, some lun, some i, some cyP, some outP, some logP, some sout, some limS, some fsL,
      some hr, some jr, some dr, some mr =>
      let limit : Option (Option Nat) := if limS == "-" then some none else limS.toNat?.map some
      match limit with
      | none => "bad-op"
      | some lim =>
        -- `--cyborg` is given iff a path is given
        if f.cyborg != cyP.isSome then "bad-op" else
        let fs : Fs := {
          entry := fun p => match fsL.find? (fun q => q.1 == p) with
            | some (_, e) => e
            | none => .absent true,
          limit := fun _ => lim }
        let cfg : Cfg := { flags := f, cyborgPath := cyP.getD "", helpMarkdown := hmd, outputFile := outP,
                           logFile := logP, verboseOff := voff, localUnsupported := lun }
        let reps : Reports := ⟨hr, hr, jr, jr, dr, dr, mr⟩
        let w : World := ⟨fs, sout, []⟩
        let r := run (fun _ => [0x45]) cfg i reps w
        let ids := (fsL.map (·.1) ++ cyP.toList ++ outP.toList ++ logP.toList).foldl (fun acc x => insertSorted x acc) []
        let showId (id : String) : String :=
          let isLog := logP == some id && cyP != some id && outP != some id
          id ++ "=" ++ (r.world.fs.entry id).render isLog
        let se := if r.world.stderr.isEmpty then "-" else "+".intercalate (r.world.stderr.map Diag.name)
        s!"exit:{r.exit} so:{r.world.stdout.out.length}:{hex16 (fnv64 r.world.stdout.out)} se:{se} f:{if ids.isEmpty then "-" else ";".intercalate (ids.map showId)}"
    | _, _, _, _, _, _, _, _, _, _, _, _, _, _, _ => "bad-op"
  | _ => "bad-op"

def handle (_engine : String) (args : List String) : String :=
  match args with
  | "io" :: rest => handleIo rest
  | "opts" :: rest => handleOpts rest
  | "dumpsecs" :: rest => handleDump rest
  | _ => handleTab args

end MdModel.Cli
