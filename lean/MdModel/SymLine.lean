/-
  MdModel.SymLine — byte-level model of the record parsers of
  `breakpad-symbols/src/sym_file/parser.rs:38-406`.

  nom's three-way result is explicit (`ok rest v | error | failure`) so that `alt` (tries the next
  alternative on *error* only), `cut` (error ↦ failure) and `opt` (swallows *error* only) behave as
  in the code.  Parsers run on the whole remaining window, exactly like the Rust functions; that
  each of them looks at one line only is a THEOREM (`MdProofs.C10.line_local`), not a modelling
  decision.  Strings stay byte lists; `str::from_utf8` is the executable predicate `validUtf8`.
-/
import MdModel.Prelude
import MdModel.RangeMap
namespace MdModel.Sym
open MdModel

abbrev Bytes := List UInt8

def NL : UInt8 := 10
def CR : UInt8 := 13
def SP : UInt8 := 32
def TAB : UInt8 := 9

/-- ASCII bytes of a keyword. -/
def kw (s : String) : Bytes := s.toList.map (fun c => c.toNat.toUInt8)

/-! ### result type and combinators (nom 7.1.3, `complete` flavour) -/

inductive Res (α : Type) where
  | ok (rest : Bytes) (v : α)
  | error
  | failure
  deriving Repr

/-- a parser: `Fn(&[u8]) -> IResult<&[u8], α>` -/
def P (α : Type) := Bytes → Res α

def P.pure {α} (v : α) : P α := fun i => .ok i v

def P.bind {α β} (p : P α) (f : α → P β) : P β := fun i =>
  match p i with
  | .ok r v => f v r
  | .error => .error
  | .failure => .failure

instance : Monad P where
  pure := P.pure
  bind := P.bind

/-- `cut(p)`: an `Error` of `p` becomes a `Failure`. -/
def cut {α} (p : P α) : P α := fun i =>
  match p i with
  | .ok r v => .ok r v
  | .error => .failure
  | .failure => .failure

/-- `opt(p)`: `Error` ↦ `None` without consuming; `Failure` propagates. -/
def opt {α} (p : P α) : P (Option α) := fun i =>
  match p i with
  | .ok r v => .ok r (some v)
  | .error => .ok i none
  | .failure => .failure

/-- one step of `alt((p, q))`: `q` is tried only when `p` returns `Error`. -/
def orElse {α} (p q : P α) : P α := fun i =>
  match p i with
  | .ok r v => .ok r v
  | .error => q i
  | .failure => .failure

/-- `map_res(p, f)`: `f` failing is an `Error` (kind `MapRes`). -/
def mapRes {α β} (p : P α) (f : α → Option β) : P β := fun i =>
  match p i with
  | .ok r v => (match f v with | some w => .ok r w | none => .error)
  | .error => .error
  | .failure => .failure

/-- `terminated(p, q)` -/
def terminated {α β} (p : P α) (q : P β) : P α :=
  p.bind fun v => q.bind fun _ => P.pure v

/-- `tag(s)` -/
def tag (s : Bytes) : P Unit := fun i =>
  if s.isPrefixOf i then .ok (i.drop s.length) () else .error

/-- `take_while(pred)` (zero or more, never fails) -/
def takeWhileP (pred : UInt8 → Bool) : P Bytes := fun i =>
  .ok (i.dropWhile pred) (i.takeWhile pred)

/-- `take_while1`-like (`space1`, `hex_digit1`): one or more, else `Error`. -/
def takeWhile1P (pred : UInt8 → Bool) : P Bytes := fun i =>
  let t := i.takeWhile pred
  if t.isEmpty then .error else .ok (i.dropWhile pred) t

def isSpaceTab (b : UInt8) : Bool := b == SP || b == TAB
def isDigit (b : UInt8) : Bool := 0x30 ≤ b && b ≤ 0x39
def isHexDigit (b : UInt8) : Bool :=
  (0x30 ≤ b && b ≤ 0x39) || (0x41 ≤ b && b ≤ 0x46) || (0x61 ≤ b && b ≤ 0x66)

/-- `space1`: one or more spaces / tabs. -/
def space1 : P Bytes := takeWhile1P isSpaceTab
/-- `hex_digit1` -/
def hexDigit1 : P Bytes := takeWhile1P isHexDigit

/-- `non_space` (parser.rs:97, after the F13 repair): stops at space, `\r`, `\n`. -/
def nonSpace : P Bytes := takeWhileP fun c => c != SP && c != CR && c != NL
/-- `not_my_eol` (parser.rs:113) -/
def notMyEol : P Bytes := takeWhileP fun c => c != CR && c != NL
/-- `my_eol` (parser.rs:105): `\r*\n` -/
def myEol : P Unit := (takeWhileP fun c => c == CR).bind fun _ => tag [NL]

/-- `single(pred)` (parser.rs:122) -/
def single (pred : UInt8 → Bool) : P UInt8 := fun i =>
  match i with
  | b :: rest => if pred b then .ok rest b else .error
  | [] => .error

def hexDigitVal (b : UInt8) : Nat :=
  if 0x30 ≤ b && b ≤ 0x39 then b.toNat - 0x30
  else if 0x41 ≤ b && b ≤ 0x46 then b.toNat - 0x41 + 10
  else b.toNat - 0x61 + 10

def hexVal (ds : Bytes) : Nat := ds.foldl (fun acc d => acc * 16 + hexDigitVal d) 0
def decVal (ds : Bytes) : Nat := ds.foldl (fun acc d => acc * 10 + (d.toNat - 0x30)) 0

/-- `hex_str::<T>` (parser.rs:39): at most `maxLen` (= 2·size_of::<T>()) hex digits, then STOPS;
    `res << 4 | digit` cannot overflow within `maxLen` digits; `&input[k..]` has `k ≤ len`. -/
def hexStr (maxLen : Nat) : P Nat := fun i =>
  let ds := (i.take maxLen).takeWhile isHexDigit
  if ds.isEmpty then .error else .ok (i.drop ds.length) (hexVal ds)

/-- `decimal_u32` (parser.rs:74): at most 10 digits (u64 accumulator cannot overflow), then
    `u32::try_from` — too large is an `Error`. -/
def decimalU32 : P Nat := fun i =>
  let ds := (i.take 10).takeWhile isDigit
  if ds.isEmpty then .error
  else if decVal ds > U32MAX then .error
  else .ok (i.drop ds.length) (decVal ds)

/-! ### `str::from_utf8` as an executable predicate (well-formed UTF-8, Unicode table 3-7) -/

def cont (b : UInt8) : Bool := 0x80 ≤ b && b ≤ 0xBF

def validUtf8 : Bytes → Bool
  | [] => true
  | [b0] => b0 < 0x80
  | [b0, b1] =>
    if b0 < 0x80 then validUtf8 [b1]
    else 0xC2 ≤ b0 && b0 ≤ 0xDF && cont b1
  | [b0, b1, b2] =>
    if b0 < 0x80 then validUtf8 [b1, b2]
    else if 0xC2 ≤ b0 && b0 ≤ 0xDF then cont b1 && validUtf8 [b2]
    else if b0 == 0xE0 then 0xA0 ≤ b1 && b1 ≤ 0xBF && cont b2
    else if (0xE1 ≤ b0 && b0 ≤ 0xEC) || b0 == 0xEE || b0 == 0xEF then cont b1 && cont b2
    else if b0 == 0xED then 0x80 ≤ b1 && b1 ≤ 0x9F && cont b2
    else false
  | b0 :: b1 :: b2 :: b3 :: rest =>
    if b0 < 0x80 then validUtf8 (b1 :: b2 :: b3 :: rest)
    else if 0xC2 ≤ b0 && b0 ≤ 0xDF then cont b1 && validUtf8 (b2 :: b3 :: rest)
    else if b0 == 0xE0 then 0xA0 ≤ b1 && b1 ≤ 0xBF && cont b2 && validUtf8 (b3 :: rest)
    else if (0xE1 ≤ b0 && b0 ≤ 0xEC) || b0 == 0xEE || b0 == 0xEF then
      cont b1 && cont b2 && validUtf8 (b3 :: rest)
    else if b0 == 0xED then 0x80 ≤ b1 && b1 ≤ 0x9F && cont b2 && validUtf8 (b3 :: rest)
    else if b0 == 0xF0 then 0x90 ≤ b1 && b1 ≤ 0xBF && cont b2 && cont b3 && validUtf8 rest
    else if 0xF1 ≤ b0 && b0 ≤ 0xF3 then cont b1 && cont b2 && cont b3 && validUtf8 rest
    else if b0 == 0xF4 then 0x80 ≤ b1 && b1 ≤ 0x8F && cont b2 && cont b3 && validUtf8 rest
    else false

/-- `map_res(p, str::from_utf8)` -/
def utf8 (p : P Bytes) : P Bytes := mapRes p fun s => if validUtf8 s then some s else none

/-! ### record types (types.rs), field for field -/

structure PublicSymbol where
  address : Nat
  name : Bytes
  parameterSize : Nat
  deriving DecidableEq, Repr

structure SourceLine where
  address : Nat
  size : Nat
  file : Nat
  line : Nat
  deriving DecidableEq, Repr

structure Inlinee where
  depth : Nat
  address : Nat
  size : Nat
  callFile : Nat
  callLine : Nat
  originId : Nat
  deriving DecidableEq, Repr

structure Function where
  address : Nat
  size : Nat
  parameterSize : Nat
  name : Bytes
  /-- `RangeMap<u64, SourceLine>` as its element vector -/
  lines : List (RangeMap.Rng × SourceLine)
  inlinees : List Inlinee
  deriving DecidableEq, Repr

structure CfiRules where
  address : Nat
  rules : Bytes
  deriving DecidableEq, Repr

structure StackInfoCfi where
  init : CfiRules
  size : Nat
  addRules : List CfiRules
  deriving DecidableEq, Repr

inductive WinStackThing where
  | programString (s : Bytes)
  | allocatesBasePointer (b : Bool)
  deriving DecidableEq, Repr

structure StackInfoWin where
  address : Nat
  size : Nat
  prologueSize : Nat
  epilogueSize : Nat
  parameterSize : Nat
  savedRegisterSize : Nat
  localSize : Nat
  maxStackSize : Nat
  thing : WinStackThing
  deriving DecidableEq, Repr

inductive WinFrameType where
  | fpo (i : StackInfoWin)
  | frameData (i : StackInfoWin)
  | unhandled
  deriving DecidableEq, Repr

/-- `enum Line` (parser.rs:27); FUNC's sub-line vectors live in the parser state. -/
inductive Line where
  | module (os cpu id file : Bytes)
  | infoUrl (url : Bytes)
  | infoUnknown
  | file (id : Nat) (name : Bytes)
  | inlineOrigin (id : Nat) (name : Bytes)
  | public_ (p : PublicSymbol)
  | function (f : Function)
  | stackWin (w : WinFrameType)
  | stackCfi (c : StackInfoCfi)
  deriving Repr

/-! ### the record parsers -/

/-- `terminated(tag(KEYWORD), space1)` — the part of every record parser OUTSIDE `cut`. -/
def keyword (s : String) : P Unit := (terminated (tag (kw s)) space1)

/-- `module_line` (parser.rs:130) -/
def moduleLine : P Line :=
  (keyword "MODULE").bind fun _ =>
  cut ((terminated (utf8 nonSpace) space1).bind fun os =>
       (terminated (utf8 nonSpace) space1).bind fun cpu =>
       (terminated (utf8 hexDigit1) space1).bind fun id =>
       (terminated (utf8 notMyEol) myEol).bind fun file =>
       P.pure (Line.module os cpu id file))

/-- `info_url` (parser.rs:150) -/
def infoUrl : P Line :=
  (keyword "INFO URL").bind fun _ =>
  cut ((terminated (utf8 notMyEol) myEol).bind fun url => P.pure (Line.infoUrl url))

/-- `info_line` (parser.rs:157): no UTF-8 requirement. -/
def infoLine : P Line :=
  (keyword "INFO").bind fun _ =>
  cut ((terminated notMyEol myEol).bind fun _ => P.pure Line.infoUnknown)

/-- `file_line` (parser.rs:163) -/
def fileLine : P Line :=
  (keyword "FILE").bind fun _ =>
  cut ((terminated decimalU32 space1).bind fun id =>
       (terminated (utf8 notMyEol) myEol).bind fun name =>
       P.pure (Line.file id name))

/-- `inline_origin_line` (parser.rs:173) -/
def inlineOriginLine : P (Nat × Bytes) :=
  (keyword "INLINE_ORIGIN").bind fun _ =>
  cut ((terminated decimalU32 space1).bind fun id =>
       (terminated (utf8 notMyEol) myEol).bind fun name =>
       P.pure (id, name))

/-- `public_line` (parser.rs:183) -/
def publicLine : P Line :=
  (keyword "PUBLIC").bind fun _ =>
  cut ((opt (terminated (tag (kw "m")) space1)).bind fun _ =>
       (terminated (hexStr 16) space1).bind fun address =>
       (terminated (hexStr 8) space1).bind fun psize =>
       (terminated (utf8 notMyEol) myEol).bind fun name =>
       P.pure (Line.public_ ⟨address, name, psize⟩))

/-- `func_line_data` (parser.rs:202): no `cut`. -/
def funcLineData : P SourceLine :=
  (terminated (hexStr 16) space1).bind fun address =>
  (terminated (hexStr 8) space1).bind fun size =>
  (terminated decimalU32 space1).bind fun line =>
  (terminated decimalU32 myEol).bind fun file =>
  P.pure ⟨address, size, file, line⟩

/-- `func_line` (parser.rs:221) -/
def funcLine : P Line :=
  (keyword "FUNC").bind fun _ =>
  cut ((opt (terminated (tag (kw "m")) space1)).bind fun _ =>
       (terminated (hexStr 16) space1).bind fun address =>
       (terminated (hexStr 8) space1).bind fun size =>
       (terminated (hexStr 8) space1).bind fun psize =>
       (terminated (utf8 notMyEol) myEol).bind fun name =>
       P.pure (Line.function ⟨address, size, psize, name, [], []⟩))

/-- `inline_address_range` (parser.rs:244) -/
def inlineAddressRange : P (Nat × Nat) :=
  (terminated (hexStr 16) space1).bind fun a => (hexStr 8).bind fun s => P.pure (a, s)

/-- the `loop` of `separated_list1(space1, inline_address_range)`; `acc` is reversed.
    Every round consumes at least one byte (`space1`), so `fuel = input length` suffices; the
    out-of-fuel answer is the one nom's own "infinite loop check" gives. -/
def sepListLoop : Nat → List (Nat × Nat) → P (List (Nat × Nat))
  | 0, _ => fun _ => .error
  | fuel + 1, acc => fun i =>
    match space1 i with
    | .error => .ok i acc.reverse
    | .failure => .failure
    | .ok i1 _ =>
      match inlineAddressRange i1 with
      | .error => .ok i acc.reverse
      | .failure => .failure
      | .ok i2 o => sepListLoop fuel (o :: acc) i2

def separatedList1 : P (List (Nat × Nat)) := fun i =>
  match inlineAddressRange i with
  | .error => .error
  | .failure => .failure
  | .ok i1 o => sepListLoop (i1.length + 1) [o] i1

/-- `inline_line` (parser.rs:251) -/
def inlineLine : P (List Inlinee) :=
  (keyword "INLINE").bind fun _ =>
  (cut ((terminated decimalU32 space1).bind fun depth =>
        (terminated decimalU32 space1).bind fun callLine =>
        (terminated decimalU32 space1).bind fun callFile =>
        (terminated decimalU32 space1).bind fun origin =>
        P.pure (depth, callLine, callFile, origin))).bind fun (depth, callLine, callFile, origin) =>
  (cut (terminated separatedList1 myEol)).bind fun ranges =>
  P.pure (ranges.map fun (a, s) => ⟨depth, a, s, callFile, callLine, origin⟩)

/-- the post-processing of `stack_win_line` (parser.rs:310-353) -/
def mkWin (ty : UInt8) (address codeSize pro epi par sav loc mx : Nat) (hasProgram : Bool)
    (rest : Bytes) : WinFrameType :=
  let really := ty == 0x34           -- b'4'
  if really != hasProgram then .unhandled else
  let thing := if really then WinStackThing.programString rest
               else WinStackThing.allocatesBasePointer (rest == [0x31])
  let info : StackInfoWin := ⟨address, codeSize, pro, epi, par, sav, loc, mx, thing⟩
  if ty == 0x34 then .frameData info
  else if ty == 0x30 then .fpo info
  else .unhandled

/-- `stack_win_line` (parser.rs:279) -/
def stackWinLine : P Line :=
  (keyword "STACK WIN").bind fun _ =>
  cut ((terminated (single isHexDigit) space1).bind fun ty =>
       (terminated (hexStr 16) space1).bind fun address =>
       (terminated (hexStr 8) space1).bind fun codeSize =>
       (terminated (hexStr 8) space1).bind fun pro =>
       (terminated (hexStr 8) space1).bind fun epi =>
       (terminated (hexStr 8) space1).bind fun par =>
       (terminated (hexStr 8) space1).bind fun sav =>
       (terminated (hexStr 8) space1).bind fun loc =>
       (terminated (hexStr 8) space1).bind fun mx =>
       (terminated (single isDigit) space1).bind fun hp =>
       (terminated (utf8 notMyEol) myEol).bind fun rest =>
       P.pure (Line.stackWin (mkWin ty address codeSize pro epi par sav loc mx (hp == 0x31) rest)))

/-- `stack_cfi` (parser.rs:357) -/
def stackCfi : P CfiRules :=
  (keyword "STACK CFI").bind fun _ =>
  cut ((terminated (hexStr 16) space1).bind fun address =>
       (terminated (utf8 notMyEol) myEol).bind fun rules =>
       P.pure ⟨address, rules⟩)

/-- `stack_cfi_init` (parser.rs:373) -/
def stackCfiInit : P Line :=
  (keyword "STACK CFI INIT").bind fun _ =>
  cut ((terminated (hexStr 16) space1).bind fun address =>
       (terminated (hexStr 8) space1).bind fun size =>
       (terminated (utf8 notMyEol) myEol).bind fun rules =>
       P.pure (Line.stackCfi ⟨⟨address, rules⟩, size, []⟩))

/-- `line` (parser.rs:394): the top-level `alt`, in the code's order. -/
def line : P Line :=
  orElse infoUrl <| orElse infoLine <| orElse fileLine <|
  orElse (inlineOriginLine.bind fun (i, f) => P.pure (Line.inlineOrigin i f)) <|
  orElse publicLine <| orElse funcLine <| orElse stackWinLine <| orElse stackCfiInit moduleLine

end MdModel.Sym
