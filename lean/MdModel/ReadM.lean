/-
  MdModel.ReadM — the small "reader monad" and the checked primitives every byte-level model of
  `minidump/src/minidump.rs` is written with (used by `MdModel.Dump`; C01, C02).

  * `Res α`  : `ok a | err e | panic site` — the result of a Rust function returning
               `Result<α, minidump::Error>` that may also panic. A panic is an OUTCOME, never
               partiality (DESIGN.md §3).
  * `M α`    : `Res α` plus the *allocation log* (writer): every `Vec::with_capacity(n)` /
               `HashMap::with_capacity(n)` / `to_owned()` of the modelled code appends one `Alloc`,
               also on the paths that fail afterwards (the allocation has happened by then).
  * checked primitives: `usizeAdd`, `usizeSub` (the Rust operators `+`, `-`, `+=` on `usize`, which
    panic on overflow in a build with overflow checks), `sliceRange` (`&b[lo..hi]`, panics when
    out of range), and their non-panicking counterparts `checked_add`/`checked_mul`/`get(lo..hi)`.
  * scroll's `gread_with`/`pread_with` for scalars and for `#[derive(Pread)]` structs
    (`readScalar`, `readFields`): they return `None`, never panic (scroll tests
    `start > len` and `size > src.len()` before it slices; that library code is trusted).

  `usize` is 64 bits wide (the harness and the shipped binaries are 64-bit).
  Core-only imports.
-/
import MdModel.Prelude
import MdModel.Gen.Layouts
namespace MdModel.Dump
open MdModel

/-- The bytes of a file / of a stream. `Array UInt8`: O(1) indexing in the compiled model,
    `Array` lemmas in the proofs. -/
abbrev Bytes := Array UInt8

inductive Endian where
  | little
  | big
  deriving DecidableEq, Repr, Inhabited

/-- `minidump::Error`, the variants the modelled readers can return. -/
inductive Err where
  | MissingHeader
  | HeaderMismatch
  | VersionMismatch
  | MissingDirectory
  | StreamReadFailure
  | StreamSizeMismatch
  | StreamNotFound
  | ModuleReadFailure
  | MemoryReadFailure
  | DataError
  | CodeViewReadFailure
  deriving DecidableEq, Repr, Inhabited

/-- `Error::name()` -/
def Err.name : Err → String
  | .MissingHeader => "MissingHeader"
  | .HeaderMismatch => "HeaderMismatch"
  | .VersionMismatch => "VersionMismatch"
  | .MissingDirectory => "MissingDirectory"
  | .StreamReadFailure => "StreamReadFailure"
  | .StreamSizeMismatch => "StreamSizeMismatch"
  | .StreamNotFound => "StreamNotFound"
  | .ModuleReadFailure => "ModuleReadFailure"
  | .MemoryReadFailure => "MemoryReadFailure"
  | .DataError => "DataError"
  | .CodeViewReadFailure => "CodeViewReadFailure"

/-- Outcome of a modelled Rust call: value, `Err(e)`, or a panic at the named site. -/
inductive Res (α : Type) where
  | ok (a : α)
  | err (e : Err)
  | panic (site : String)
  deriving Repr

/-- One heap allocation sized by the input: `n` elements of `sz` bytes.
    `exact = true`: a `with_capacity(n)`/`to_owned()` whose request is exactly `n * sz` bytes
    (the `read` engine looks for that very request among the real allocator's requests);
    `exact = false`: a growth-by-push / hash-table / decoder buffer, logged with an upper estimate. -/
structure Alloc where
  n : Nat
  sz : Nat
  exact : Bool
  deriving Repr, DecidableEq

def Alloc.bytes (a : Alloc) : Nat := a.n * a.sz

/-- Result plus allocation log. -/
structure M (α : Type) where
  res : Res α
  allocs : List Alloc

namespace M

@[inline] def pure' {α} (a : α) : M α := ⟨.ok a, []⟩
@[inline] def bind' {α β} (x : M α) (f : α → M β) : M β :=
  match x.res with
  | .ok a => let y := f a; ⟨y.res, x.allocs ++ y.allocs⟩
  | .err e => ⟨.err e, x.allocs⟩
  | .panic s => ⟨.panic s, x.allocs⟩

instance : Monad M where
  pure := pure'
  bind := bind'

/-- `return Err(e)` / `?` on an error -/
@[inline] def fail {α} (e : Err) : M α := ⟨.err e, []⟩
/-- a Rust panic -/
@[inline] def panic {α} (site : String) : M α := ⟨.panic site, []⟩
/-- record an allocation -/
@[inline] def alloc (n sz : Nat) (exact : Bool := true) : M Unit := ⟨.ok (), [⟨n, sz, exact⟩]⟩

/-- Turn `Err(e)` into a value (what a caller does with `.ok()`, `if let Ok(..)`, or what the
    harness does when it asks for one stream after another); a panic stays a panic. -/
@[inline] def catch' {α} (x : M α) : M (Except Err α) :=
  match x.res with
  | .ok a => ⟨.ok (.ok a), x.allocs⟩
  | .err e => ⟨.ok (.error e), x.allocs⟩
  | .panic s => ⟨.panic s, x.allocs⟩

/-- lift an `Option` with the error used by `.ok_or(e)?` -/
@[inline] def ofOption {α} (e : Err) : Option α → M α
  | some a => pure a
  | none => fail e

/-- lift a `Result` -/
@[inline] def ofExcept {α} : Except Err α → M α
  | .ok a => pure a
  | .error e => fail e

/-- `for i in 0..n { state = step(state, i)? }`: a counted loop that stops at the first error or
    panic. Tail recursive (the list-shaped readers of `MdModel.Dump` recurse through `bind`, which
    is fine for the few thousand entries a stream can hold but not for loops whose count is only
    bounded by the file length); the log is accumulated in reverse. `n` may be huge (an unchecked
    u32 from the file): nothing of size `n` is materialised. -/
def loopGo {σ : Type} (step : σ → Nat → M σ) : Nat → Nat → σ → List Alloc → M σ
  | 0, _, s, rev => ⟨.ok s, rev.reverse⟩
  | todo + 1, i, s, rev =>
    let r := step s i
    match r.res with
    | .ok s' => loopGo step todo (i + 1) s' (r.allocs.reverse ++ rev)
    | .err e => ⟨.err e, (r.allocs.reverse ++ rev).reverse⟩
    | .panic p => ⟨.panic p, (r.allocs.reverse ++ rev).reverse⟩

def loop {σ : Type} (n : Nat) (init : σ) (step : σ → Nat → M σ) : M σ := loopGo step n 0 init []

end M

/-! ## `usize` / `u64` arithmetic -/

def USIZE_MAX : Nat := U64MAX

/-- Rust `a + b` / `a += b` on `usize` (overflow checks on): panics on overflow. -/
def usizeAdd (site : String) (a b : Nat) : M Nat :=
  if a + b ≤ USIZE_MAX then pure (a + b) else M.panic site

/-- Rust `a - b` on `usize`: panics when `b > a`. -/
def usizeSub (site : String) (a b : Nat) : M Nat :=
  if b ≤ a then pure (a - b) else M.panic site

/-- `usize::checked_add` / `u64::checked_add` -/
def checkedAdd (a b : Nat) : Option Nat := if a + b ≤ U64MAX then some (a + b) else none
/-- `usize::checked_mul` -/
def checkedMul (a b : Nat) : Option Nat := if a * b ≤ U64MAX then some (a * b) else none
/-- `usize::checked_sub` -/
def checkedSub (a b : Nat) : Option Nat := if b ≤ a then some (a - b) else none

/-! ## slices -/

/-- `bytes.get(lo..hi)`: `None` unless `lo ≤ hi ≤ len`. -/
def getRange (b : Bytes) (lo hi : Nat) : Option Bytes :=
  if lo ≤ hi ∧ hi ≤ b.size then some (b.extract lo hi) else none

/-- `&bytes[lo..hi]`: panics unless `lo ≤ hi ≤ len`. -/
def sliceRange (site : String) (b : Bytes) (lo hi : Nat) : M Bytes :=
  if lo ≤ hi ∧ hi ≤ b.size then pure (b.extract lo hi) else M.panic site

/-! ## integers -/

/-- little-endian value of a byte list -/
def leNat : List UInt8 → Nat
  | [] => 0
  | x :: xs => x.toNat + 256 * leNat xs

/-- value of `bs` in the given byte order -/
def decodeNat (e : Endian) (bs : List UInt8) : Nat :=
  match e with
  | .little => leNat bs
  | .big => leNat bs.reverse

/-- scroll `gread_with::<uN>(&mut off, endian)` on `[u8]` (`w = N/8`):
    `off > len` ⇒ `BadOffset`; `w > len - off` ⇒ `TooBig`; both are `None` here. -/
def readScalar (b : Bytes) (off w : Nat) (e : Endian) : Option Nat :=
  if off > b.size then none
  else if w > b.size - off then none
  else some (decodeNat e (b.extract off (off + w)).toList)

@[inline] def readU32 (b : Bytes) (off : Nat) (e : Endian) : Option Nat := readScalar b off 4 e
@[inline] def readU64 (b : Bytes) (off : Nat) (e : Endian) : Option Nat := readScalar b off 8 e

open MdModel.Gen.Layouts (Layout)

/-- wire size of a layout = `SizeWith::size_with` of the derive -/
def Layout.size (l : Layout) : Nat := (l.map (·.2)).sum

/-- `#[derive(Pread)]`: the fields are read one after the other with `gread_with`; the first
    failing read fails the struct. Returns the scalar values in layout order. -/
def readFields : Layout → Bytes → Nat → Endian → Option (List Nat)
  | [], _, _, _ => some []
  | (_, w) :: rest, b, off, e =>
    match readScalar b off w e with
    | none => none
    | some v =>
      match readFields rest b (off + w) e with
      | none => none
      | some vs => some (v :: vs)

/-- `count` consecutive structs of layout `l` starting at `off` (the `for _ in 0..count` loops of
    `read_stream_list`, `read_ex_stream_list`, `MinidumpMemory64List::read`). -/
def readEntries (l : Layout) (b : Bytes) (e : Endian) (off count : Nat) : Option (List (List Nat)) :=
  (List.range count).mapM fun i => readFields l b (off + i * Layout.size l) e

/-- field access by position (`ofVals` functions); total, the position/name agreement with the
    generated layout is a `decide`d theorem next to each view (`MdProofs.Lemmas.BytesLayout`). -/
@[inline] def fld (vs : List Nat) (i : Nat) : Nat := vs.getD i 0

end MdModel.Dump
