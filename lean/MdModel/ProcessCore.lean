/-
  MdModel.ProcessCore — the checked-arithmetic vocabulary shared by the C03 models
  (`MdModel.Process`, `MdModel.OpAnalysis`, `MdModel.ArgRecovery`): the `Outcome` monad (a Rust
  operation that can panic has an explicit panic outcome), checked / wrapping / saturating `u64`
  and `u32` operations. Kept in the namespace `MdModel.Process` (the definitions were moved out
  of `MdModel/Process.lean` unchanged). Core-only imports.
-/
import MdModel.Prelude
namespace MdModel.Process
open MdModel

/-! ## checked arithmetic -/

namespace Outcome
def bind {α β : Type} (x : Outcome α) (f : α → Outcome β) : Outcome β :=
  match x with
  | .ok a => f a
  | .panic s => .panic s
def isOk {α : Type} : Outcome α → Bool
  | .ok _ => true
  | .panic _ => false
end Outcome

instance {α : Type} [DecidableEq α] : DecidableEq (Outcome α) := fun a b =>
  match a, b with
  | .ok x, .ok y => if h : x = y then isTrue (by rw [h]) else isFalse (by intro e; cases e; exact h rfl)
  | .panic s, .panic t => if h : s = t then isTrue (by rw [h]) else isFalse (by intro e; cases e; exact h rfl)
  | .ok _, .panic _ => isFalse (by intro e; cases e)
  | .panic _, .ok _ => isFalse (by intro e; cases e)

instance : Monad Outcome where
  pure := .ok
  bind := Outcome.bind

/-- `a + b` on `u64` in a build with overflow checks -/
def cadd64 (site : String) (a b : Nat) : Outcome Nat :=
  if a + b ≤ U64MAX then .ok (a + b) else .panic site
/-- `a - b` on an unsigned type -/
def csub (site : String) (a b : Nat) : Outcome Nat :=
  if b ≤ a then .ok (a - b) else .panic site
/-- `l[i]` -/
def cidx {α : Type} (site : String) (l : List α) (i : Nat) : Outcome α :=
  match l[i]? with
  | some x => .ok x
  | none => .panic site
/-- `u64::checked_add` -/
def checkedAdd64 (a b : Nat) : Option Nat := if a + b ≤ U64MAX then some (a + b) else none
/-- `u32::checked_add` -/
def checkedAdd32 (a b : Nat) : Option Nat := if a + b ≤ U32MAX then some (a + b) else none
/-- 2^64 -/
def TWO64 : Nat := 18446744073709551616
/-- `u64::wrapping_sub` -/
def wrappingSub64 (a b : Nat) : Nat := if b ≤ a then a - b else a + TWO64 - b
/-- `u64::saturating_add` -/
def saturatingAdd64 (a b : Nat) : Nat := if a + b ≤ U64MAX then a + b else U64MAX

/-- `mapM` for `Outcome` as plain recursion -/
def mapO {α β : Type} (f : α → Outcome β) : List α → Outcome (List β)
  | [] => .ok []
  | x :: xs =>
    match f x with
    | .panic s => .panic s
    | .ok y =>
      match mapO f xs with
      | .panic s => .panic s
      | .ok ys => .ok (y :: ys)

end MdModel.Process
