-- Root of the executable models (core-only imports).
import MdModel.Prelude
import MdModel.RangeMap
