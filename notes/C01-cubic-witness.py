import struct, sys
def build(n):
    third = n // 3
    L = third // 12          # links
    S = third // 4           # strings per list
    m = third                # string bytes
    parts = []
    off = 32
    def add(b):
        nonlocal off
        at = off; parts.append(b); off += len(b); return at
    # big string
    s_at = add(struct.pack('<I', m) + b'a' * m + b'\0')
    # string list: count + S rvas all -> s_at
    sl = struct.pack('<I', S) + struct.pack('<I', s_at) * S
    sl_at = add(sl)
    # module crashpad info record
    rec = struct.pack('<IIIIIII', 1, len(sl), sl_at, 0, 0, 0, 0)
    rec_at = add(rec)
    # links
    ml = struct.pack('<I', L) + struct.pack('<III', 0, len(rec), rec_at) * L
    ml_at = add(ml)
    # crashpad info stream
    ci = struct.pack('<I', 1) + b'\0' * 32 + struct.pack('<IIII', 0, 0, len(ml), ml_at)
    ci_at = add(ci)
    d_at = off
    d = struct.pack('<III', 0x43500001, len(ci), ci_at)
    hdr = struct.pack('<IIIIIIQ', 0x504d444d, 42899, 1, d_at, 0, 0, 0)
    b = hdr + b''.join(parts) + d
    return b, L * S * m
n = int(sys.argv[1])
b, pred = build(n)
sys.stderr.write(f"len={len(b)} predicted string bytes={pred}\n")
print("read " + b.hex() + " cat=directed-crashpad-cubic")
