#!/usr/bin/env python3
"""notes/C01-mutate-r3.py <id> <repo-copy> — apply one seeded mutation of round 3 (the readers
modelled in MdModel.DumpCtx / DumpText / DumpMisc) to a scratch copy of the repository.
Usage:  rsync -a --exclude target /repo/ /tmp/w/b3/c01/repo-mut-<id>/ ; python3 notes/C01-mutate-r3.py <id> /tmp/w/b3/c01/repo-mut-<id>
        VERIF_REPO=/tmp/w/b3/c01/repo-mut-<id> ./check C01 quick"""
import sys

M = {
    # split_once hands out the value from one byte too far (separator as the last byte of a line)
    "r3a": ("minidump/src/strings.rs",
            "                Self::from_bytes(&self[..idx]),\n                Self::from_bytes(&self[idx + 1..]),\n            )\n        })\n    }\n    pub fn rsplit_once",
            "                Self::from_bytes(&self[..idx]),\n                Self::from_bytes(&self[idx + 2..]),\n            )\n        })\n    }\n    pub fn rsplit_once"),
    # read_cstring_utf8 indexes instead of reading through scroll (a string table without terminator)
    "r3b": ("minidump/src/minidump.rs",
            "        let byte: u8 = bytes.gread(offset).ok()?;\n        if byte == 0 {",
            "        let byte: u8 = bytes[*offset];\n        *offset += 1;\n        if byte == 0 {"),
    # the stack dump of MinidumpThread::print takes chunk size 0 for an unknown CPU
    "r3c": ("minidump/src/minidump.rs",
            "let chunk_size: usize = pointer_width.size_in_bytes().unwrap_or(8).into();",
            "let chunk_size: usize = pointer_width.size_in_bytes().unwrap_or(0).into();"),
    # last_error adds the TEB offset unchecked
    "r3d": ("minidump/src/minidump.rs",
            "        let addr = teb.checked_add(offset)?;",
            "        let addr = teb + offset;"),
    # the macOS crash-info reader sizes its vector from record_count
    "r3e": ("minidump/src/minidump.rs",
            "        let mut infos = Vec::new();\n\n        // We use `take` here",
            "        let mut infos = Vec::with_capacity(header.record_count as usize);\n\n        // We use `take` here"),
    # MinidumpContext::print for ARM64 slices one register too many groups (iregs has 31 elements)
    "r3f": ("minidump/src/context.rs",
            "                for (i, reg) in raw.iregs[..29].iter().enumerate() {\n                    writeln!(f, \"  x{i:<2}                  = {reg:#x}\")?;\n                }\n                writeln!(f, \"  x29 (fp)             = {:#x}\", raw.iregs[29])?;\n                writeln!(f, \"  x30 (lr)             = {:#x}\", raw.iregs[30])?;\n                writeln!(f, \"  sp                   = {:#x}\", raw.sp)?;\n                writeln!(f, \"  pc                   = {:#x}\", raw.pc)?;\n                writeln!(f, \"  cpsr                 = {:#x}\", raw.cpsr)?;\n                writeln!(f, \"  fpsr                 = {:#x}\", raw.fpsr)?;\n                writeln!(f, \"  fpcr                 = {:#x}\", raw.fpcr)?;\n                for (i, reg) in raw.float_regs.iter().enumerate() {\n                    writeln!(f, \"  d{i:<2} = {reg:#x}\")?;\n                }\n                for (i, reg) in raw.bcr",
            "                let n_gpr = (raw.context_flags & 0x3f) as usize + 29;\n                for (i, reg) in raw.iregs[..n_gpr].iter().enumerate() {\n                    writeln!(f, \"  x{i:<2}                  = {reg:#x}\")?;\n                }\n                writeln!(f, \"  x29 (fp)             = {:#x}\", raw.iregs[29])?;\n                writeln!(f, \"  x30 (lr)             = {:#x}\", raw.iregs[30])?;\n                writeln!(f, \"  sp                   = {:#x}\", raw.sp)?;\n                writeln!(f, \"  pc                   = {:#x}\", raw.pc)?;\n                writeln!(f, \"  cpsr                 = {:#x}\", raw.cpsr)?;\n                writeln!(f, \"  fpsr                 = {:#x}\", raw.fpsr)?;\n                writeln!(f, \"  fpcr                 = {:#x}\", raw.fpcr)?;\n                for (i, reg) in raw.float_regs.iter().enumerate() {\n                    writeln!(f, \"  d{i:<2} = {reg:#x}\")?;\n                }\n                for (i, reg) in raw.bcr"),
    # behaviour only: the x86 branch no longer checks the CPU bits of context_flags
    "r3g": ("minidump/src/context.rs",
            "                let flags = ContextFlagsCpu::from_flags(ctx.context_flags);\n                if flags == ContextFlagsCpu::CONTEXT_X86 {",
            "                let flags = ContextFlagsCpu::from_flags(ctx.context_flags);\n                if flags == ContextFlagsCpu::CONTEXT_X86 || ctx.context_flags != 0 {"),
    # utf16_to_string looks for the terminator in 129 units of a 128-unit array's neighbourhood
    "r3h": ("minidump/src/minidump.rs",
            "    let len = data.iter().take_while(|c| **c != 0).count();\n    let s16 = &data[..len];",
            "    let len = data.iter().take_while(|c| **c != 0).count() + 1;\n    let s16 = &data[..len];"),
}

def main():
    mid, repo = sys.argv[1], sys.argv[2]
    path, old, new = M[mid]
    p = f"{repo}/{path}"
    s = open(p, encoding="utf-8").read()
    if s.count(old) != 1:
        sys.exit(f"{mid}: pattern found {s.count(old)} times in {path}")
    open(p, "w", encoding="utf-8").write(s.replace(old, new))
    print(f"{mid}: applied to {p}")

main()
