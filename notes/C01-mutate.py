#!/usr/bin/env python3
"""apply one named mutation to /tmp/w/C01/repo-mut (after restoring it)"""
import subprocess, sys
R = "/tmp/w/C01/repo-mut"
F = R + "/minidump/src/minidump.rs"

def rep(old, new, count=1):
    s = open(F).read()
    assert s.count(old) >= 1, f"pattern not found: {old[:60]!r}"
    s = s.replace(old, new, count)
    open(F, "w").write(s)

def revert_commit(sha):
    p = subprocess.run(f"git -C {R} show {sha} -- minidump | git -C {R} apply -R", shell=True)
    assert p.returncode == 0

M = {
 # drop ensure_count_in_bound in read_stream_list (the subtraction then underflows)
 "m1a": lambda: rep("""    let (count, counted_size) = ensure_count_in_bound(
        bytes,
        u as usize,
        <T>::size_with(&endian),
        mem::size_of::<u32>(),
    )?;

    match bytes.len() - counted_size {""", """    let (count, counted_size) = (u as usize, (u as usize) * <T>::size_with(&endian) + mem::size_of::<u32>());

    match bytes.len() - counted_size {"""),
 # ... and make the remainder computation forgiving, so only the allocation is wrong
 "m1b": lambda: rep("""    let (count, counted_size) = ensure_count_in_bound(
        bytes,
        u as usize,
        <T>::size_with(&endian),
        mem::size_of::<u32>(),
    )?;

    match bytes.len() - counted_size {""", """    let (count, counted_size) = (u as usize, (u as usize) * <T>::size_with(&endian) + mem::size_of::<u32>());

    match bytes.len().saturating_sub(counted_size) {"""),
 # checked_add -> + in location_slice
 "m2": lambda: rep("""    start
        .checked_add(loc.data_size as usize)
        .and_then(|end| bytes.get(start..end))""", """    Some(start + loc.data_size as usize)
        .and_then(|end| bytes.get(start..end))"""),
 # remove the size % 2 test in read_string_utf16
 "m3": lambda: rep("if size % 2 != 0 || (*offset + size) > bytes.len() {", "if (*offset + size) > bytes.len() {"),
 "f1": lambda: revert_commit("58612c4"),
 "f2": lambda: revert_commit("23ed33f"),
 "f3": lambda: revert_commit("1a72c72"),
 "f4": lambda: revert_commit("682ae8f"),
 "f5": lambda: revert_commit("a1df6b3"),
 "f6": lambda: revert_commit("b230e5c"),
 # the string list forgets to charge its copies (dictionary and annotation objects still do)
 "m14": lambda: rep("""        charge_string_budget(budget, string.len())?;

        strings.push(string.to_owned());""", """        strings.push(string.to_owned());"""),
 # remove the bound test in read_string_utf16
 "m8": lambda: rep("if size % 2 != 0 || (*offset + size) > bytes.len() {", "if size % 2 != 0 {"),
 # checked_add -> + in the memory64 running rva
 "m9": lambda: rep("""            let end = rva
                .checked_add(raw.data_size)
                .ok_or(Error::StreamReadFailure)?;""", """            let end = rva + raw.data_size;"""),
 # checked_sub -> - for the ex-list header padding
 "m10": lambda: rep("""    let header_padding = match (size_of_header as usize).checked_sub(*offset) {
        Some(s) => s,
        None => return Err(Error::StreamReadFailure),
    };""", """    let header_padding = (size_of_header as usize) - *offset;"""),
 # off-by-one in the padding rule: behaviour change that is not a C01 violation (tie must notice)
 "m11": lambda: rep("""        4 => {
            // 4 bytes of padding.
            *offset += 4;
        }""", """        4 | 8 => {
            // 4 bytes of padding.
            *offset += 4;
        }"""),
 # MinidumpMemory::read forgets the rva == 0 test (behaviour change only)
 "m12": lambda: rep("if desc.memory.rva == 0 || desc.memory.data_size == 0 {", "if desc.memory.data_size == 0 {"),
 # module list sizes its second vector from the raw count field instead of the parsed vector
 "m13": lambda: rep("""        let raw_modules: Vec<md::MINIDUMP_MODULE> = read_stream_list(&mut offset, bytes, endian)?;
        // read auxiliary data for each module
        let mut modules = Vec::with_capacity(raw_modules.len());""", """        let raw_modules: Vec<md::MINIDUMP_MODULE> = read_stream_list(&mut offset, bytes, endian)?;
        // read auxiliary data for each module
        let claimed: u32 = bytes.pread_with(0, endian).unwrap_or(0);
        let mut modules = Vec::with_capacity((claimed as usize).max(raw_modules.len()) * 1024);"""),
}

name = sys.argv[1]
subprocess.run(f"git -C {R} checkout -- minidump minidump-common", shell=True, check=True)
if name != "none":
    M[name]()
print(subprocess.run(f"git -C {R} diff --stat -- minidump minidump-common", shell=True, capture_output=True, text=True).stdout)
