#!/usr/bin/env python3
"""Round-4 seeded mutations for C01 (newly modelled code). usage: C01-mutate-r4.py <id> <repo copy>"""
import sys

MUT = {
    # XstateFeatureIter rewritten with trailing_zeros: after feature 63 it evaluates `u64 >> 64`
    "r4a": ("minidump-common/src/format.rs",
            """        while self.idx < self.info.features.len() {
            let cur_idx = self.idx;
            self.idx += 1;
            if (self.info.enabled_features & (1 << cur_idx)) != 0 {
                return Some((cur_idx, self.info.features[cur_idx]));
            }
        }
        None""",
            """        let remaining = self.info.enabled_features >> self.idx;
        if remaining == 0 {
            return None;
        }
        let cur_idx = self.idx + remaining.trailing_zeros() as usize;
        self.idx = cur_idx + 1;
        Some((cur_idx, self.info.features[cur_idx]))"""),
    # string_from_bytes_nul: strict UTF-8 instead of lossy
    "r4b": ("minidump/src/minidump.rs",
            "    bytes.split(|&b| b == 0).next().map(String::from_utf8_lossy)",
            "    bytes.split(|&b| b == 0).next().map(|b| Cow::Borrowed(std::str::from_utf8(b).unwrap()))"),
    # MinidumpMemoryInfoList::memory_info_at_address: off-by-one index
    "r4c": ("minidump/src/minidump.rs",
            """    pub fn memory_info_at_address(&self, address: u64) -> Option<&MinidumpMemoryInfo<'mdmp>> {
        self.regions_by_addr
            .get(address)
            .map(|&index| &self.regions[index])""",
            """    pub fn memory_info_at_address(&self, address: u64) -> Option<&MinidumpMemoryInfo<'mdmp>> {
        self.regions_by_addr
            .get(address)
            .map(|&index| &self.regions[index + 1])"""),
    # MinidumpLinuxMapInfo::memory_range: the final address taken as exclusive, unchecked
    "r4d": ("minidump/src/minidump.rs",
            "        Some(Range::new(self.map.address.0, self.map.address.1))",
            "        Some(Range::new(self.map.address.0, self.map.address.1 - 1))"),
    # os_parts: the version is the third word (behaviour only)
    "r4e": ("minidump/src/minidump.rs",
            "        let version = parts.nth(1).unwrap_or(\"0.0.0\");",
            "        let version = parts.nth(2).unwrap_or(\"0.0.0\");"),
    # code_identifier of an ELF record: build ids shorter than 16 bytes are indexed as if they had 16
    "r4f": ("minidump/src/minidump.rs",
            "                    Some(CodeId::from_binary(&raw.build_id))",
            "                    Some(CodeId::from_binary(&raw.build_id[..16.max(raw.build_id.len())]))"),
}


def main():
    mid, repo = sys.argv[1], sys.argv[2]
    path, old, new = MUT[mid]
    p = f"{repo}/{path}"
    s = open(p, encoding="utf-8").read()
    if s.count(old) != 1:
        sys.exit(f"{mid}: pattern found {s.count(old)} times in {path}")
    open(p, "w", encoding="utf-8").write(s.replace(old, new))
    print(f"{mid}: applied to {p}")


if __name__ == "__main__":
    main()
