#!/bin/bash
# copy the deliverables of a round-2 seeder from its scratch worktree into seeded/<id>-2a, seeded/<id>-2b
set -e
for id in "$@"; do
  for v in A B; do
    src=/tmp/seed2/$id/_seed/$v
    [ -f $src/patch.diff ] || { echo "$id/$v: no patch"; continue; }
    l=$(echo $v | tr AB ab)
    dst=/verif/seeded/$id-2$l
    mkdir -p $dst
    cp $src/patch.diff $src/demo_patch.diff $src/meta.json $dst/
    cp $src/*.rs $dst/ 2>/dev/null || true
    echo "ingested $dst"
  done
done
