#!/usr/bin/env python3
"""Run the registered checks against the seeded breaking changes in seeded/<id>/patch.diff.

For each seed: copy /repo (without target/) to a scratch directory outside /repo and /verif, apply the
patch there, run `VERIF_REPO=<scratch> ./check <property> quick`, expect exit 1 with a VIOLATION line
that carries a concrete replay (not no-failing-input-found); write seeded/<id>/result.json; remove
the scratch copy. Afterwards the harness is rebuilt against /repo by a plain `./check <id> quick`.

usage: selftest_seeds.py [<seed dir name> ...]     (default: all)
"""
import json, os, shutil, subprocess, sys, time

VERIF = os.path.dirname(os.path.abspath(__file__))
SCRATCH_BASE = os.environ.get("VERIF_SELFTEST_SCRATCH", "/tmp/verif-selftest-repo-%d" % os.getpid())
SCRATCH = SCRATCH_BASE

def run(cmd, **kw):
    return subprocess.run(cmd, stdout=subprocess.PIPE, stderr=subprocess.STDOUT, text=True, **kw)

def main():
    seeds = sys.argv[1:] or sorted(os.listdir(os.path.join(VERIF, "seeded")))
    rows = []
    touched = set()
    for sd in seeds:
        d = os.path.join(VERIF, "seeded", sd)
        patch = os.path.join(d, "patch.diff")
        if not os.path.exists(patch):
            continue
        meta = json.load(open(os.path.join(d, "meta.json"))) if os.path.exists(os.path.join(d, "meta.json")) else {}
        props = meta.get("checked_by") or [meta.get("property", sd[:3])]
        # one scratch path PER SEED: cargo decides freshness by mtime, and `rsync -a` restores a file that the
        # previous seed had patched with its OLD mtime, which cargo does not notice - the previous seed's
        # change would silently stay in the harness binary (this happened: C03-2a was first "caught" through
        # the strip_quotes panic of C01-2b). A new path is a new package id, so everything is rebuilt.
        global SCRATCH
        SCRATCH = SCRATCH_BASE + "-" + sd
        shutil.rmtree(SCRATCH, ignore_errors=True)
        run(["rsync", "-a", "--exclude", "target", "--exclude", ".git", "/repo/", SCRATCH + "/"])
        r = run(["git", "apply", "--unsafe-paths", "--directory", SCRATCH, patch], cwd="/")
        if r.returncode != 0:
            r = run(["patch", "-p1", "-d", SCRATCH, "-i", patch])
        if r.returncode != 0:
            rows.append((sd, props, "PATCH-DOES-NOT-APPLY", r.stdout[-300:]))
            continue
        res = {}
        for pid in props:
            t0 = time.time()
            env = dict(os.environ, VERIF_REPO=SCRATCH)
            c = run([os.path.join(VERIF, "check"), pid, "quick"], cwd=VERIF, env=env)
            lines = [l for l in c.stdout.split("\n") if l.startswith("VIOLATION")]
            with_input = [l for l in lines if "no-failing-input-found" not in l]
            verdict = "caught-with-input" if (c.returncode == 1 and with_input) else \
                      "caught-no-input" if (c.returncode == 1 and lines) else "MISSED"
            res[pid] = {"verdict": verdict, "exit": c.returncode, "violation_lines": lines[:3], "wall_s": round(time.time() - t0, 1)}
            # keep the first replay as documentation of what the check reported
            if with_input:
                rp = with_input[0].split("replay=")[1].split()[0]
                if os.path.exists(rp):
                    shutil.copy(rp, os.path.join(d, f"caught_by_{pid}.replay.json"))
            touched.add(pid)
            rows.append((sd, pid, verdict, ""))
        json.dump({"seed": sd, "results": res, "repo_head": run(["git", "-C", "/repo", "rev-parse", "--short", "HEAD"]).stdout.strip(),
                   "verif_head": run(["git", "-C", VERIF, "rev-parse", "--short", "HEAD"]).stdout.strip()},
                  open(os.path.join(d, "result.json"), "w"), indent=1)
        shutil.rmtree(SCRATCH, ignore_errors=True)
    # rebuild against /repo and confirm silence on the unchanged tree
    for pid in sorted(touched):
        c = run([os.path.join(VERIF, "check"), pid, "quick"], cwd=VERIF)
        rows.append(("(unchanged /repo)", pid, "silent" if c.returncode == 0 else "ALARM-ON-UNCHANGED-TREE", ""))
    for r in rows:
        print(*r)
    return 0

if __name__ == "__main__":
    sys.exit(main())
