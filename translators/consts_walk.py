#!/usr/bin/env python3
"""
translators/consts_walk.py — regenerate lean/MdModel/Gen/WalkConsts.lean from the unwinder sources
($VERIF_REPO/minidump-unwind/src/{x86,amd64,arm,arm64,arm64_old,mips}.rs).

Every numeric constant the walker theorems depend on is read off the Rust source with a strict
regular expression that must match EXACTLY ONCE per file (or exactly the stated number of times):
scan windows (40 and `* 4`), the nullish-ip cut-off (`< 4096`), the call adjustments
(`frame.instruction = ip - N`), pointer widths, the frame-pointer overflow guard (`MAX - PTR * 2`),
the Windows-x64 probe (`resolve(15, 2 * POINTER_WIDTH)` / `resolve(0, 0)`), the MIPS scan constants
(`MAX_STACK_SIZE = 1024`, `MIN_ARGS = 4`), the canonical-address bounds, the ptr-auth default
(`(1 << 47) - 1`), the 128 KiB frame-gap limit, and the *shape* of the stack-pointer progress test
(`<=`, with the leaf exception gated on `trust == FrameTrust::Context && sp == last_sp` on
ARM/ARM64/MIPS only). An unexpected shape is a failed tie: the script exits non-zero.
"""
import os
import re
import sys

REPO = os.path.abspath(os.environ.get("VERIF_REPO", "/repo"))
HERE = os.path.dirname(os.path.abspath(__file__))
OUT = os.path.join(HERE, "..", "lean", "MdModel", "Gen", "WalkConsts.lean")
SRC = os.path.join(REPO, "minidump-unwind", "src")


def die(msg):
    sys.stderr.write("consts_walk.py: " + msg + "\n")
    sys.exit(1)


def read(name):
    p = os.path.join(SRC, name)
    if not os.path.exists(p):
        die(f"missing source file {p}")
    text = open(p, encoding="utf-8").read()
    # drop block and line comments so that commented-out code cannot match
    text = re.sub(r"/\*.*?\*/", "", text, flags=re.S)
    text = re.sub(r"//[^\n]*", "", text)
    return text


def one(text, pat, what, fname, count=1, flags=0):
    ms = list(re.finditer(pat, text, flags))
    if len(ms) != count:
        die(f"{fname}: expected {count} match(es) of <{what}> /{pat}/, found {len(ms)}")
    return ms


def num(s):
    s = s.replace("_", "")
    return int(s, 16) if s.lower().startswith("0x") else int(s)


def main():
    c = {}
    files = {"x86": "x86.rs", "amd64": "amd64.rs", "arm": "arm.rs", "arm64": "arm64.rs",
             "arm64old": "arm64_old.rs", "mips": "mips.rs"}
    T = {k: read(v) for k, v in files.items()}

    # ---- nullish cut-off and call adjustment (all six files)
    for a, t in T.items():
        m = one(t, r"if frame\.context\.get_instruction_pointer\(\) < (\d+) \{\s*trace!\([^)]*\);\s*return None;\s*\}",
                "nullish-ip cut-off", files[a])[0]
        c[f"nullish_{a}"] = num(m.group(1))
        m = one(t, r"let ip = frame\.context\.get_instruction_pointer\(\);\s*frame\.instruction = ip - (\d+);\s*Some\(frame\)",
                "call adjustment", files[a])[0]
        c[f"adj_{a}"] = num(m.group(1))
        # technique order: cfi, (frame pointer,) scan — each guarded by `if frame.is_none()`
        order = re.findall(r"if frame\.is_none\(\) \{\s*(?:match &ctx32 \{\s*Ok\(mips32\) => )?frame = (get_caller_by_\w+?)(?:32)?\(", t)
        want = ["get_caller_by_cfi", "get_caller_by_scan"] if a == "mips" else \
               ["get_caller_by_cfi", "get_caller_by_frame_pointer", "get_caller_by_scan"]
        if order != want:
            die(f"{files[a]}: technique order {order} != {want}")

    # ---- sp progress check
    for a in ("x86", "amd64"):
        reg = {"x86": r"ctx\.esp as u64", "amd64": r"ctx\.rsp"}[a]
        one(T[a], r"if frame\.context\.get_stack_pointer\(\) <= " + reg + r" \{\s*trace!\([^)]*\);\s*return None;\s*\}",
            "sp must grow (<=, no leaf exception)", files[a])
        if "is_leaf" in T[a]:
            die(f"{files[a]}: unexpected leaf exception on x86/amd64")
    for a in ("arm", "arm64", "arm64old", "mips"):
        one(T[a], r"let sp = frame\.context\.get_stack_pointer\(\);\s*let last_sp = ctx\.get_register_always\((?:\"sp\"|STACK_POINTER)\)(?: as u64)?;\s*"
                  r"if sp <= last_sp \{\s*let is_leaf = args\.callee_frame\.trust == FrameTrust::Context && sp == last_sp;\s*"
                  r"if !is_leaf \{\s*trace!\([^)]*\);\s*return None;\s*\}\s*\}",
            "sp must grow (<=) with the leaf exception gated on trust == Context && sp == last_sp", files[a])

    # ---- pointer widths
    c["ptr_x86"] = num(one(T["x86"], r"const POINTER_WIDTH: Pointer = (\d+);", "pointer width", "x86.rs")[0].group(1))
    c["ptr_amd64"] = num(one(T["amd64"], r"const POINTER_WIDTH: Pointer = (\d+);", "pointer width", "amd64.rs")[0].group(1))
    one(T["x86"], r"type Pointer = u32;", "Pointer = u32", "x86.rs")
    one(T["amd64"], r"type Pointer = u64;", "Pointer = u64", "amd64.rs")
    for a in ("arm", "arm64", "arm64old"):
        one(T[a], r"const POINTER_WIDTH: Pointer = std::mem::size_of::<Pointer>\(\) as Pointer;", "pointer width = size_of", files[a])
    one(T["arm"], r"type ArmContext = minidump::format::CONTEXT_ARM;", "ARM context type", "arm.rs")
    one(T["arm64"], r"type ArmContext = minidump::format::CONTEXT_ARM64;", "ARM64 context type", "arm64.rs")
    one(T["arm64old"], r"type ArmContext = minidump::format::CONTEXT_ARM64_OLD;", "old ARM64 context type", "arm64_old.rs")
    ms = one(T["mips"], r"const POINTER_WIDTH: u(32|64) = (\d+);", "mips pointer widths", "mips.rs", count=2)
    got = {m.group(1): num(m.group(2)) for m in ms}
    if set(got) != {"32", "64"}:
        die("mips.rs: expected one POINTER_WIDTH per u32/u64 scan")
    c["ptr_mips32"], c["ptr_mips64"] = got["32"], got["64"]

    # ---- scan windows
    for a in ("x86", "amd64", "arm", "arm64", "arm64old"):
        m = one(T[a], r"let default_scan_range = (\d+);\s*let extended_scan_range = default_scan_range \* (\d+);",
                "scan windows", files[a])[0]
        c[f"scan_default_{a}"] = num(m.group(1))
        c[f"scan_ext_{a}"] = num(m.group(1)) * num(m.group(2))
        one(T[a], r"let scan_range = if let FrameTrust::Context = args\.callee_frame\.trust \{\s*extended_scan_range\s*\} else \{\s*default_scan_range\s*\};",
            "extended window only for the context frame", files[a])
        one(T[a], r"for i in 0\.\.scan_range \{", "scan loop bounds", files[a])
    ms = one(T["mips"], r"const MAX_STACK_SIZE: u(?:32|64) = (\d+);", "mips MAX_STACK_SIZE", "mips.rs", count=2)
    if ms[0].group(1) != ms[1].group(1):
        die("mips.rs: the two MAX_STACK_SIZE differ")
    c["mips_max_stack"] = num(ms[0].group(1))
    c["mips_min_args"] = num(one(T["mips"], r"const MIN_ARGS: u32 = (\d+);", "MIN_ARGS", "mips.rs")[0].group(1))
    one(T["mips"], r"if args\.callee_frame\.trust != FrameTrust::Context \{\s*last_sp = last_sp\.checked_add\(MIN_ARGS \* POINTER_WIDTH\)\?;\s*count -= MIN_ARGS;\s*\}",
        "mips32 4-word skip", "mips.rs")
    one(T["mips"], r"let mut count = MAX_STACK_SIZE / POINTER_WIDTH;", "mips32 count", "mips.rs")
    one(T["mips"], r"let count = MAX_STACK_SIZE / POINTER_WIDTH;", "mips64 count", "mips.rs")
    c["mips_min_ip"] = num(one(T["mips"], r"if instruction < (0x[0-9a-fA-F]+) \{\s*return false;\s*\}", "mips minimal ip", "mips.rs")[0].group(1))

    # ---- frame-pointer overflow guards
    for a, ty, var in (("x86", "u32", "last_bp"), ("amd64", "u64", "last_bp"), ("arm", "u32", "last_fp"),
                       ("arm64", "u64", "last_fp"), ("arm64old", "u64", "last_fp")):
        one(T[a], r"if " + var + r" >= " + ty + r"::MAX - POINTER_WIDTH \* 2 \{\s*return None;\s*\}", "fp overflow guard", files[a])

    # ---- Windows x64 probe
    m = one(T["amd64"], r"Os::Windows => resolve\((\d+), (\d+) \* POINTER_WIDTH\)\?,\s*_ => resolve\(0, 0\)\?,", "windows probe", "amd64.rs")[0]
    c["win_probe_max"] = num(m.group(1))
    c["win_probe_step"] = num(m.group(2)) * c["ptr_amd64"]
    one(T["amd64"], r"for offset in 0\.\.=offset_max_scan \{\s*let offset = offset \* offset_step;", "probe loop", "amd64.rs")

    # ---- canonical addresses, gap, ptr auth
    m = one(T["amd64"], r"ptr > (0x[0-9A-Fa-f]+) && ptr < (0x[0-9A-Fa-f]+)\s*\}", "amd64 non-canonical range", "amd64.rs")[0]
    c["amd64_canon_lo"], c["amd64_canon_hi"] = num(m.group(1)), num(m.group(2))
    for a in ("arm64", "arm64old"):
        m = one(T[a], r"!\((0x[0-9A-Fa-f]+)\.\.=(0x[0-9A-Fa-f]+)\)\.contains\(&instruction\)", "arm64 canonical range", files[a])[0]
        c[f"{a}_canon_lo"], c[f"{a}_canon_hi"] = num(m.group(1)), num(m.group(2))
        m = one(T[a], r"let apple_default_max_addr = \(1 << (\d+)\) - 1;", "ptr-auth default", files[a])[0]
        c[f"{a}_ptrauth_bits"] = num(m.group(1))
    for a in ("x86", "amd64"):
        m = one(T[a], r"const MAX_REASONABLE_GAP_BETWEEN_FRAMES: Pointer = (\d+) \* (\d+);", "frame gap", files[a])[0]
        c[f"gap_{a}"] = num(m.group(1)) * num(m.group(2))

    # ---- arm64_old.rs is arm64.rs up to the context type (the model uses one definition for both)
    if T["arm64old"].replace("CONTEXT_ARM64_OLD", "CONTEXT_ARM64").replace("MinidumpRawContext::OldArm64(", "MinidumpRawContext::Arm64(") != T["arm64"]:
        die("arm64_old.rs is no longer arm64.rs with the context type renamed")

    # ---- lib.rs: the in-range stop of walk_stack (F12 fix) and from_context
    lib = read("lib.rs")
    one(lib, r"let callee_sp = callee_frame\.context\.get_stack_pointer\(\);\s*if !stack_memory\s*\.memory_range\(\)\s*\.is_some_and\(\|range\| range\.contains\(callee_sp\)\)\s*\{\s*trace!\([^)]*\);\s*break;\s*\}",
        "walk_stack stops when the callee's sp is outside the stack memory", "lib.rs")
    one(lib, r"instruction: context\.get_instruction_pointer\(\),\s*resume_address: context\.get_instruction_pointer\(\),",
        "from_context: instruction = resume_address = ip", "lib.rs")

    lines = ["/-", "  GENERATED by translators/consts_walk.py from minidump-unwind/src/*.rs — do not edit.", "-/",
             "namespace MdModel.Walk.Consts", ""]
    for k in sorted(c):
        lines.append(f"def {k} : Nat := {c[k]}")
    lines += ["", "end MdModel.Walk.Consts", ""]
    os.makedirs(os.path.dirname(OUT), exist_ok=True)
    new = "\n".join(lines)
    if not os.path.exists(OUT) or open(OUT).read() != new:
        open(OUT, "w").write(new)
    print(f"consts_walk.py: {len(c)} constants written to {os.path.relpath(OUT, os.path.join(HERE, '..'))}")


if __name__ == "__main__":
    main()
