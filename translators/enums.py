#!/usr/bin/env python3
"""
translators/enums.py — regenerate lean/MdModel/Gen/Enums.lean from the Rust sources of the
repository under verification ($VERIF_REPO, default /repo).

Translated (value, variant-name) membership tables, in source order:
  * every enum of minidump-common/src/errors/{windows,linux,macos}.rs that
    `CrashReason::from_exception` / `MinidumpException::get_crash_address` consult through the
    derived `FromPrimitive::from_u32/from_u64` (num_derive: `n == Enum::Variant as u64`, first match;
    Rust rejects duplicate discriminants, which is re-checked here);
  * `PlatformId` and `ProcessorArchitecture` of minidump-common/src/format.rs (they decide `Os`/`Cpu`).

Strict: an enum body may contain only blank lines, `//` and `///` comment lines and lines of the
exact shape `NAME = <dec|0xhex>[u32|i32|u64|u16],`. Anything else (expressions, implicit
discriminants, attributes inside the body, cfg gates, negative values in a consulted enum, a
missing enum, a missing variant the decision tree names, a derive without FromPrimitive) is a
failed tie: the script prints the offending line and exits 1 without writing anything.
"""
import os
import re
import sys

REPO = os.path.abspath(os.environ.get("VERIF_REPO", "/repo"))
VERIF = os.path.dirname(os.path.dirname(os.path.abspath(__file__)))
OUT = os.path.join(VERIF, "lean", "MdModel", "Gen", "Enums.lean")

# enum name -> (file, discriminant must fit this many bits)
WANTED = {
    "ExceptionCodeWindows": ("minidump-common/src/errors/windows.rs", 32),
    "WinErrorFacilityWindows": ("minidump-common/src/errors/windows.rs", 32),
    "WinErrorWindows": ("minidump-common/src/errors/windows.rs", 32),
    "NtStatusWindows": ("minidump-common/src/errors/windows.rs", 32),
    "ExceptionCodeWindowsAccessType": ("minidump-common/src/errors/windows.rs", 64),
    "ExceptionCodeWindowsInPageErrorType": ("minidump-common/src/errors/windows.rs", 64),
    "ExceptionCodeLinux": ("minidump-common/src/errors/linux.rs", 32),
    "ExceptionCodeLinuxSigillKind": ("minidump-common/src/errors/linux.rs", 32),
    "ExceptionCodeLinuxSigtrapKind": ("minidump-common/src/errors/linux.rs", 32),
    "ExceptionCodeLinuxSigfpeKind": ("minidump-common/src/errors/linux.rs", 32),
    "ExceptionCodeLinuxSigsegvKind": ("minidump-common/src/errors/linux.rs", 32),
    "ExceptionCodeLinuxSigbusKind": ("minidump-common/src/errors/linux.rs", 32),
    "ExceptionCodeLinuxSigsysKind": ("minidump-common/src/errors/linux.rs", 32),
    "ExceptionCodeMac": ("minidump-common/src/errors/macos.rs", 32),
    "ExceptionCodeMacBadAccessKernType": ("minidump-common/src/errors/macos.rs", 32),
    "ExceptionCodeMacBadAccessArmType": ("minidump-common/src/errors/macos.rs", 32),
    "ExceptionCodeMacBadAccessPpcType": ("minidump-common/src/errors/macos.rs", 32),
    "ExceptionCodeMacBadAccessX86Type": ("minidump-common/src/errors/macos.rs", 32),
    "ExceptionCodeMacBadInstructionArmType": ("minidump-common/src/errors/macos.rs", 32),
    "ExceptionCodeMacBadInstructionPpcType": ("minidump-common/src/errors/macos.rs", 32),
    "ExceptionCodeMacBadInstructionX86Type": ("minidump-common/src/errors/macos.rs", 32),
    "ExceptionCodeMacArithmeticArmType": ("minidump-common/src/errors/macos.rs", 32),
    "ExceptionCodeMacArithmeticPpcType": ("minidump-common/src/errors/macos.rs", 32),
    "ExceptionCodeMacArithmeticX86Type": ("minidump-common/src/errors/macos.rs", 32),
    "ExceptionCodeMacSoftwareType": ("minidump-common/src/errors/macos.rs", 32),
    "ExceptionCodeMacBreakpointArmType": ("minidump-common/src/errors/macos.rs", 32),
    "ExceptionCodeMacBreakpointPpcType": ("minidump-common/src/errors/macos.rs", 32),
    "ExceptionCodeMacBreakpointX86Type": ("minidump-common/src/errors/macos.rs", 32),
    "ExceptionCodeMacResourceType": ("minidump-common/src/errors/macos.rs", 32),
    "ExceptionCodeMacGuardType": ("minidump-common/src/errors/macos.rs", 32),
    "PlatformId": ("minidump-common/src/format.rs", 32),
    "ProcessorArchitecture": ("minidump-common/src/format.rs", 16),
}

# variants that the hand-written decision tree (MdModel/Reason.lean, MdModel/Index.lean) names
REQUIRED_VARIANTS = {
    "ExceptionCodeWindows": ["EXCEPTION_ACCESS_VIOLATION", "EXCEPTION_IN_PAGE_ERROR"],
    "NtStatusWindows": ["STATUS_STACK_BUFFER_OVERRUN"],
    "ExceptionCodeMac": ["EXC_BAD_ACCESS", "EXC_BAD_INSTRUCTION", "EXC_ARITHMETIC", "EXC_SOFTWARE",
                         "EXC_BREAKPOINT", "EXC_RESOURCE", "EXC_GUARD"],
    "ExceptionCodeLinux": ["SIGILL", "SIGTRAP", "SIGFPE", "SIGSEGV", "SIGBUS", "SIGSYS"],
    "PlatformId": ["VER_PLATFORM_WIN32_WINDOWS", "VER_PLATFORM_WIN32_NT", "MacOs", "Ios", "Linux", "Solaris",
                   "Android", "Ps3", "NaCl"],
    "ProcessorArchitecture": ["PROCESSOR_ARCHITECTURE_INTEL", "PROCESSOR_ARCHITECTURE_IA32_ON_WIN64",
                              "PROCESSOR_ARCHITECTURE_AMD64", "PROCESSOR_ARCHITECTURE_PPC",
                              "PROCESSOR_ARCHITECTURE_PPC64", "PROCESSOR_ARCHITECTURE_SPARC",
                              "PROCESSOR_ARCHITECTURE_ARM", "PROCESSOR_ARCHITECTURE_ARM64",
                              "PROCESSOR_ARCHITECTURE_ARM64_OLD", "PROCESSOR_ARCHITECTURE_MIPS",
                              "PROCESSOR_ARCHITECTURE_MIPS64"],
}

ENUM_HEAD = re.compile(r"^pub enum ([A-Za-z_][A-Za-z0-9_]*) \{$")
VARIANT = re.compile(r"^    ([A-Za-z_][A-Za-z0-9_]*) = (0x[0-9a-fA-F_]+|[0-9][0-9_]*)(u16|u32|i32|u64)?,$")
COMMENT = re.compile(r"^\s*//")
DERIVE = re.compile(r"^#\[derive\(([A-Za-z0-9_, ]+)\)\]$")
REPR = re.compile(r"^#\[repr\((u16|u32|i32|u64)\)\]$")


def die(msg):
    sys.stderr.write("enums.py: " + msg + "\n")
    print("enums.py: " + msg)
    sys.exit(1)


def parse_file(path, wanted_here):
    """returns {enum name: [(value, variant)]} for the wanted enums of this file"""
    if not os.path.exists(path):
        die(f"source file missing: {path}")
    lines = open(path, encoding="utf-8").read().split("\n")
    out = {}
    i = 0
    while i < len(lines):
        m = ENUM_HEAD.match(lines[i])
        if not m:
            # an enum we want must not hide behind another head shape
            for w in wanted_here:
                if re.search(r"\benum\s+" + w + r"\b", lines[i]) and not m:
                    die(f"{path}:{i+1}: unexpected shape of the enum head: {lines[i]!r}")
            i += 1
            continue
        name = m.group(1)
        head = i
        # attributes directly above the head (skipping doc comments)
        j = i - 1
        derives, reprs = None, []
        while j >= 0 and (lines[j].startswith("#[") or lines[j].startswith("///")):
            d = DERIVE.match(lines[j])
            r = REPR.match(lines[j])
            if d:
                derives = [x.strip() for x in d.group(1).split(",")]
            elif r:
                reprs.append(r.group(1))
            elif lines[j].startswith("#["):
                if name in wanted_here:
                    die(f"{path}:{j+1}: unexpected attribute on enum {name}: {lines[j]!r}")
            j -= 1
        i += 1
        body = []
        while i < len(lines) and lines[i] != "}":
            body.append((i + 1, lines[i]))
            i += 1
        if i >= len(lines):
            die(f"{path}:{head+1}: enum {name} has no closing brace at column 0")
        if name not in wanted_here:
            continue
        if derives is None or "FromPrimitive" not in derives:
            die(f"{path}:{head+1}: enum {name} does not derive FromPrimitive (derives: {derives})")
        if "i32" in reprs:
            die(f"{path}:{head+1}: consulted enum {name} is repr(i32); signed discriminants are not modelled")
        entries = []
        for (ln, text) in body:
            if text.strip() == "" or COMMENT.match(text):
                continue
            v = VARIANT.match(text)
            if not v:
                die(f"{path}:{ln}: unexpected line in enum {name}: {text!r}")
            if v.group(3) == "i32":
                die(f"{path}:{ln}: signed discriminant in consulted enum {name}: {text!r}")
            lit = v.group(2).replace("_", "")
            val = int(lit, 16) if lit.startswith("0x") else int(lit, 10)
            entries.append((val, v.group(1)))
        if not entries:
            die(f"{path}:{head+1}: enum {name} has no variants")
        bits = wanted_here[name]
        for (val, var) in entries:
            if val >= 2 ** bits:
                die(f"{path}: {name}::{var} = {val} does not fit {bits} bits")
        vals = [v for v, _ in entries]
        if len(set(vals)) != len(vals):
            die(f"{path}: enum {name} has duplicate discriminants")
        names = [n for _, n in entries]
        if len(set(names)) != len(names):
            die(f"{path}: enum {name} has duplicate variant names")
        if name in out:
            die(f"{path}: enum {name} defined twice")
        out[name] = entries
    return out


def main():
    by_file = {}
    for name, (f, bits) in WANTED.items():
        by_file.setdefault(f, {})[name] = bits
    tables = {}
    for f, wanted_here in by_file.items():
        got = parse_file(os.path.join(REPO, f), wanted_here)
        for name in wanted_here:
            if name not in got:
                die(f"{f}: enum {name} not found")
        tables.update(got)
    for name, req in REQUIRED_VARIANTS.items():
        have = {n for _, n in tables[name]}
        for r in req:
            if r not in have:
                die(f"enum {name} lacks the variant {r} that the decision tree names")

    CH = 64
    o = []
    o.append("/-")
    o.append("  GENERATED by translators/enums.py from the Rust sources — do not edit.")
    o.append("  (value, variant name) tables in source order; `FromPrimitive::from_u32/from_u64` of the")
    o.append("  enum = first entry whose value equals the number (`MdModel.Reason.lookup`).")
    o.append("-/")
    o.append("namespace MdModel.Gen.Enums")
    o.append("")
    o.append("abbrev Table := List (Nat × String)")
    o.append("")
    for name in WANTED:
        ents = tables[name]
        o.append(f"/-- `{name}` ({WANTED[name][0]}), {len(ents)} variants -/")
        if len(ents) <= CH:
            o.append(f"def {name} : Table := [")
            o.append(",\n".join(f"  ({v}, \"{n}\")" for v, n in ents))
            o.append("]")
        else:
            parts = []
            for k in range(0, len(ents), CH):
                pn = f"{name}_{k // CH}"
                parts.append(pn)
                o.append(f"def {pn} : Table := [")
                o.append(",\n".join(f"  ({v}, \"{n}\")" for v, n in ents[k:k + CH]))
                o.append("]")
            o.append(f"def {name}_parts : List Table := [{', '.join(parts)}]")
            o.append(f"def {name} : Table := {name}_parts.flatten")
        o.append("")
    o.append("/-- all translated tables by name (used by the `index tables` protocol request) -/")
    o.append("def all : List (String × Table) := [")
    o.append(",\n".join(f"  (\"{n}\", {n})" for n in WANTED))
    o.append("]")
    o.append("")
    o.append("end MdModel.Gen.Enums")
    text = "\n".join(o) + "\n"
    os.makedirs(os.path.dirname(OUT), exist_ok=True)
    if not os.path.exists(OUT) or open(OUT, encoding="utf-8").read() != text:
        tmp = OUT + f".{os.getpid()}.tmp"
        open(tmp, "w", encoding="utf-8").write(text)
        os.replace(tmp, OUT)
    total = sum(len(t) for t in tables.values())
    print(f"enums.py: {len(tables)} enums, {total} variants -> {os.path.relpath(OUT, VERIF)}")


if __name__ == "__main__":
    main()
