#!/usr/bin/env python3
"""
translators/json_schema.py — regenerate lean/MdModel/Gen/JsonSchema.lean from the documented schema
of the JSON report, $VERIF_REPO/minidump-processor/json-schema.md (default /repo).

The document contains exactly ONE fenced block (```rust,ignore … ```) under the heading "# Schema":
a JSON-like text with placeholders. This script parses it STRICTLY with a small hand-written
tokenizer / recursive-descent parser and emits the field tree as a flat, ordered list of rows
`(path, leaf type)` — `$.threads[].frames[].trust` … — plus what the comments state in fixed
sentences. The grammar that is accepted (anything else: exit 1, which `./check` reports as a broken
obligation):

    doc     := value EOF
    value   := object | array | alts
    object  := '{' ( member ','? )* '}'          the document omits some commas between members
                                                  (counted and emitted as `missingCommas`); two commas
                                                  in a row, or a comma before the first member, fail
    member  := ( '[' 'UNSTABLE' ':' ident ']' )? STRING ':' value
    array   := '[' value ','? ']'                 exactly one element pattern
    alts    := PLACEHOLDER                        <u32> <u64> <f32> <bool> <string> <hexstring>
                                                  <array> <object>
             | STRING ( '|' STRING )* ( '|' '<hexstring>' )?
    comment := '//' … end of line                 ('///' too); a comment that stands on its own
                                                  line(s) directly before a member key is that
                                                  member's LEADING comment; a comment after a token on
                                                  the same line is a trailing remark and carries no
                                                  meaning for this script

    STRING  := '"' printable ASCII without '"' and '\\' '"'      keys additionally: [A-Za-z0-9_]+
    duplicate keys in one object fail.

Sentences recognised in LEADING comments (white space normalised; exact wording — a reworded
sentence is no longer recognised, the corresponding generated list changes and the Lean theorem
that pins it fails):
    "This field may only be present when the value is `true`."                 -> onlyTrue
    "This will never be empty, will never contain duplicates, and is sorted"   -> sortedNonEmpty
    '(Present when <field> == "<value>")'                                      -> presentWhen
    "(redundant…" / "redundant)" / "(currently redundant…"                     -> redundant
"""
import os
import re
import sys

REPO = os.path.abspath(os.environ.get("VERIF_REPO", "/repo"))
HERE = os.path.dirname(os.path.abspath(__file__))
OUT = os.path.join(HERE, "..", "lean", "MdModel", "Gen", "JsonSchema.lean")
SRC = os.path.join(REPO, "minidump-processor", "json-schema.md")

PLACEHOLDERS = {"u32": "u32", "u64": "u64", "f32": "f32", "bool": "bool", "string": "str",
                "hexstring": "hex", "array": "arr", "object": "obj"}


def die(msg):
    sys.stderr.write("json_schema.py: " + msg + "\n")
    sys.exit(1)


# ---------------------------------------------------------------------------- the block
def schema_block(text):
    lines = text.split("\n")
    fences = [i for i, l in enumerate(lines) if l.startswith("```")]
    if len(fences) != 2:
        die(f"expected exactly one fenced block (2 fence lines at column 0), found {len(fences)} fence lines")
    a, b = fences
    if lines[a].rstrip() != "```rust,ignore":
        die(f"line {a+1}: the fence is {lines[a]!r}, expected '```rust,ignore'")
    if lines[b].rstrip() != "```":
        die(f"line {b+1}: the closing fence is {lines[b]!r}")
    heads = [i for i, l in enumerate(lines) if l.rstrip() == "# Schema"]
    if len(heads) != 1 or not heads[0] < a:
        die("expected exactly one heading '# Schema' before the fenced block")
    later = [i for i, l in enumerate(lines) if l.startswith("# ") and heads[0] < i < a]
    if later:
        die(f"line {later[0]+1}: another top-level heading between '# Schema' and the block")
    return lines[a + 1:b], a + 2      # body lines, 1-based line number of the first body line


# ---------------------------------------------------------------------------- tokens
class Tok:
    __slots__ = ("kind", "val", "line", "own_line")

    def __init__(self, kind, val, line, own_line=False):
        self.kind, self.val, self.line, self.own_line = kind, val, line, own_line

    def __repr__(self):
        return f"{self.kind}:{self.val!r}@{self.line}"


def tokenize(body, first_line):
    toks = []
    for off, raw in enumerate(body):
        ln = first_line + off
        if "\t" in raw:
            die(f"line {ln}: tab character")
        i, n = 0, len(raw)
        seen_token = False
        while i < n:
            c = raw[i]
            if c == " ":
                i += 1
                continue
            if raw.startswith("//", i):
                txt = raw[i:].lstrip("/")
                toks.append(Tok("comment", txt.strip(), ln, own_line=not seen_token))
                i = n
                continue
            seen_token = True
            if c in "{}[]:,|":
                toks.append(Tok(c, c, ln))
                i += 1
            elif c == '"':
                j = raw.find('"', i + 1)
                if j < 0:
                    die(f"line {ln}: unterminated string")
                s = raw[i + 1:j]
                if "\\" in s or any(not (32 <= ord(ch) < 127) for ch in s):
                    die(f"line {ln}: string {s!r} contains a backslash or a non-printable/non-ASCII character")
                toks.append(Tok("str", s, ln))
                i = j + 1
            elif c == "<":
                m = re.compile(r"<([a-z0-9]+)>").match(raw, i)
                if not m:
                    die(f"line {ln}: malformed placeholder at column {i+1}: {raw[i:i+20]!r}")
                if m.group(1) not in PLACEHOLDERS:
                    die(f"line {ln}: unknown placeholder <{m.group(1)}>")
                toks.append(Tok("ph", PLACEHOLDERS[m.group(1)], ln))
                i = m.end()
            else:
                m = re.compile(r"[A-Za-z_][A-Za-z0-9_]*").match(raw, i)
                if not m:
                    die(f"line {ln}: unexpected character {c!r} at column {i+1}")
                toks.append(Tok("ident", m.group(0), ln))
                i = m.end()
    toks.append(Tok("eof", None, first_line + len(body)))
    return toks


# ---------------------------------------------------------------------------- parser
class Parser:
    def __init__(self, toks):
        self.toks = toks
        self.i = 0
        self.pending = []          # own-line comments since the last structural token
        self.rows = []             # (path, leaf)  leaf = ("u32",) … | ("lit", [alts], orHex)
        self.unstable = []         # (path, feature)
        self.comments = {}         # path -> normalised leading comment
        self.missing_commas = 0

    def peek(self):
        # comments are consumed here: own-line ones accumulate, trailing ones are dropped
        while self.toks[self.i].kind == "comment":
            t = self.toks[self.i]
            if t.own_line:
                self.pending.append(t.val)
            self.i += 1
        return self.toks[self.i]

    def next(self):
        t = self.peek()
        self.i += 1
        return t

    def expect(self, kind, what=None):
        t = self.next()
        if t.kind != kind:
            die(f"line {t.line}: expected {what or kind!r}, found {t.kind} {t.val!r}")
        return t

    def take_comments(self):
        c, self.pending = self.pending, []
        return " ".join(" ".join(c).split())

    def value(self, path):
        t = self.peek()
        if t.kind == "{":
            self.object(path)
        elif t.kind == "[":
            self.array(path)
        elif t.kind in ("ph", "str"):
            self.alts(path)
        else:
            die(f"line {t.line}: expected a value for {path}, found {t.kind} {t.val!r}")

    def alts(self, path):
        t = self.next()
        if t.kind == "ph":
            if self.peek().kind == "|":
                die(f"line {t.line}: {path}: a placeholder followed by '|' (only string literals may lead an alternative list)")
            self.rows.append((path, (t.val,)))
            return
        lits, or_hex = [t.val], False
        while self.peek().kind == "|":
            self.next()
            u = self.next()
            if or_hex:
                die(f"line {u.line}: {path}: alternatives continue after <hexstring>")
            if u.kind == "str":
                if u.val in lits:
                    die(f"line {u.line}: {path}: alternative {u.val!r} listed twice")
                lits.append(u.val)
            elif u.kind == "ph" and u.val == "hex":
                or_hex = True
            else:
                die(f"line {u.line}: {path}: alternative must be a string literal or <hexstring>, found {u.kind} {u.val!r}")
        self.rows.append((path, ("lit", lits, or_hex)))

    def array(self, path):
        self.expect("[")
        self.rows.append((path, ("arr",)))
        self.pending = []
        if self.peek().kind == "]":
            die(f"line {self.peek().line}: {path}: empty array pattern")
        self.value(path + "[]")
        if self.peek().kind == ",":
            self.next()
        t = self.next()
        if t.kind != "]":
            die(f"line {t.line}: {path}: an array pattern must have exactly one element, found {t.kind} {t.val!r}")

    def object(self, path):
        self.expect("{")
        self.rows.append((path, ("obj",)))
        self.pending = []
        keys = set()
        need_sep = False          # a member has just ended and no comma was seen yet
        first = True
        while True:
            t = self.peek()
            if t.kind == "}":
                self.next()
                self.pending = []
                return
            if t.kind == ",":
                if first or not need_sep:
                    die(f"line {t.line}: {path}: unexpected ','")
                self.next()
                need_sep = False
                continue
            if need_sep:
                self.missing_commas += 1
            # member
            feature = None
            if t.kind == "[":
                self.next()
                u = self.expect("ident", "UNSTABLE")
                if u.val != "UNSTABLE":
                    die(f"line {u.line}: {path}: annotation [{u.val}…] is not [UNSTABLE:feature]")
                self.expect(":")
                feature = self.expect("ident", "a feature name").val
                self.expect("]")
            k = self.expect("str", "a member name")
            if not re.fullmatch(r"[A-Za-z0-9_]+", k.val):
                die(f"line {k.line}: {path}: member name {k.val!r} is not [A-Za-z0-9_]+")
            if k.val in keys:
                die(f"line {k.line}: {path}: duplicate member {k.val!r}")
            keys.add(k.val)
            sub = path + "." + k.val
            self.comments[sub] = self.take_comments()
            if feature is not None:
                self.unstable.append((sub, feature))
            self.expect(":")
            self.value(sub)
            need_sep = True
            first = False


# ---------------------------------------------------------------------------- comment sentences
S_ONLY_TRUE = "This field may only be present when the value is `true`."
S_SORTED = "This will never be empty, will never contain duplicates, and is sorted"
RE_PRESENT = re.compile(r'\(Present when ([a-z_]+) == "([^"]+)"\)')
RE_REDUNDANT = re.compile(r"\((currently )?redundant\b|\bredundant\)")


# ---------------------------------------------------------------------------- Lean output
def lstr(s):
    assert '"' not in s and "\\" not in s
    return '"' + s + '"'


def lleaf(leaf):
    if leaf[0] == "lit":
        return f".lit [{', '.join(lstr(a) for a in leaf[1])}] {'true' if leaf[2] else 'false'}"
    return "." + leaf[0]


def llist(items, indent="  "):
    if not items:
        return "[]"
    return "[\n" + ",\n".join(indent + it for it in items) + "]"


def main():
    if not os.path.exists(SRC):
        die(f"missing {SRC}")
    text = open(SRC, encoding="utf-8").read()
    body, first = schema_block(text)
    p = Parser(tokenize(body, first))
    p.value("$")
    t = p.peek()
    if t.kind != "eof":
        die(f"line {t.line}: text after the schema value: {t.kind} {t.val!r}")
    rows = p.rows
    if not rows or rows[0] != ("$", ("obj",)):
        die("the schema is not an object")
    paths = [r[0] for r in rows]
    if len(set(paths)) != len(paths):
        die("duplicate paths")

    only_true, sorted_ne, present, redundant = [], [], [], []
    for path in paths:
        c = p.comments.get(path, "")
        if S_ONLY_TRUE in c:
            only_true.append(path)
        if S_SORTED in c:
            sorted_ne.append(path)
        for m in RE_PRESENT.finditer(c):
            present.append((path, m.group(1), m.group(2)))
        if RE_REDUNDANT.search(c):
            redundant.append(path)
    # every occurrence of the fixed sentences must have been attributed to a member
    body_text = " ".join(" ".join(l.strip().lstrip("/").strip() for l in body).split())
    for what, n_doc, n_got in [
            ("onlyTrue", body_text.count(S_ONLY_TRUE), len(only_true)),
            ("sortedNonEmpty", body_text.count(S_SORTED), len(sorted_ne)),
            ("presentWhen", len(RE_PRESENT.findall(body_text)), len(present)),
            ("Present when", body_text.count("Present when"), len(present))]:
        if n_doc != n_got:
            die(f"{what}: the block contains the sentence {n_doc} time(s) but {n_got} were attributed to members")
    leaf_kind = dict(rows)
    for path in only_true:
        if leaf_kind[path] != ("bool",):
            die(f"{path}: 'only present when true' on a member that is not <bool>")

    enums = [(path, leaf[1], leaf[2]) for path, leaf in rows if leaf[0] == "lit"]

    out = []
    out.append("/-\n  GENERATED by translators/json_schema.py from minidump-processor/json-schema.md — do not edit.\n"
               "  The documented schema of the JSON report as an ordered list of rows (path, leaf type):\n"
               "  `$` is the report, `.name` a member, `[]` the element pattern of an array.\n-/")
    out.append("namespace MdModel.Gen.JsonSchema\n")
    out.append("/-- leaf types of the document (`<u32>` … `<object>`/`{…}`, `<array>`/`[…]`, and lists of\n"
               "    string-literal alternatives `\"a\" | \"b\"`, optionally ending in `| <hexstring>`);\n"
               "    `undoc` is never produced by the translator (image of a hand-written wildcard). -/")
    out.append("inductive Leaf where\n  | u32 | u64 | f32 | bool | str | hex | obj | arr\n"
               "  | lit (alts : List String) (orHex : Bool)\n  | undoc\n  deriving DecidableEq, Repr, Inhabited\n")
    out.append("/-- what a schema checker may demand of a member beyond its leaf type (vocabulary for\n"
               "    MdProofs/C15Schema.lean; the translator itself only fills the lists further down) -/")
    out.append("inductive Refinement where\n  | plain\n"
               "  | onlyTrue         -- a `<bool>` that is `true` when present\n"
               "  | padded           -- a `<hexstring>` with at least the platform's digit count\n"
               "  | sortedNonEmpty   -- a non-empty, strictly ascending array\n"
               "  | kindCoupled      -- an object whose `kind` decides which other member is present\n"
               "  deriving DecidableEq, Repr\n")
    out.append("/-- every member of the documented schema, in document order -/")
    out.append("def rows : List (String × Leaf) := " + llist([f"({lstr(pa)}, {lleaf(le)})" for pa, le in rows]) + "\n")
    out.append("/-- the members whose documented type is a list of string literals -/")
    out.append("def enums : List (String × List String × Bool) := " + llist(
        [f"({lstr(pa)}, [{', '.join(lstr(a) for a in al)}], {'true' if oh else 'false'})" for pa, al, oh in enums]) + "\n")
    out.append("/-- members marked `[UNSTABLE:feature]` -/")
    out.append("def unstable : List (String × String) := " + llist([f"({lstr(a)}, {lstr(b)})" for a, b in p.unstable]) + "\n")
    out.append(f"/-- leading comment contains: {S_ONLY_TRUE} -/")
    out.append("def onlyTrue : List String := " + llist([lstr(a) for a in only_true]) + "\n")
    out.append(f"/-- leading comment contains: {S_SORTED} … -/")
    out.append("def sortedNonEmpty : List String := " + llist([lstr(a) for a in sorted_ne]) + "\n")
    out.append("/-- leading comment contains: (Present when FIELD == \"VALUE\")  — (member, FIELD, VALUE) -/")
    out.append("def presentWhen : List (String × String × String) := " + llist(
        [f"({lstr(a)}, {lstr(b)}, {lstr(c)})" for a, b, c in present]) + "\n")
    out.append("/-- leading comment calls the member redundant -/")
    out.append("def redundant : List String := " + llist([lstr(a) for a in redundant]) + "\n")
    out.append("/-- member separators the document omits (information only) -/")
    out.append(f"def missingCommas : Nat := {p.missing_commas}\n")
    out.append("end MdModel.Gen.JsonSchema")
    new = "\n".join(out) + "\n"
    old = open(OUT, encoding="utf-8").read() if os.path.exists(OUT) else None
    if old != new:
        with open(OUT, "w", encoding="utf-8") as f:
            f.write(new)
    print(f"json_schema.py: {len(rows)} rows, {len(enums)} enumerations, {len(p.unstable)} unstable, "
          f"{len(only_true)} onlyTrue, {len(sorted_ne)} sortedNonEmpty, {len(present)} presentWhen, "
          f"{len(redundant)} redundant, {p.missing_commas} missing commas"
          + ("" if old != new else " (unchanged)"))


if __name__ == "__main__":
    main()
