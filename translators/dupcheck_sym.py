#!/usr/bin/env python3
"""Tie `SymbolFile::parse_async` to `SymbolFile::parse` (breakpad-symbols/src/sym_file/mod.rs).

The Lean model (MdModel/Stream.lean) re-states the loop of `parse`; `parse_async` is a second copy of
the same loop around a different "read a chunk" block.  This script extracts both loop bodies and
requires them to be TOKEN-IDENTICAL (comments, whitespace and trace!() messages removed) outside

  * the rube-goldberg block of parse_async that fetches the next HTTP chunk
    (`let mut response_ended = false; if input_reader.is_empty() { ... }`), and
  * the end-of-input test, which must be exactly
        sync :  !tried_to_grow && !had_space
        async:  !tried_to_grow && !(had_space && response_ended)
    (for a std `Read`er a zero-length read into a non-empty slice IS end of input, i.e.
    `response_ended` is true whenever `had_space` is; the async copy needs the extra flag because an
    exhausted chunk is not the end of the response).

Anything else — a changed constant, a reordered statement, a flag updated in one copy only — fails
the check loudly.  Prints the number of compared tokens.
"""
import os
import re
import sys

REPO = os.path.abspath(os.environ.get("VERIF_REPO", "/repo"))
SRC = os.path.join(REPO, "breakpad-symbols", "src", "sym_file", "mod.rs")


def die(msg):
    print(f"dupcheck_sym.py: {msg}")
    sys.exit(1)


def body_of(text, header_re):
    m = re.search(header_re, text)
    if not m:
        die(f"cannot find {header_re}")
    # the first `loop {` after the header
    i = text.index("loop {", m.end())
    j = i + len("loop {")
    depth = 1
    while depth:
        c = text[j]
        if c == "{":
            depth += 1
        elif c == "}":
            depth -= 1
        j += 1
    prologue = text[m.end():i]
    return prologue, text[i:j]


def tokens(code):
    code = re.sub(r"//[^\n]*", "", code)
    code = re.sub(r'trace!\((?:[^()"]|"(?:[^"\\]|\\.)*")*\);', "", code)
    return re.findall(r'"(?:[^"\\]|\\.)*"|[A-Za-z_][A-Za-z_0-9]*|\d+|==|!=|<=|>=|&&|\|\||\+=|->|=>|::|[^\s]', code)


def main():
    text = open(SRC, encoding="utf-8").read()
    pro_s, sync = body_of(text, r"pub fn parse<R: Read>\(")
    pro_a, asyn = body_of(text, r"pub async fn parse_async\(")
    # 1. remove the chunk-fetch block of the async copy (exact shape)
    fetch = re.search(
        r"let mut response_ended = false;\s*if input_reader\.is_empty\(\) \{\s*"
        r"let next_chunk = response\.chunk\(\)\.await\.map_err\(std::io::Error::other\)\?;\s*"
        r"response_ended = next_chunk\.is_none\(\);\s*"
        r"chunk = next_chunk\.unwrap_or_default\(\);\s*"
        r"slice = &chunk\[\.\.\];\s*"
        r"input_reader = &mut slice;\s*\}", re.sub(r"//[^\n]*", "", asyn))
    if not fetch:
        die("the chunk-fetch block of parse_async has an unexpected shape")
    asyn_nc = re.sub(r"//[^\n]*", "", asyn)
    asyn_nc = asyn_nc[:fetch.start()] + asyn_nc[fetch.end():]
    # 2. the end-of-input test
    a_test = "!tried_to_grow && !(had_space && response_ended)"
    s_test = "!tried_to_grow && !had_space"
    if asyn_nc.count(a_test) != 1:
        die(f"parse_async: expected exactly one `{a_test}`")
    if re.sub(r"//[^\n]*", "", sync).count(s_test) != 1:
        die(f"parse: expected exactly one `{s_test}`")
    asyn_nc = asyn_nc.replace(a_test, s_test)
    ts, ta = tokens(sync), tokens(asyn_nc)
    if ts != ta:
        for k, (x, y) in enumerate(zip(ts, ta)):
            if x != y:
                die(f"loop bodies differ at token {k}: parse has `{' '.join(ts[k:k+8])}` , parse_async has `{' '.join(ta[k:k+8])}`")
        die(f"loop bodies differ in length: {len(ts)} vs {len(ta)} tokens")
    # 3. the state both loops start from
    want = ["circular::Buffer::with_capacity(INITIAL_BUFFER_CAPACITY)", "SymbolParser::new()",
            "let mut fully_consumed = false;", "let mut tried_to_grow = false;", "let mut in_panic_recovery = false;",
            "let mut just_finished_recovering = false;", "let mut total_consumed = 0u64;"]
    for w in want:
        for name, pro in (("parse", pro_s), ("parse_async", pro_a)):
            if pro.count(w) != 1:
                die(f"{name}: expected `{w}` exactly once before the loop")
    print(f"dupcheck_sym: parse and parse_async loop bodies are token-identical outside the chunk-fetch block ({len(ts)} tokens)")


if __name__ == "__main__":
    main()
