#!/usr/bin/env python3
"""
translators/consts_process.py — regenerate lean/MdModel/Gen/ProcessConsts.lean from the sources of
the pipeline kernels that MdModel/Process.lean models (C03), and pin the SHAPE of every guarded
site the no-panic theorems rest on. Each pattern must match exactly the stated number of times
in the comment-stripped source; an unexpected shape is a failed tie (exit status 1), never a default.

  process_state.rs   `.filter(|m| m.len() >= N)` before the closure that indexes m[0], m[1], m[2]
                     and (unless `m.len() == 3`) m[3]                           -> limit_min_fields
  processor.rs       GUARD_MEMORY_MAX_SIZE = A << B                              -> guard_max
                     both adjacency tests use `checked_add(1) == Some(..)`;
                     `range.end - range.start < GUARD_MEMORY_MAX_SIZE`
                     `frame.instruction - unloaded.raw.base_of_image` inside
                     `unloaded_modules.modules_at_address(frame.instruction)`
  op_analysis.rs     `rsp.wrapping_sub(N)` for CALL | PUSH                        -> push_adjust
  walker.rs          win_frame_size = checked_add chain; FPO ebp slot `.checked_sub(N)?`;
                     `eip_address += N`, `eip_address + N`                      -> fpo_ebp_back, fpo_word
                     raSearchStart: `callee_ebp.checked_add(N)?` / `callee_esp.checked_add(win_frame_size(..)?)?`
  minidump.rs        both module readers skip/refuse `size_of_image == 0 ||
                     size_of_image as u64 > (u64::MAX - base_of_image)`; the three `memory_range()`
                     constructors (`checked_add(size)? - 1`, `address.0 > address.1`)
  op_analysis.rs     (a) the opcode lists the analysis distinguishes — `convert![…]` (AccessDerivableOpcode),
                     `is_privileged`, `is_division`, the three lists of `InstructionPointerUpdate::
                     from_instruction` — are written to lean/MdModel/Gen/OpAnalysisTables.lean
                     (MdProofs.C03 `op_tables_agree` decides that MdModel.OpAnalysis classifies exactly so);
                     (b) the code of `add_derivable_opcode_explicit_access` (the `match idx` table with the
                     nine panic! arms), `add_derivable_opcode_implicit_access`, the two operand loops,
                     `InstructionPointerUpdate::from_instruction`, `MemoryOperandInfo::try_from_operand`,
                     `MemoryAddressInfo::try_from_operand`, `get_registers` is pinned by hash of its
                     white-space-normalised text (any edit there must be re-read into the model)
  arg_recovery.rs    `fill_arguments` and `parse_x86_arg_list` pinned the same way; POINTER_WIDTH -> arg_pointer_width
  processor.rs       the consumer of the register set (`check_for_bitflips`) and `try_bit_flips` pinned the same way
  process_state.rs   the printers' expressions `base_address() + size() - 1` (x2),
                     `base_of_image + size_of_image as u64` (x2), `frame.instruction - module.raw.base_of_image`,
                     `frame.instruction - func_base`
"""
import os
import re
import sys

REPO = os.path.abspath(os.environ.get("VERIF_REPO", "/repo"))
HERE = os.path.dirname(os.path.abspath(__file__))
OUT = os.path.join(HERE, "..", "lean", "MdModel", "Gen", "ProcessConsts.lean")
OUT_TABLES = os.path.join(HERE, "..", "lean", "MdModel", "Gen", "OpAnalysisTables.lean")

# sha256 (first 16 hex digits) of the white-space-normalised, comment-stripped text of the code blocks
# the models MdModel/OpAnalysis.lean and MdModel/ArgRecovery.lean were read off (VERIF_PRINT_PINS=1 prints them)
PINS = {
    "add_derivable_opcode_accesses": "15220cd93d7344fb",
    "add_derivable_opcode_explicit_access": "d7c672b14b8cae3e",
    "add_derivable_opcode_implicit_access": "9215c3a8b4e24d6d",
    "add_underivable_opcode_accesses": "704705725e8ce75d",
    "add_underivable_opcode_explicit_access": "252d9d085631a496",
    "impl InstructionPointerUpdate": "f6feedd475a9c015",
    "impl MemoryOperandInfo": "c774b7541b78cfa9",
    "impl MemoryAddressInfo": "07a64eb00b89950e",
    "get_registers": "bf616e9c4e9ce668",
    "analyze_instruction": "ba32f5cb7fc0257f",
    "check_for_bitflips": "d1e630677e0d7268",
    "try_bit_flips": "3f926fdb13e418ef",
    "try_detect_null_pointer_in_disguise": "926a943cc58748a6",
    "fill_arguments": "620c6766e3c85ae8",
    "parse_x86_arg_list": "ab1a920efdd59154",
}


def die(msg):
    sys.stderr.write("consts_process.py: " + msg + "\n")
    sys.exit(1)


def read(rel):
    p = os.path.join(REPO, rel)
    if not os.path.exists(p):
        die(f"missing source file {p}")
    text = open(p, encoding="utf-8").read()
    text = re.sub(r"/\*.*?\*/", "", text, flags=re.S)
    text = re.sub(r"//[^\n]*", "", text)
    return text


def fn_block(text, header, fname):
    """the text of the item that starts with `header` up to its closing brace (brace matching)"""
    i = text.find(header)
    if i < 0 or text.find(header, i + 1) >= 0:
        die(f"{fname}: expected exactly one <{header}>")
    j = text.find("{", i)
    depth = 0
    k = j
    while k < len(text):
        if text[k] == "{":
            depth += 1
        elif text[k] == "}":
            depth -= 1
            if depth == 0:
                return text[i:k + 1]
        k += 1
    die(f"{fname}: unbalanced braces after <{header}>")


def pin(text, header, fname, expected):
    import hashlib
    body = re.sub(r"\s+", " ", fn_block(text, header, fname)).strip()
    h = hashlib.sha256(body.encode()).hexdigest()[:16]
    if os.environ.get("VERIF_PRINT_PINS"):
        print(f"PIN {fname} <{header}> {h}")
        return
    if h != expected:
        die(f"{fname}: the code of <{header}> changed (hash {h}, pinned {expected}); the Lean model "
            f"(MdModel/OpAnalysis.lean or MdModel/ArgRecovery.lean) was read off the pinned text: re-read it, then re-pin")


def names_in(text, fname, what):
    ns = re.findall(r"Opcode::([A-Z][A-Z0-9]*)", text)
    if not ns:
        die(f"{fname}: no opcode names in <{what}>")
    return ns


SHAPES = [0]


def one(text, pat, what, fname, count=1, flags=re.S):
    SHAPES[0] += 1
    ms = list(re.finditer(pat, text, flags))
    if len(ms) != count:
        die(f"{fname}: expected {count} match(es) of <{what}> /{pat}/, found {len(ms)}")
    return ms


def main():
    c = {}
    ps = read("minidump-processor/src/process_state.rs")
    m = one(ps, r"\.filter\(\|m\| m\.len\(\) >= (\d+)\)\s*\.map\(\|m\| \{\s*let u = if m\.len\(\) == 3 \{\s*\"n/a\"\.to_string\(\)\s*\} else \{\s*m\[3\]\.trim\(\)\.to_string\(\)\s*\};\s*"
            r"let name = m\[0\]\.trim\(\)\.to_string\(\);\s*let lim = LinuxProcLimit \{\s*soft: parse_limit\(&m\[1\]\),\s*hard: parse_limit\(&m\[2\]\),\s*unit: u,\s*\};",
            "limits: filter on the field count, then m[0..3]", "process_state.rs")[0]
    c["limit_min_fields"] = int(m.group(1))
    one(ps, r"\.filter\(\|l\| !l\.is_empty\(\)\)\s*\.skip\(1\)", "limits: empty lines dropped, header skipped", "process_state.rs")
    one(ps, r"l\.split\(\"  \"\)\s*\.filter\(\|x\| !x\.is_empty\(\)\)", "limits: split on two spaces", "process_state.rs")
    one(ps, r"module\.base_address\(\) \+ module\.size\(\) - 1,", "text printer: base + size - 1", "process_state.rs", count=2)
    one(ps, r"json_hex\(module\.raw\.base_of_image \+ module\.raw\.size_of_image as u64\)", "json printer: end_addr", "process_state.rs", count=2)
    one(ps, r"\.map\(\|module\| frame\.instruction - module\.raw\.base_of_image\)", "json printer: module_offset", "process_state.rs")
    one(ps, r"\.map\(\|func_base\| frame\.instruction - func_base\)", "json printer: function_offset", "process_state.rs")
    one(ps, r"let nearby = std::cmp::min\(self\.nearby_registers as usize, NEARBY_REGISTER\.len\(\)\) - 1;", "confidence: nearby index", "process_state.rs")
    one(ps, r"if self\.nearby_registers > 0 \{", "confidence: nearby guard", "process_state.rs")

    pr = read("minidump-processor/src/processor.rs")
    m = one(pr, r"const GUARD_MEMORY_MAX_SIZE: u64 = (\d+) << (\d+);", "guard page size limit", "processor.rs")[0]
    c["guard_max"] = int(m.group(1)) << int(m.group(2))
    one(pr, r"if other_range\.end\.checked_add\(1\) == Some\(range\.start\)\s*&& is_accessible\(&region\)\s*\{\s*return true;\s*\}",
        "guard: predecessor test with checked_add", "processor.rs")
    one(pr, r"if range\.end\.checked_add\(1\) == Some\(other_range\.start\) \{\s*return is_accessible\(&region\);\s*\}",
        "guard: successor test with checked_add", "processor.rs")
    one(pr, r"if !is_accessible\(&info\)\s*&& range\.end - range\.start < GUARD_MEMORY_MAX_SIZE\s*&& is_adjacent_to_accessible_memory\(\)",
        "guard: condition order", "processor.rs")
    one(pr, r"unloaded_modules\.modules_at_address\(frame\.instruction\)\s*\{\s*let offset = frame\.instruction - unloaded\.raw\.base_of_image;",
        "unloaded-module offset inside modules_at_address", "processor.rs")

    op = read("minidump-processor/src/op_analysis.rs")
    m = one(op, r"AccessDerivableOpcode::CALL \| AccessDerivableOpcode::PUSH => \{\s*if let Ok\(rsp\) = context\.get_regspec\(RegSpec::rsp\(\)\) \{\s*push_implicit_access\(rsp\.wrapping_sub\((\d+)\), MemoryAccessType::Write\);",
            "implicit access of push/call wraps", "op_analysis.rs")[0]
    c["push_adjust"] = int(m.group(1))
    one(op, r"let offset = \(instruction_pointer - memory\.base_address\(\)\) as usize;\s*&memory\.bytes\(\)\[offset\.\.\]", "instruction bytes slice", "op_analysis.rs")

    # ---- op_analysis.rs: opcode tables (generated) and the pinned decision logic
    tables = {}
    m = one(op, r"convert!\[\s*([A-Z0-9,\s]+?)\s*\]", "AccessDerivableOpcode::from_opcode convert! list", "op_analysis.rs")[0]
    tables["derivable_names"] = [x.strip() for x in m.group(1).split(",") if x.strip()]
    enum_body = fn_block(op, "enum AccessDerivableOpcode", "op_analysis.rs")
    enum_names = re.findall(r"^\s*([A-Z][A-Z0-9]*),", enum_body, flags=re.M)
    if sorted(enum_names) != sorted(tables["derivable_names"]):
        die("op_analysis.rs: enum AccessDerivableOpcode and the convert! list differ")
    tables["privileged_names"] = names_in(fn_block(op, "fn is_privileged(instruction: Instruction) -> bool", "op_analysis.rs"), "op_analysis.rs", "is_privileged")
    tables["division_names"] = names_in(fn_block(op, "fn is_division(instruction: Instruction) -> bool", "op_analysis.rs"), "op_analysis.rs", "is_division")
    ipf = fn_block(op, "impl InstructionPointerUpdate", "op_analysis.rs")
    m = one(ipf, r"match instruction\.opcode\(\) \{\s*((?:Opcode::[A-Z0-9]+\s*\|?\s*)+)=> \{\s*assert_eq!\(\s*instruction\.operand_count\(\),\s*1,", "ip update: call-like opcodes behind assert_eq!(operand_count(), 1)", "op_analysis.rs")[0]
    tables["calllike_names"] = names_in(m.group(1), "op_analysis.rs", "call-like")
    m = one(ipf, r"\}\s*((?:Opcode::[A-Z0-9]+\s*\|?\s*)+)=> \{\s*if let \(Ok\(rsp\), Some\(stack\)\) =", "ip update: ret-like opcodes", "op_analysis.rs")[0]
    tables["retlike_names"] = names_in(m.group(1), "op_analysis.rs", "ret-like")
    m = one(ipf, r"((?:Opcode::J[A-Z]+\s*\|?\s*)+)=> return Ok\(None\),", "ip update: jcc opcodes", "op_analysis.rs")[0]
    tables["jcc_names"] = names_in(m.group(1), "op_analysis.rs", "jcc")
    one(ipf, r"_ => return Ok\(Some\(InstructionPointerUpdate::NoUpdate\)\),", "ip update: default", "op_analysis.rs")
    m = one(op, r"fn is_only_gpf_when_non_canonical\(instruction: Instruction\) -> bool \{\s*let Some\(opcode\) = AccessDerivableOpcode::from_opcode\(instruction\.opcode\(\)\) else \{\s*return false;\s*\};\s*!matches!\(opcode, AccessDerivableOpcode::MOVAPS\)\s*\}", "is_only_gpf_when_non_canonical", "op_analysis.rs")
    pin(op, "fn add_derivable_opcode_accesses(", "op_analysis.rs", PINS.get("add_derivable_opcode_accesses"))
    pin(op, "fn add_derivable_opcode_explicit_access(", "op_analysis.rs", PINS.get("add_derivable_opcode_explicit_access"))
    pin(op, "fn add_derivable_opcode_implicit_access(", "op_analysis.rs", PINS.get("add_derivable_opcode_implicit_access"))
    pin(op, "fn add_underivable_opcode_accesses(", "op_analysis.rs", PINS.get("add_underivable_opcode_accesses"))
    pin(op, "fn add_underivable_opcode_explicit_access(", "op_analysis.rs", PINS.get("add_underivable_opcode_explicit_access"))
    pin(op, "impl InstructionPointerUpdate", "op_analysis.rs", PINS.get("impl InstructionPointerUpdate"))
    pin(op, "impl MemoryOperandInfo", "op_analysis.rs", PINS.get("impl MemoryOperandInfo"))
    pin(op, "impl MemoryAddressInfo", "op_analysis.rs", PINS.get("impl MemoryAddressInfo"))
    pin(op, "fn get_registers(i: Instruction)", "op_analysis.rs", PINS.get("get_registers"))
    pin(op, "pub fn analyze_instruction(", "op_analysis.rs", PINS.get("analyze_instruction"))
    pin(pr, "pub fn check_for_bitflips(", "processor.rs", PINS.get("check_for_bitflips"))
    pin(pr, "pub fn try_bit_flips(", "processor.rs", PINS.get("try_bit_flips"))
    pin(pr, "fn try_detect_null_pointer_in_disguise(", "processor.rs", PINS.get("try_detect_null_pointer_in_disguise"))

    # ---- the small sites of the review (notes/C03.md): time stamp, stat reporter, serialization context
    one(pr, r"time: SystemTime::UNIX_EPOCH \+ Duration::from_secs\(dump\.header\.time_date_stamp as u64\),", "dump time = epoch + u32 seconds", "processor.rs")
    fmt = read("minidump-common/src/format.rs")
    one(fn_block(fmt, "pub struct MINIDUMP_HEADER", "format.rs"), r"pub time_date_stamp: u32,", "time_date_stamp is a u32", "format.rs")
    one(pr, r"stats\.num_threads_processed \+= 1;", "stat counter (threads)", "processor.rs")
    one(pr, r"stats\.num_frames_processed \+= 1;", "stat counter (frames)", "processor.rs")
    crate_src = pr + ps + op + read("minidump-processor/src/arg_recovery.rs") + read("minidump-processor/src/lib.rs") + read("minidump-processor/src/evil.rs")
    for getter in ["get_thread_count", "get_frame_count", "drain_new_frames", "take_unwalked_result"]:
        one(crate_src, r"\b" + getter + r"\(", f"the asserting getter {getter} is only defined, never called inside the crate", "minidump-processor/src")
    one(ps, r"SERIALIZATION_CONTEXT", "uses of the serialization context (definition, Display, set_print_context)", "process_state.rs", count=3)
    one(ps, r"SERIALIZATION_CONTEXT\s*\.with\(\|ctx\| ctx\.borrow\(\)\.pointer_width\.unwrap_or\(PointerWidth::Unknown\)\);", "Display for Address: the borrow is a temporary", "process_state.rs")
    one(ps, r"SERIALIZATION_CONTEXT\.with\(\|ctx\| \{\s*ctx\.borrow_mut\(\)\.pointer_width = Some\(self\.system_info\.cpu\.pointer_width\(\)\);\s*\}\);", "set_print_context: the mutable borrow is a temporary", "process_state.rs")

    wk = read("breakpad-symbols/src/sym_file/walker.rs")
    one(wk, r"fn win_frame_size\(info: &StackInfoWin, grand_callee_param_size: u32\) -> Option<u32> \{\s*info\.local_size\s*\.checked_add\(info\.saved_register_size\)\?\s*\.checked_add\(grand_callee_param_size\)\s*\}",
        "win_frame_size is a checked_add chain", "walker.rs")
    m = one(wk, r"let ebp_address = \(callee_esp\s*\+ grand_callee_param_size as u64\s*\+ info\.saved_register_size as u64\)\s*\.checked_sub\((\d+)\)\?;",
            "FPO ebp slot is checked_sub", "walker.rs")[0]
    c["fpo_ebp_back"] = int(m.group(1))
    m = one(wk, r"let mut eip_address = callee_esp \+ frame_size;", "FPO return-address slot", "walker.rs")
    m = one(wk, r"eip_address \+= (\d+);", "FPO leftover return address", "walker.rs")[0]
    m2 = one(wk, r"let caller_esp = eip_address \+ (\d+);", "FPO caller esp", "walker.rs")[0]
    if m.group(1) != m2.group(1):
        die("walker.rs: the two FPO word sizes differ")
    c["fpo_word"] = int(m.group(1))
    m = one(wk, r"callee_ebp\.checked_add\((\d+)\)\?", "raSearchStart via ebp", "walker.rs")[0]
    c["win_ebp_ra"] = int(m.group(1))
    one(wk, r"callee_esp\.checked_add\(win_frame_size\(info, grand_callee_param_size\)\?\)\?", "raSearchStart via esp", "walker.rs")

    md = read("minidump/src/minidump.rs")
    one(md, r"if raw\.size_of_image == 0 \|\| raw\.size_of_image as u64 > \(u64::MAX - raw\.base_of_image\) \{",
        "module readers reject size 0 / base + size overflow", "minidump.rs", count=2)
    one(md, r"self\.raw\.base_address\.checked_add\(self\.raw\.region_size\)\? - 1,", "memory-info memory_range", "minidump.rs")
    one(md, r"if self\.raw\.region_size == 0 \{\s*return None;\s*\}", "memory-info memory_range: empty", "minidump.rs")
    one(md, r"if self\.map\.address\.0 > self\.map\.address\.1 \{\s*return None;\s*\}\s*Some\(Range::new\(self\.map\.address\.0, self\.map\.address\.1\)\)",
        "maps memory_range", "minidump.rs")

    ar = read("minidump-processor/src/arg_recovery.rs")
    one(ar, r"if read_head < caller_frame_pointer \{\s*let val = mem\.get_memory_at_address::<u32>\(read_head\);\s*read_head \+= POINTER_WIDTH;",
        "arg recovery read head", "arg_recovery.rs")
    m = one(ar, r"const POINTER_WIDTH: u64 = (\d+);", "arg recovery pointer width", "arg_recovery.rs")[0]
    c["arg_pointer_width"] = int(m.group(1))
    pin(ar, "pub fn fill_arguments(", "arg_recovery.rs", PINS.get("fill_arguments"))
    pin(ar, "fn parse_x86_arg_list(", "arg_recovery.rs", PINS.get("parse_x86_arg_list"))
    one(pr, r"if options\.recover_function_args \{\s*arg_recovery::fill_arguments\(stack, stack_memory\);\s*\}", "fill_arguments call site", "processor.rs")

    lines = ["/-", "  GENERATED by translators/consts_process.py from the pipeline sources — do not edit.", "-/",
             "namespace MdModel.Process.Consts", ""]
    for k in sorted(c):
        lines.append(f"def {k} : Nat := {c[k]}")
    lines += ["", "end MdModel.Process.Consts", ""]
    os.makedirs(os.path.dirname(OUT), exist_ok=True)
    new = "\n".join(lines)
    if not os.path.exists(OUT) or open(OUT).read() != new:
        open(OUT, "w").write(new)
    tl = ["/-", "  GENERATED by translators/consts_process.py from minidump-processor/src/op_analysis.rs — do not edit.",
          "  The opcode names op_analysis.rs lists; MdProofs.C03 `op_tables_agree` decides that", "  MdModel.OpAnalysis classifies opcodes exactly so.", "-/",
          "namespace MdModel.OpAnalysis.Tables", ""]
    for k in sorted(tables):
        tl.append(f"def {k} : List String := [" + ", ".join(f'"{n}"' for n in tables[k]) + "]")
    tl += ["", "end MdModel.OpAnalysis.Tables", ""]
    new = "\n".join(tl)
    if not os.path.exists(OUT_TABLES) or open(OUT_TABLES).read() != new:
        open(OUT_TABLES, "w").write(new)
    print(f"consts_process.py: {len(c)} constants and {len(tables)} opcode tables written, {SHAPES[0]} source shapes and {len(PINS)} code blocks pinned")


if __name__ == "__main__":
    main()
