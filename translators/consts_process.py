#!/usr/bin/env python3
"""
translators/consts_process.py — regenerate lean/MdModel/Gen/ProcessConsts.lean from the sources of
the pipeline kernels that MdModel/Process.lean models (C03), and pin the SHAPE of every guarded
site the no-panic theorems rest on. Each pattern must match exactly the stated number of times
in the comment-stripped source; an unexpected shape is a failed tie (exit status 1), never a default.

  process_state.rs   `.filter(|m| m.len() >= N)` before the closure that indexes m[0], m[1], m[2]
                     and (unless `m.len() == 3`) m[3]                           -> limit_min_fields
  processor.rs       GUARD_MEMORY_MAX_SIZE = A << B                              -> guard_max
                     both adjacency tests use `checked_add(1) == Some(..)`;
                     `range.end - range.start < GUARD_MEMORY_MAX_SIZE`
                     `frame.instruction - unloaded.raw.base_of_image` inside
                     `unloaded_modules.modules_at_address(frame.instruction)`
  op_analysis.rs     `rsp.wrapping_sub(N)` for CALL | PUSH                        -> push_adjust
  walker.rs          win_frame_size = checked_add chain; FPO ebp slot `.checked_sub(N)?`;
                     `eip_address += N`, `eip_address + N`                      -> fpo_ebp_back, fpo_word
                     raSearchStart: `callee_ebp.checked_add(N)?` / `callee_esp.checked_add(win_frame_size(..)?)?`
  minidump.rs        both module readers skip/refuse `size_of_image == 0 ||
                     size_of_image as u64 > (u64::MAX - base_of_image)`; the three `memory_range()`
                     constructors (`checked_add(size)? - 1`, `address.0 > address.1`)
  process_state.rs   the printers' expressions `base_address() + size() - 1` (x2),
                     `base_of_image + size_of_image as u64` (x2), `frame.instruction - module.raw.base_of_image`,
                     `frame.instruction - func_base`
"""
import os
import re
import sys

REPO = os.path.abspath(os.environ.get("VERIF_REPO", "/repo"))
HERE = os.path.dirname(os.path.abspath(__file__))
OUT = os.path.join(HERE, "..", "lean", "MdModel", "Gen", "ProcessConsts.lean")


def die(msg):
    sys.stderr.write("consts_process.py: " + msg + "\n")
    sys.exit(1)


def read(rel):
    p = os.path.join(REPO, rel)
    if not os.path.exists(p):
        die(f"missing source file {p}")
    text = open(p, encoding="utf-8").read()
    text = re.sub(r"/\*.*?\*/", "", text, flags=re.S)
    text = re.sub(r"//[^\n]*", "", text)
    return text


def one(text, pat, what, fname, count=1, flags=re.S):
    ms = list(re.finditer(pat, text, flags))
    if len(ms) != count:
        die(f"{fname}: expected {count} match(es) of <{what}> /{pat}/, found {len(ms)}")
    return ms


def main():
    c = {}
    ps = read("minidump-processor/src/process_state.rs")
    m = one(ps, r"\.filter\(\|m\| m\.len\(\) >= (\d+)\)\s*\.map\(\|m\| \{\s*let u = if m\.len\(\) == 3 \{\s*\"n/a\"\.to_string\(\)\s*\} else \{\s*m\[3\]\.trim\(\)\.to_string\(\)\s*\};\s*"
            r"let name = m\[0\]\.trim\(\)\.to_string\(\);\s*let lim = LinuxProcLimit \{\s*soft: parse_limit\(&m\[1\]\),\s*hard: parse_limit\(&m\[2\]\),\s*unit: u,\s*\};",
            "limits: filter on the field count, then m[0..3]", "process_state.rs")[0]
    c["limit_min_fields"] = int(m.group(1))
    one(ps, r"\.filter\(\|l\| !l\.is_empty\(\)\)\s*\.skip\(1\)", "limits: empty lines dropped, header skipped", "process_state.rs")
    one(ps, r"l\.split\(\"  \"\)\s*\.filter\(\|x\| !x\.is_empty\(\)\)", "limits: split on two spaces", "process_state.rs")
    one(ps, r"module\.base_address\(\) \+ module\.size\(\) - 1,", "text printer: base + size - 1", "process_state.rs", count=2)
    one(ps, r"json_hex\(module\.raw\.base_of_image \+ module\.raw\.size_of_image as u64\)", "json printer: end_addr", "process_state.rs", count=2)
    one(ps, r"\.map\(\|module\| frame\.instruction - module\.raw\.base_of_image\)", "json printer: module_offset", "process_state.rs")
    one(ps, r"\.map\(\|func_base\| frame\.instruction - func_base\)", "json printer: function_offset", "process_state.rs")
    one(ps, r"let nearby = std::cmp::min\(self\.nearby_registers as usize, NEARBY_REGISTER\.len\(\)\) - 1;", "confidence: nearby index", "process_state.rs")
    one(ps, r"if self\.nearby_registers > 0 \{", "confidence: nearby guard", "process_state.rs")

    pr = read("minidump-processor/src/processor.rs")
    m = one(pr, r"const GUARD_MEMORY_MAX_SIZE: u64 = (\d+) << (\d+);", "guard page size limit", "processor.rs")[0]
    c["guard_max"] = int(m.group(1)) << int(m.group(2))
    one(pr, r"if other_range\.end\.checked_add\(1\) == Some\(range\.start\)\s*&& is_accessible\(&region\)\s*\{\s*return true;\s*\}",
        "guard: predecessor test with checked_add", "processor.rs")
    one(pr, r"if range\.end\.checked_add\(1\) == Some\(other_range\.start\) \{\s*return is_accessible\(&region\);\s*\}",
        "guard: successor test with checked_add", "processor.rs")
    one(pr, r"if !is_accessible\(&info\)\s*&& range\.end - range\.start < GUARD_MEMORY_MAX_SIZE\s*&& is_adjacent_to_accessible_memory\(\)",
        "guard: condition order", "processor.rs")
    one(pr, r"unloaded_modules\.modules_at_address\(frame\.instruction\)\s*\{\s*let offset = frame\.instruction - unloaded\.raw\.base_of_image;",
        "unloaded-module offset inside modules_at_address", "processor.rs")

    op = read("minidump-processor/src/op_analysis.rs")
    m = one(op, r"AccessDerivableOpcode::CALL \| AccessDerivableOpcode::PUSH => \{\s*if let Ok\(rsp\) = context\.get_regspec\(RegSpec::rsp\(\)\) \{\s*push_implicit_access\(rsp\.wrapping_sub\((\d+)\), MemoryAccessType::Write\);",
            "implicit access of push/call wraps", "op_analysis.rs")[0]
    c["push_adjust"] = int(m.group(1))
    one(op, r"let offset = \(instruction_pointer - memory\.base_address\(\)\) as usize;\s*&memory\.bytes\(\)\[offset\.\.\]", "instruction bytes slice", "op_analysis.rs")

    wk = read("breakpad-symbols/src/sym_file/walker.rs")
    one(wk, r"fn win_frame_size\(info: &StackInfoWin, grand_callee_param_size: u32\) -> Option<u32> \{\s*info\.local_size\s*\.checked_add\(info\.saved_register_size\)\?\s*\.checked_add\(grand_callee_param_size\)\s*\}",
        "win_frame_size is a checked_add chain", "walker.rs")
    m = one(wk, r"let ebp_address = \(callee_esp\s*\+ grand_callee_param_size as u64\s*\+ info\.saved_register_size as u64\)\s*\.checked_sub\((\d+)\)\?;",
            "FPO ebp slot is checked_sub", "walker.rs")[0]
    c["fpo_ebp_back"] = int(m.group(1))
    m = one(wk, r"let mut eip_address = callee_esp \+ frame_size;", "FPO return-address slot", "walker.rs")
    m = one(wk, r"eip_address \+= (\d+);", "FPO leftover return address", "walker.rs")[0]
    m2 = one(wk, r"let caller_esp = eip_address \+ (\d+);", "FPO caller esp", "walker.rs")[0]
    if m.group(1) != m2.group(1):
        die("walker.rs: the two FPO word sizes differ")
    c["fpo_word"] = int(m.group(1))
    m = one(wk, r"callee_ebp\.checked_add\((\d+)\)\?", "raSearchStart via ebp", "walker.rs")[0]
    c["win_ebp_ra"] = int(m.group(1))
    one(wk, r"callee_esp\.checked_add\(win_frame_size\(info, grand_callee_param_size\)\?\)\?", "raSearchStart via esp", "walker.rs")

    md = read("minidump/src/minidump.rs")
    one(md, r"if raw\.size_of_image == 0 \|\| raw\.size_of_image as u64 > \(u64::MAX - raw\.base_of_image\) \{",
        "module readers reject size 0 / base + size overflow", "minidump.rs", count=2)
    one(md, r"self\.raw\.base_address\.checked_add\(self\.raw\.region_size\)\? - 1,", "memory-info memory_range", "minidump.rs")
    one(md, r"if self\.raw\.region_size == 0 \{\s*return None;\s*\}", "memory-info memory_range: empty", "minidump.rs")
    one(md, r"if self\.map\.address\.0 > self\.map\.address\.1 \{\s*return None;\s*\}\s*Some\(Range::new\(self\.map\.address\.0, self\.map\.address\.1\)\)",
        "maps memory_range", "minidump.rs")

    ar = read("minidump-processor/src/arg_recovery.rs")
    one(ar, r"if read_head < caller_frame_pointer \{\s*let val = mem\.get_memory_at_address::<u32>\(read_head\);\s*read_head \+= POINTER_WIDTH;",
        "arg recovery read head", "arg_recovery.rs")
    m = one(ar, r"const POINTER_WIDTH: u64 = (\d+);", "arg recovery pointer width", "arg_recovery.rs")[0]
    c["arg_pointer_width"] = int(m.group(1))

    lines = ["/-", "  GENERATED by translators/consts_process.py from the pipeline sources — do not edit.", "-/",
             "namespace MdModel.Process.Consts", ""]
    for k in sorted(c):
        lines.append(f"def {k} : Nat := {c[k]}")
    lines += ["", "end MdModel.Process.Consts", ""]
    os.makedirs(os.path.dirname(OUT), exist_ok=True)
    new = "\n".join(lines)
    if not os.path.exists(OUT) or open(OUT).read() != new:
        open(OUT, "w").write(new)
    print(f"consts_process.py: {len(c)} constants written, 27 source shapes pinned")


if __name__ == "__main__":
    main()
