#!/usr/bin/env python3
"""Translate (strict): the option handling of minidump-stackwalk/src/main.rs and the three
`ProcessorOptions` constructors of minidump-processor/src/processor.rs
-> lean/MdModel/Gen/CliOpts.lean  (data only; `MdModel.CliOpts` interprets it).

What is read off the sources (every item fails loudly when its source shape is not the expected one):
  * processor.rs: the fields of `pub struct ProcessorOptions` and, for `stable_basic`, `stable_all`,
    `unstable_all`, the literal value of every field (`None` / `true` / `false`);
  * main.rs: the `value_parser = [...]` list of `--features`; the arms of `match &*cli.features`;
    the statements that overload the defaults (`options.<f> = cli.<f>…;`, assignment vs `|=`);
    the order in which `--symbols-path` and positional paths are merged; the supplier selection
    (`if !cli.symbols_url.is_empty() {http…} else if !symbols_paths.is_empty() {simple…}`) with the
    argument order of `http_symbol_supplier`; the defaults of cache/tmp/timeout; the rule that
    enables the interactive UI.
"""
import os
import re
import sys

REPO = os.environ.get("VERIF_REPO", "/repo")
VERIF = os.path.dirname(os.path.dirname(os.path.abspath(__file__)))


def die(msg):
    sys.exit("cli_opts.py: " + msg)


def lean_str(s):
    return '"' + s.replace("\\", "\\\\").replace('"', '\\"') + '"'


proc = open(os.path.join(REPO, "minidump-processor", "src", "processor.rs"), encoding="utf-8").read()
main = open(os.path.join(REPO, "minidump-stackwalk", "src", "main.rs"), encoding="utf-8").read()

# ---------------------------------------------------------------- ProcessorOptions: fields
m = re.search(r"pub struct ProcessorOptions<'a> \{\n(.*?)\n\}\n", proc, flags=re.S)
if not m:
    die("`pub struct ProcessorOptions<'a> {` not found in processor.rs")
fields = re.findall(r"^    pub (\w+): ([^,\n]+),$", m.group(1), flags=re.M)
EXPECTED_FIELDS = [("evil_json", "Option<&'a Path>"), ("recover_function_args", "bool"),
                   ("stat_reporter", "Option<&'a PendingProcessorStats>")]
if fields != EXPECTED_FIELDS:
    die(f"ProcessorOptions has fields {fields}, the model knows {EXPECTED_FIELDS}: extend MdModel.CliOpts")

# ---------------------------------------------------------------- the three constructors
ctors = {}
for name in ("stable_basic", "stable_all", "unstable_all"):
    mm = re.search(r"pub fn " + name + r"\(\) -> Self \{\n\s*ProcessorOptions \{\n(.*?)\n\s*\}\n\s*\}\n", proc, flags=re.S)
    if not mm:
        die(f"constructor `pub fn {name}() -> Self {{ ProcessorOptions {{ … }} }}` not found")
    vals = re.findall(r"^\s*(\w+): (\w+),$", mm.group(1), flags=re.M)
    if len(vals) != len(mm.group(1).strip().split("\n")):
        die(f"{name}: a field initialiser is not of the form `field: literal,`:\n{mm.group(1)}")
    d = dict(vals)
    if sorted(d) != sorted(f for f, _ in EXPECTED_FIELDS):
        die(f"{name}: initialises {sorted(d)}")
    if d["evil_json"] != "None" or d["stat_reporter"] != "None":
        die(f"{name}: evil_json/stat_reporter are expected to be None, got {d}")
    if d["recover_function_args"] not in ("true", "false"):
        die(f"{name}: recover_function_args = {d['recover_function_args']}")
    ctors[name] = d["recover_function_args"]
others = set(re.findall(r"pub fn (\w+)\(\) -> Self \{\n\s*ProcessorOptions \{", proc)) - set(ctors)
if others:
    die(f"unknown ProcessorOptions constructors {sorted(others)}")

# ---------------------------------------------------------------- --features: accepted values and match arms
m = re.search(r'#\[arg\(long, default_value = "([\w-]+)"\)\]\n\s*#\[arg\(value_parser = \[([^\]]*)\]\)\]\n\s*#\[arg\(verbatim_doc_comment\)\]\n\s*features: String,', main)
if not m:
    die("the `features: String` argument with default_value/value_parser attributes not found")
feat_default = m.group(1)
feat_values = re.findall(r'"([\w-]+)"', m.group(2))
if not feat_values or ", ".join(f'"{v}"' for v in feat_values) != m.group(2).strip():
    die(f"value_parser list of --features not a list of string literals: {m.group(2)}")

m = re.search(r"let mut options = match &\*cli\.features \{\n(.*?)\n    \};", main, flags=re.S)
if not m:
    die("`let mut options = match &*cli.features {` not found")
arms = []
fallback = None
for line in m.group(1).split("\n"):
    line = line.strip()
    mm = re.fullmatch(r'"([\w-]+)" => ProcessorOptions::(\w+)\(\),', line)
    if mm:
        if mm.group(2) not in ctors:
            die(f"arm {line}: unknown constructor")
        arms.append((mm.group(1), mm.group(2)))
        continue
    mm = re.fullmatch(r'_ => (unimplemented|panic|unreachable|todo)!\((.*)\),', line)
    if mm and fallback is None:
        fallback = mm.group(1)
        continue
    die(f"unexpected arm in `match &*cli.features`: {line}")
if fallback is None:
    die("no `_ => unimplemented!(…)` arm")

# ---------------------------------------------------------------- overloads of the defaults
m = re.search(r"// Now overload the defaults\n(.*?)\n\n", main, flags=re.S)
if not m:
    die("`// Now overload the defaults` block not found")
overrides = []
for line in m.group(1).split("\n"):
    line = line.strip()
    mm = re.fullmatch(r"options\.(\w+) (=|\|=) cli\.(\w+)(\.as_deref\(\))?;", line)
    if not mm or mm.group(1) != mm.group(3):
        die(f"unexpected statement in the overload block: {line}")
    if (mm.group(1) == "evil_json") != bool(mm.group(4)):
        die(f"unexpected conversion in: {line}")
    overrides.append((mm.group(1), "assign" if mm.group(2) == "=" else "orAssign"))
if sorted(f for f, _ in overrides) != ["evil_json", "recover_function_args"]:
    die(f"overloaded fields: {overrides}")
# nothing else may write to `options` except the stat reporter
other_writes = [l.strip() for l in re.findall(r"^\s*options\.\w+ .*$", main, flags=re.M)
                if not re.match(r"\s*options\.(evil_json|recover_function_args) (=|\|=) cli\.", l)]
if other_writes != ["options.stat_reporter = processor_stats.as_ref();"]:
    die(f"unexpected writes to `options`: {other_writes}")

# ---------------------------------------------------------------- interactive rule
m = re.search(r"let interactive_enabled = (.*?);\n", main)
if not m:
    die("`let interactive_enabled = …;` not found")
atoms = [a.strip() for a in m.group(1).split("&&")]
ATOM = {"!json": "notJson", "!cli.no_interactive": "notNoInteractive", "cli.output_file.is_none()": "noOutputFile",
        "json": "json", "cli.no_interactive": "noInteractive", "cli.output_file.is_some()": "outputFile"}
for a in atoms:
    if a not in ATOM:
        die(f"interactive rule: unknown conjunct `{a}` in `{m.group(1)}`")
if not re.search(r"if interactive_enabled \{\n(?:.*\n)*?\s*options\.stat_reporter = processor_stats\.as_ref\(\);\n\s*\}", main):
    die("the stat reporter is not set under `if interactive_enabled { … }`")

# ---------------------------------------------------------------- symbol paths and supplier selection
m = re.search(r"let mut symbols_paths = cli\.(\w+);\n\s*symbols_paths\.extend\(cli\.(\w+)\);\n", main)
if not m:
    die("`let mut symbols_paths = cli.X; symbols_paths.extend(cli.Y);` not found")
SRC = {"symbols_path": "named", "symbols_path_legacy": "legacy"}
if m.group(1) not in SRC or m.group(2) not in SRC or m.group(1) == m.group(2):
    die(f"symbol path merge: {m.group(1)}, {m.group(2)}")
merge = [SRC[m.group(1)], SRC[m.group(2)]]
if len(re.findall(r"symbols_paths\s*(=|\.extend|\.push|\.clear|\.retain|\.truncate)", main)) != 2:
    die("symbols_paths is modified somewhere else")

m = re.search(r"let symbols_cache = cli\s*\.symbols_cache\s*\.unwrap_or_else\(\|\| temp_dir\.join\(\"([\w-]+)\"\)\);", main)
if not m:
    die("symbols_cache default not found")
cache_leaf = m.group(1)
if "let symbols_tmp = cli.symbols_tmp.unwrap_or(temp_dir);" not in main:
    die("symbols_tmp default not found")
if "let temp_dir = std::env::temp_dir();" not in main:
    die("temp_dir source not found")
m = re.search(r"#\[arg\(long, default_value_t = (\d+)\)\]\n\s*symbols_download_timeout_secs: u64,", main)
if not m:
    die("symbols_download_timeout_secs default not found")
timeout_default = int(m.group(1))
if "let timeout = Duration::from_secs(cli.symbols_download_timeout_secs);" not in main:
    die("timeout conversion not found")

m = re.search(
    r"if !cli\.symbols_url\.is_empty\(\) \{\n\s*provider\.add\(Box::new\(Symbolizer::new\(http_symbol_supplier\(\n"
    r"\s*(\w+),\n\s*cli\.symbols_url,\n\s*(\w+),\n\s*(\w+),\n\s*(\w+),\n\s*\)\)\)\);\n"
    r"\s*\} else if !symbols_paths\.is_empty\(\) \{\n\s*provider\.add\(Box::new\(Symbolizer::new\(simple_symbol_supplier\(\n"
    r"\s*(\w+),\n\s*\)\)\)\);\n\s*\}\n", main)
if not m:
    die("supplier selection (`if !cli.symbols_url.is_empty() {…http…} else if !symbols_paths.is_empty() {…simple…}`) not found")
http_args = [m.group(1), m.group(2), m.group(3), m.group(4)]
if http_args != ["symbols_paths", "symbols_cache", "symbols_tmp", "timeout"] or m.group(5) != "symbols_paths":
    die(f"supplier arguments: http({http_args}), simple({m.group(5)})")
if len(re.findall(r"provider\.add\(", main)) != 3:
    die("provider.add is called an unexpected number of times")
m = re.search(r"if cli\.use_local_debuginfo \{\n(.*?)\n            \}\n", main, flags=re.S)
if not m or "DebugInfoSymbolProvider::new(&system_info, &modules)" not in m.group(1) or "std::process::exit(1)" not in m.group(1):
    die("`if cli.use_local_debuginfo { … }` block not of the expected shape")
# the CPU rule in front of the provider (fix fb88910): `if !matches!(system_info.cpu, A | B) { error!(…); exit(1) }`
mm = re.search(r"if !matches!\(\s*system_info\.cpu,\s*((?:minidump::system_info::Cpu::\w+\s*\|?\s*)+)\) \{\s*error!\((.*?)\);\s*std::process::exit\(1\);\s*\}", m.group(1), flags=re.S)
if mm:
    local_cpus = re.findall(r"Cpu::(\w+)", mm.group(1))
    if m.group(1).index("if !matches!(") > m.group(1).index("DebugInfoSymbolProvider::new("):
        die("the CPU rule comes after the provider is built")
else:
    if "matches!" in m.group(1) or "system_info.cpu" in m.group(1):
        die("CPU rule of --use-local-debuginfo of an unexpected shape")
    local_cpus = None   # no rule: every CPU reaches DebugInfoSymbolProvider::new
# which CPUs the provider itself supports (minidump-unwind/src/symbols/debuginfo.rs)
dbg = open(os.path.join(REPO, "minidump-unwind", "src", "symbols", "debuginfo.rs"), encoding="utf-8").read()
md = re.search(r"let \(arch, mut unwinder\) = match system_info\.cpu \{\n(.*?)\n        \};", dbg, flags=re.S)
if not md:
    die("`let (arch, mut unwinder) = match system_info.cpu {` not found in debuginfo.rs")
dbg_cpus = []
dbg_fallback = None
for line in md.group(1).split("\n"):
    line = line.strip()
    a = re.fullmatch(r"Cpu::(\w+) => \(Architecture::\w+, UnwinderImpl::\w+\(\)\),", line)
    if a:
        dbg_cpus.append(a.group(1))
        continue
    a = re.fullmatch(r"_ => (unimplemented|panic|todo|unreachable)!\(.*\),", line)
    if a and dbg_fallback is None:
        dbg_fallback = "panic"
        continue
    die(f"unexpected arm in debuginfo.rs's CPU match: {line}")
if dbg_fallback is None:
    die("debuginfo.rs: the CPU match has no panicking fallback any more — revisit the model")
# the debuginfo provider is added BEFORE the symbolizer
if main.index("DebugInfoSymbolProvider::new(") > main.index("http_symbol_supplier(\n"):
    die("order of providers changed")

# ---------------------------------------------------------------- emit
L = []
L.append("/- GENERATED by translators/cli_opts.py from minidump-processor/src/processor.rs and")
L.append("   minidump-stackwalk/src/main.rs — do not edit. -/")
L.append("namespace MdModel.Cli.Gen")
L.append("")
L.append("/-- `recover_function_args` as set by each constructor (`evil_json` and `stat_reporter` are `None` in all) -/")
for n in ("stable_basic", "stable_all", "unstable_all"):
    L.append(f"def ctorRecover_{n} : Bool := {ctors[n]}")
L.append("")
L.append("/-- `value_parser` of `--features` -/")
L.append("def featureValues : List String := [" + ", ".join(lean_str(v) for v in feat_values) + "]")
L.append(f"def featureDefault : String := {lean_str(feat_default)}")
L.append("/-- arms of `match &*cli.features` (value, constructor); the fallback arm panics -/")
L.append("def featureArms : List (String × String) := [" + ", ".join(f"({lean_str(a)}, {lean_str(b)})" for a, b in arms) + "]")
L.append("")
L.append("/-- `// Now overload the defaults`: (field, `assign` | `orAssign`) -/")
L.append("def overrides : List (String × String) := [" + ", ".join(f"({lean_str(a)}, {lean_str(b)})" for a, b in overrides) + "]")
L.append("")
L.append("/-- conjuncts of `interactive_enabled` -/")
L.append("def interactiveRule : List String := [" + ", ".join(lean_str(ATOM[a]) for a in atoms) + "]")
L.append("")
L.append("/-- `symbols_paths = cli.<first>; symbols_paths.extend(cli.<second>)` -/")
L.append("def symbolPathMerge : List String := [" + ", ".join(lean_str(x) for x in merge) + "]")
L.append(f"def cacheLeaf : String := {lean_str(cache_leaf)}")
L.append("")
L.append("/-- `--use-local-debuginfo`: the CPUs main.rs lets through to the debuginfo provider (`none`: no rule, all) -/")
L.append("def localDebuginfoCpus : Option (List String) := " + ("none" if local_cpus is None else "some [" + ", ".join(lean_str(c) for c in local_cpus) + "]"))
L.append("/-- the CPUs `DebugInfoSymbolProviderBuilder::build` handles; every other one is `unimplemented!()` -/")
L.append("def debuginfoSupportedCpus : List String := [" + ", ".join(lean_str(c) for c in dbg_cpus) + "]")
L.append(f"def timeoutDefault : Nat := {timeout_default}")
L.append("")
L.append("end MdModel.Cli.Gen")
out = "\n".join(L) + "\n"
path = os.path.join(VERIF, "lean", "MdModel", "Gen", "CliOpts.lean")
os.makedirs(os.path.dirname(path), exist_ok=True)
if not os.path.exists(path) or open(path).read() != out:
    open(path, "w").write(out)
print(f"cli_opts.py: {len(feat_values)} feature values, {len(arms)} arms, overrides {overrides}, merge {merge}, interactive {atoms}, local-debuginfo cpus {local_cpus} (provider: {dbg_cpus})")
