#!/usr/bin/env python3
"""Translate (strict): the raw-dump composition of minidump-stackwalk and the printable stream types
of the minidump crate -> lean/MdModel/Gen/CliDump.lean (data only; `MdModel.CliDump` interprets it).

  (A) minidump/src/minidump.rs: every `impl MinidumpStream for T` with its `STREAM_TYPE`, whether
      `T` has an inherent `pub fn print`, and the variants of `UnifiedMemoryList`.
      This is the INDEPENDENT list "which stream types can the library print".
  (B) minidump-stackwalk/src/main.rs, `fn print_minidump_dump`: the ordered list of statements, each
      one of a small set of shapes (header, preload of a stream into a variable, the unified-memory
      selection, `if let Ok(x) = dump.get_stream::<T>() { x.print(output, …)?; }`,
      `if let Some(x) = VAR { x.print(output, …)?; }`, the crashpad `match` with its invalid-data note,
      the loop over the raw Linux streams). Any other statement makes the translation fail.
"""
import os
import re
import sys

REPO = os.environ.get("VERIF_REPO", "/repo")
VERIF = os.path.dirname(os.path.dirname(os.path.abspath(__file__)))


def die(msg):
    sys.exit("cli_streams.py: " + msg)


def lean_str(s):
    return '"' + s.replace("\\", "\\\\").replace('"', '\\"') + '"'


def lean_list(xs):
    return "[" + ", ".join(lean_str(x) for x in xs) + "]"


# ------------------------------------------------------------------ (A) the minidump crate
src = open(os.path.join(REPO, "minidump", "src", "minidump.rs"), encoding="utf-8").read()
lines = src.split("\n")

streams = []  # (rust type, STREAM_TYPE name)
for i, l in enumerate(lines):
    m = re.match(r"impl(?:<[^>]*>)? MinidumpStream<'(?:a|_)> for (\w+)(?:<[^>]*>)? \{$", l)
    if not m:
        if re.match(r"impl.*\bMinidumpStream\b.*\bfor\b", l) and "mod test" not in l and not l.startswith(" "):
            die(f"minidump.rs:{i+1}: MinidumpStream impl of an unexpected shape: {l}")
        continue
    m2 = re.match(r"\s*const STREAM_TYPE: u32 = MINIDUMP_STREAM_TYPE::(\w+) as u32;$", lines[i + 1])
    if not m2:
        die(f"minidump.rs:{i+2}: expected `const STREAM_TYPE: u32 = MINIDUMP_STREAM_TYPE::X as u32;` after {l}")
    streams.append((m.group(1), m2.group(1)))
if len(streams) < 20:
    die(f"only {len(streams)} MinidumpStream impls found")
if len(set(t for t, _ in streams)) != len(streams) or len(set(s for _, s in streams)) != len(streams):
    die("duplicate stream type / rust type among the MinidumpStream impls")

# inherent impl blocks (top level, `impl<..> T<..> {` … line `}`) and whether they contain `pub fn print<`
has_print = set()
i = 0
while i < len(lines):
    m = re.match(r"impl(?:<[^>]*>)? (\w+)(?:<[^>]*>)? \{$", lines[i])
    if m:
        j = i + 1
        while j < len(lines) and lines[j] != "}":
            if re.match(r"    pub fn print<", lines[j]):
                has_print.add(m.group(1))
            j += 1
        i = j
    i += 1
printable = [t for t, _ in streams if t in has_print]
if len(printable) < 12:
    die(f"only {len(printable)} printable stream types found: {printable}")

m = re.search(r"pub enum UnifiedMemoryList<'a> \{\n((?:\s+\w+\(\w+<'a>\),\n)+)\}", src)
if not m:
    die("`pub enum UnifiedMemoryList<'a> { V(T<'a>), … }` not found")
unified = re.findall(r"(\w+)\((\w+)<'a>\),", m.group(1))
for _, t in unified:
    if t not in dict(streams):
        die(f"UnifiedMemoryList wraps {t}, which is not a stream type")

# ------------------------------------------------------------------ (B) print_minidump_dump
main = open(os.path.join(REPO, "minidump-stackwalk", "src", "main.rs"), encoding="utf-8").read()
m = re.search(r"^fn print_minidump_dump<'a, T, W>\(\n.*?\n\{\n(.*?)\n\}\n", main, flags=re.S | re.M)
if not m:
    die("fn print_minidump_dump<'a, T, W>( … ) { … } not found")
body = m.group(1)
# drop comments, then parse statement by statement
body = re.sub(r"^\s*//.*\n", "", body, flags=re.M)

STREAM_TYPES = dict(streams)
stmts = []  # (kind, name, args)
pos = 0


def skip_ws(p):
    while p < len(body) and body[p] in " \n\t":
        p += 1
    return p


PATTERNS = [
    ("header", re.compile(r"dump\.print\(output\)\?;")),
    ("preload", re.compile(r"let (?:mut )?(\w+) = dump\.get_stream::<(\w+)(?:<'_>)?>\(\)\.ok\(\);")),
    ("unify", re.compile(r"let (\w+) = (\w+)((?:\s*\.\w+\((?:\|\| |\w+::\w+|[^()]*\([^()]*\)[^()]*|[^()]*)*\))+);")),
    ("stream", re.compile(r"if let Ok\((\w+)\) = dump\.get_stream::<(\w+)(?:<'_>)?>\(\) \{\s*(\w+)\.print\(\s*([^;]*?)\s*\)\?;\s*\}")),
    ("var", re.compile(r"if let Some\((\w+)\) = (\w+) \{\s*(\w+)\.print\(\s*([^;]*?)\s*\)\?;\s*\}")),
    ("streamOrNote", re.compile(
        r"match dump\.get_stream::<(\w+)>\(\) \{\s*Ok\((\w+)\) => (\w+)\.print\(output\)\?,\s*"
        r"Err\(Error::StreamNotFound\) => \(\),\s*Err\(_\) => write!\(output, \"(\w+) cannot print invalid data\"\)\?,\s*\}")),
    ("macro", re.compile(r"macro_rules! streams \{.*?\n    \}\n", flags=re.S)),
    ("rawfn", re.compile(r"fn print_raw_stream<T: Write>\(name: &str, contents: &\[u8\], out: &mut T\) -> std::io::Result<\(\)> \{.*?\n    \}\n", flags=re.S)),
    ("rawloop", re.compile(
        r"for &\(stream, name\) in streams!\(\s*((?:\w+,?\s*)+)\) \{\s*if let Ok\(contents\) = dump\.get_raw_stream\(stream as u32\) \{\s*"
        r"print_raw_stream\(name, contents, output\)\?;\s*\}\s*\}")),
    ("ok", re.compile(r"Ok\(\(\)\)")),
]


def parse_args(argtext, what):
    """`output, unified_memory.as_ref(), system_info.as_ref(), misc_info.as_ref(), brief,` -> names after `output`"""
    args = [a.strip() for a in argtext.replace("\n", " ").split(",") if a.strip()]
    if not args or args[0] != "output":
        die(f"{what}: first argument of print is not `output`: {argtext}")
    out = []
    for a in args[1:]:
        mm = re.fullmatch(r"(\w+)\.as_ref\(\)", a)
        if mm:
            out.append(mm.group(1))
        elif a == "brief":
            out.append("brief")
        else:
            die(f"{what}: unexpected print argument `{a}`")
    return out


def parse_unify(var, first, chain):
    """memory64_list .take() .map(UnifiedMemoryList::Memory64) .or_else(|| memory_list.take().map(UnifiedMemoryList::Memory))
    -> ops: [take|move, A, VariantA, orElse|or, take|move, B, VariantB]"""
    text = re.sub(r"\s+", "", first + chain)
    mm = re.fullmatch(
        r"(\w+)(\.take\(\))?\.map\(UnifiedMemoryList::(\w+)\)\.(or_else\(\|\||or\()(\w+)(\.take\(\))?\.map\(UnifiedMemoryList::(\w+)\)\)", text)
    if not mm:
        die(f"unified-memory selection of an unexpected shape: let {var} = {first}{chain}")
    return ["take" if mm.group(2) else "move", mm.group(1), mm.group(3),
            "orElse" if mm.group(4).startswith("or_else") else "or",
            "take" if mm.group(6) else "move", mm.group(5), mm.group(7)]


seen_ok = False
while True:
    pos = skip_ws(pos)
    if pos >= len(body):
        break
    for kind, pat in PATTERNS:
        mm = pat.match(body, pos)
        if mm:
            break
    else:
        die("statement of an unexpected shape in print_minidump_dump:\n" + body[pos:pos + 300])
    if seen_ok:
        die("statements after the final Ok(())")
    if kind == "header":
        stmts.append(("header", "", []))
    elif kind == "preload":
        if mm.group(2) not in STREAM_TYPES:
            die(f"preload of unknown stream type {mm.group(2)}")
        stmts.append(("preload", mm.group(1), [mm.group(2)]))
    elif kind == "unify":
        stmts.append(("unify", mm.group(1), parse_unify(mm.group(1), mm.group(2), mm.group(3))))
    elif kind == "stream":
        if mm.group(1) != mm.group(3):
            die(f"`if let Ok({mm.group(1)})` prints `{mm.group(3)}`")
        if mm.group(2) not in STREAM_TYPES:
            die(f"get_stream of unknown type {mm.group(2)}")
        stmts.append(("stream", mm.group(2), parse_args(mm.group(4), mm.group(2))))
    elif kind == "var":
        if mm.group(1) != mm.group(3):
            die(f"`if let Some({mm.group(1)})` prints `{mm.group(3)}`")
        stmts.append(("var", mm.group(2), parse_args(mm.group(4), mm.group(2))))
    elif kind == "streamOrNote":
        if not (mm.group(1) == mm.group(4) and mm.group(2) == mm.group(3)) or mm.group(1) not in STREAM_TYPES:
            die("crashpad match of an unexpected shape")
        stmts.append(("streamOrNote", mm.group(1), []))
    elif kind == "rawloop":
        names = [n.strip() for n in mm.group(1).replace("\n", " ").split(",") if n.strip()]
        for n in names:
            stmts.append(("raw", n, []))
    elif kind == "ok":
        seen_ok = True
    pos = mm.end()
if not seen_ok:
    die("no final Ok(())")
if stmts[0][0] != "header":
    die("the first statement is not dump.print(output)?")
if "\\\\0\\n" not in body or 'writeln!(out, "Stream {name}:")' not in body:
    die("print_raw_stream body changed")

# ------------------------------------------------------------------ emit
L = ["/- GENERATED by translators/cli_streams.py from minidump/src/minidump.rs and",
     "   minidump-stackwalk/src/main.rs (fn print_minidump_dump) — do not edit. -/",
     "namespace MdModel.Cli.Gen", "",
     "/-- every `impl MinidumpStream for T`: (T, STREAM_TYPE, T has an inherent `pub fn print`) -/",
     "def streamTypes : List (String × String × Bool) := ["]
L.append(",\n".join(f"  ({lean_str(t)}, {lean_str(s)}, {'true' if t in has_print else 'false'})" for t, s in streams) + "]")
L += ["", "/-- `enum UnifiedMemoryList`: (variant, wrapped stream type) -/",
      "def unifiedVariants : List (String × String) := [" + ", ".join(f"({lean_str(v)}, {lean_str(t)})" for v, t in unified) + "]",
      "", "/-- the statements of `print_minidump_dump` in source order: (kind, name, arguments) -/",
      "def dumpStmts : List (String × String × List String) := ["]
L.append(",\n".join(f"  ({lean_str(k)}, {lean_str(n)}, {lean_list(a)})" for k, n, a in stmts) + "]")
L += ["", "end MdModel.Cli.Gen", ""]
out = "\n".join(L)
path = os.path.join(VERIF, "lean", "MdModel", "Gen", "CliDump.lean")
os.makedirs(os.path.dirname(path), exist_ok=True)
if not os.path.exists(path) or open(path).read() != out:
    open(path, "w").write(out)
print(f"cli_streams.py: {len(streams)} stream types ({len(printable)} printable), {len(stmts)} statements")
