#!/usr/bin/env python3
"""
translators/regs.py — C18: regenerate lean/MdModel/Gen/Regs.lean from the CURRENT text of

    $VERIF_REPO/minidump/src/context.rs          (nine `impl CpuContext for md::CONTEXT_*` blocks,
                                                   `sparc_alias_index`, `enum MinidumpRawContext`,
                                                   the `MinidumpContext` dispatch methods)
    $VERIF_REPO/minidump-common/src/format.rs    (`struct CONTEXT_*` field lists, `*RegisterNumbers`)

The translator is deliberately strict: every construct is matched against the exact shape it knows;
anything else (a new method in an impl block, an arm that is not `"name" => self.field[idx]`, an edited
trait default, a tenth context, a dispatch arm calling something else …) is a FAILED TIE (exit 1), never
a silent default.  What it emits is purely syntactic (names, cells `field[idx]`, symbolic enum indices,
alias arms, rule shapes); all interpretation (enum resolution, bounds, lookups) happens in
lean/MdModel/Regs.lean, and the theorems in lean/MdProofs/C18.lean are re-checked against the new tables.

The parts of context.rs that are modelled BY HAND in MdModel/Regs.lean (the provided methods of `trait
CpuContext`, `default_memoize_register`, the `CpuRegisters` iterator, `MinidumpContext::{get_register,
registers, valid_registers, register_size}`) are pinned by their exact comment-stripped,
whitespace-normalised text below: if they change, the translator fails and the model has to be
re-read against the new text.
"""
import os
import re
import sys

REPO = os.path.abspath(os.environ.get("VERIF_REPO", "/repo"))
HERE = os.path.dirname(os.path.abspath(__file__))
OUT = os.path.join(os.path.dirname(HERE), "lean", "MdModel", "Gen", "Regs.lean")
CONTEXT_RS = os.path.join(REPO, "minidump", "src", "context.rs")
FORMAT_RS = os.path.join(REPO, "minidump-common", "src", "format.rs")

# Context types, in the order used everywhere (Lean constructor = suffix of CONTEXT_*).
EXPECTED_CTX = ["X86", "AMD64", "ARM", "ARM64_OLD", "ARM64", "PPC", "PPC64", "MIPS", "SPARC"]


class Fail(Exception):
    pass


def fail(msg):
    raise Fail(msg)


# --------------------------------------------------------------------------------------- lexing

def strip_comments(src):
    """Remove // line comments and /* */ block comments, respecting string and byte/char literals."""
    out = []
    i, n = 0, len(src)
    while i < n:
        c = src[i]
        if c == '"':
            j = i + 1
            while j < n and src[j] != '"':
                j += 2 if src[j] == "\\" else 1
            out.append(src[i:j + 1])
            i = j + 1
        elif c == "r" and src.startswith('r#"', i):
            j = src.index('"#', i + 3)
            out.append(src[i:j + 2])
            i = j + 2
        elif c == "'" and i + 2 < n and (src[i + 2] == "'" or (src[i + 1] == "\\" and i + 3 < n and src[i + 3] == "'")):
            j = i + (3 if src[i + 1] == "\\" else 2)
            out.append(src[i:j + 1])
            i = j + 1
        elif src.startswith("//", i):
            j = src.find("\n", i)
            i = n if j < 0 else j
        elif src.startswith("/*", i):
            j = src.index("*/", i + 2)
            i = j + 2
        else:
            out.append(c)
            i += 1
    return "".join(out)


def norm(s):
    """whitespace-normalised text (single spaces, trimmed)"""
    return re.sub(r"\s+", " ", s).strip()


def block_at(src, open_idx):
    """src[open_idx] == '{' -> index just past the matching '}' (string literals respected)."""
    assert src[open_idx] == "{"
    depth, i, n = 0, open_idx, len(src)
    while i < n:
        c = src[i]
        if c == '"':
            i += 1
            while src[i] != '"':
                i += 2 if src[i] == "\\" else 1
        elif c == "'" and i + 2 < n and src[i + 2] == "'":
            i += 2
        elif c == "{":
            depth += 1
        elif c == "}":
            depth -= 1
            if depth == 0:
                return i + 1
        i += 1
    fail("unbalanced braces")


def find_block(src, header_re, what, unique=True):
    """Find `header {`…`}`; returns (header match, body text without the outer braces)."""
    ms = list(re.finditer(header_re, src))
    if not ms:
        fail(f"{what}: not found (pattern {header_re!r})")
    if unique and len(ms) != 1:
        fail(f"{what}: expected exactly one occurrence, found {len(ms)}")
    m = ms[0]
    ob = src.index("{", m.end() - 1)
    end = block_at(src, ob)
    return m, src[ob + 1:end - 1]


# ------------------------------------------------------------------------ pinned hand-modelled text

PIN_TRAIT = (
    "pub trait CpuContext { type Register: fmt::LowerHex; const REGISTERS: &'static [&'static str]; "
    "fn register_is_valid(&self, reg: &str, valid: &MinidumpContextValidity) -> bool { "
    "if let MinidumpContextValidity::Some(ref which) = *valid { which.contains(reg) } else { self.memoize_register(reg).is_some() } } "
    "fn get_register(&self, reg: &str, valid: &MinidumpContextValidity) -> Option<Self::Register> { "
    "if self.register_is_valid(reg, valid) { Some(self.get_register_always(reg)) } else { None } } "
    "fn get_register_always(&self, reg: &str) -> Self::Register; "
    "fn set_register(&mut self, reg: &str, val: Self::Register) -> Option<()>; "
    "fn memoize_register(&self, reg: &str) -> Option<&'static str> { default_memoize_register(Self::REGISTERS, reg) } "
    "fn format_register(&self, reg: &str) -> String { format!( \"0x{:01$x}\", self.get_register_always(reg), mem::size_of::<Self::Register>() * 2 ) } "
    "fn registers(&self) -> CpuRegisters<'_, Self> { self.valid_registers(&MinidumpContextValidity::All) } "
    "fn valid_registers<'a>(&'a self, valid: &'a MinidumpContextValidity) -> CpuRegisters<'a, Self> { "
    "let regs = match valid { MinidumpContextValidity::All => CpuRegistersInner::Slice(Self::REGISTERS.iter()), "
    "MinidumpContextValidity::Some(valid) => CpuRegistersInner::Set(valid.iter()), }; CpuRegisters { regs, context: self, } } "
    "fn stack_pointer_register_name(&self) -> &'static str; "
    "fn instruction_pointer_register_name(&self) -> &'static str; }"
)
PIN_DEFAULT_MEMOIZE = (
    "fn default_memoize_register(registers: &[&'static str], reg: &str) -> Option<&'static str> { "
    "let idx = registers.iter().position(|val| *val == reg)?; Some(registers[idx]) }"
)
PIN_ITER = (
    "impl<T> Iterator for CpuRegisters<'_, T> where T: CpuContext, { type Item = (&'static str, T::Register); "
    "fn next(&mut self) -> Option<Self::Item> { let reg = match &mut self.regs { CpuRegistersInner::Slice(iter) => iter.next(), "
    "CpuRegistersInner::Set(iter) => iter.next(), }?; Some((reg, self.context.get_register_always(reg))) } }"
)
PIN_VALIDITY = (
    "pub enum MinidumpContextValidity { All, Some(HashSet<&'static str>), }"
)
PIN_SPARC_MEMOIZE = (
    "match sparc_alias_index(reg) { Some(idx) => Some(Self::REGISTERS[idx]), "
    "None => default_memoize_register(Self::REGISTERS, reg), }"
)
PIN_SPARC_VALID = (
    "if let MinidumpContextValidity::Some(ref which) = valid { which.contains(reg) || self .memoize_register(reg) "
    ".is_some_and(|canonical| which.contains(canonical)) } else { self.memoize_register(reg).is_some() }"
)
PIN_SPARC_VALID_CANON = (
    "if let MinidumpContextValidity::Some(ref which) = valid { which.contains(reg) || self.memoize_register(reg).is_some_and(|canonical| { "
    "which .iter() .any(|other| self.memoize_register(other) == Some(canonical)) }) } else { self.memoize_register(reg).is_some() }"
)
PIN_MD_REGISTERS = (
    "self.general_purpose_registers() .iter() .map(move |&reg| (reg, self.get_register_always(reg)))"
)


def pinned(src, start_re, expected, what):
    m = re.search(start_re, src)
    if not m:
        fail(f"{what}: not found")
    ob = src.index("{", m.start())
    end = block_at(src, ob)
    got = norm(src[m.start():end])
    if got != expected:
        fail(f"{what}: the hand-modelled text changed; re-read lean/MdModel/Regs.lean against it and update the pin.\n"
             f"  expected: {expected}\n  now:      {got}")


# ----------------------------------------------------------------------------- impl-block parsing

STR = r'"([A-Za-z0-9_]+)"'
IDX = r"(?:(\d+)|md::(\w+RegisterNumbers)::(\w+) as usize)"
CELL = r"(?:self|ctx)\.([a-z_][a-z0-9_]*)(?:\[" + IDX + r"\])?"


def lean_str(s):
    assert re.fullmatch(r"[A-Za-z0-9_]*", s), s
    return '"' + s + '"'


def cell_of(m, base):
    """groups base..base+3 of a CELL match -> ('field', None | ('lit', n) | ('enum', ty, var))"""
    field, lit, ety, evar = m.group(base), m.group(base + 1), m.group(base + 2), m.group(base + 3)
    if lit is not None:
        return (field, ("lit", int(lit)))
    if ety is not None:
        return (field, ("enum", ety, evar))
    return (field, None)


def lean_cell(c):
    field, idx = c
    if idx is None:
        i = "none"
    elif idx[0] == "lit":
        i = f"some (.lit {idx[1]})"
    else:
        i = f"some (.enum {lean_str(idx[1])} {lean_str(idx[2])})"
    return f"⟨{lean_str(field)}, {i}⟩"


def split_arms(body, what):
    """`pat => rhs,` list of a match body; the last separator comma is optional."""
    arms, i, n = [], 0, len(body)
    while True:
        while i < n and body[i].isspace():
            i += 1
        if i >= n:
            break
        j = body.find("=>", i)
        if j < 0:
            fail(f"{what}: text that is not a match arm: {body[i:i + 60]!r}")
        pat = body[i:j].strip()
        k = j + 2
        while k < n and body[k].isspace():
            k += 1
        if k < n and body[k] == "{":
            e = block_at(body, k)
            rhs = body[k:e]
            k = e
            while k < n and body[k].isspace():
                k += 1
            if k < n and body[k] == ",":
                k += 1
        else:
            depth, e = 0, k
            while e < n:
                ch = body[e]
                if ch == '"':
                    e += 1
                    while body[e] != '"':
                        e += 2 if body[e] == "\\" else 1
                elif ch in "([{":
                    depth += 1
                elif ch in ")]}":
                    depth -= 1
                elif ch == "," and depth == 0:
                    break
                e += 1
            rhs = body[k:e].strip()
            k = e + 1
        arms.append((pat, norm(rhs)))
        i = k
    return arms


def parse_pats(pat, what):
    names = []
    for p in pat.split("|"):
        m = re.fullmatch(r"\s*" + STR + r"\s*", p)
        if not m:
            fail(f"{what}: unrecognised pattern {pat!r}")
        names.append(m.group(1))
    return names


def match_reg_body(body, what):
    m = re.fullmatch(r"\s*match reg \{(.*)\}\s*", body, flags=re.S)
    if not m:
        fail(f"{what}: body is not a single `match reg {{ … }}`: {norm(body)[:120]!r}")
    return m.group(1)


def parse_get(body, what):
    arms = split_arms(match_reg_body(body, what), what)
    if not arms or arms[-1][0] != "_" or not re.fullmatch(r'unreachable!\("[^"]*", reg\)', arms[-1][1]):
        fail(f"{what}: last arm must be `_ => unreachable!(\"…\", reg)`, found {arms[-1] if arms else None}")
    out = []
    for pat, rhs in arms[:-1]:
        m = re.fullmatch(CELL.replace("(?:self|ctx)", "self"), rhs)
        if not m:
            fail(f"{what}: arm {pat} => {rhs!r} is not `self.field` / `self.field[idx]`")
        for name in parse_pats(pat, what):
            out.append((name, cell_of(m, 1)))
    return out


def parse_set(body, what):
    m = re.fullmatch(r"\s*(match reg \{.*\})\s*Some\(\(\)\)\s*", body, flags=re.S)
    if not m:
        fail(f"{what}: body is not `match reg {{ … }} Some(())`")
    arms = split_arms(match_reg_body(m.group(1), what), what)
    if not arms or arms[-1] != ("_", "return None"):
        fail(f"{what}: last arm must be `_ => return None`, found {arms[-1] if arms else None}")
    out = []
    for pat, rhs in arms[:-1]:
        mm = re.fullmatch(CELL.replace("(?:self|ctx)", "self") + r" = val", rhs)
        if not mm:
            fail(f"{what}: arm {pat} => {rhs!r} is not `self.field = val` / `self.field[idx] = val`")
        for name in parse_pats(pat, what):
            out.append((name, cell_of(mm, 1)))
    return out


def parse_memoize(body, what):
    if norm(body) == PIN_SPARC_MEMOIZE:
        return ("sparcIndex",)
    arms = split_arms(match_reg_body(body, what), what)
    if not arms or arms[-1] != ("_", "default_memoize_register(Self::REGISTERS, reg)"):
        fail(f"{what}: last arm must fall back to default_memoize_register(Self::REGISTERS, reg)")
    out = []
    for pat, rhs in arms[:-1]:
        mm = re.fullmatch(r"Some\(" + STR + r"\)", rhs)
        if not mm:
            fail(f"{what}: arm {pat} => {rhs!r} is not `Some(\"name\")`")
        for name in parse_pats(pat, what):
            out.append((name, mm.group(1)))
    return ("arms", out)


def parse_is_valid(body, what):
    if norm(body) == PIN_SPARC_VALID:
        return ("sparcMemo",)
    if norm(body) == PIN_SPARC_VALID_CANON:
        return ("sparcCanon",)
    m = re.fullmatch(
        r"\s*if let MinidumpContextValidity::Some\(ref which\) = valid \{\s*(match reg \{.*\})\s*\}"
        r" else \{\s*self\.memoize_register\(reg\)\.is_some\(\)\s*\}\s*", body, flags=re.S)
    if not m:
        fail(f"{what}: unrecognised shape: {norm(body)[:160]!r}")
    arms = split_arms(match_reg_body(m.group(1), what), what)
    if not arms or arms[-1] != ("_", "which.contains(reg)"):
        fail(f"{what}: last arm must be `_ => which.contains(reg)`")
    groups = []
    for pat, rhs in arms[:-1]:
        parts = [p.strip() for p in rhs.split("||")]
        names = []
        for p in parts:
            mm = re.fullmatch(r"which\.contains\(" + STR + r"\)", p)
            if not mm:
                fail(f"{what}: arm {pat} => {rhs!r} is not a disjunction of which.contains(\"name\")")
            names.append(mm.group(1))
        groups.append((parse_pats(pat, what), names))
    return ("groups", groups)


def parse_name_fn(body, what):
    m = re.fullmatch(r"\s*" + STR + r"\s*", body)
    if not m:
        fail(f"{what}: body is not a string literal: {norm(body)!r}")
    return m.group(1)


FN_SIGS = {
    "get_register_always": r"fn get_register_always\(&self, reg: &str\) -> (?:u32|u64|Self::Register) ",
    "set_register": r"fn set_register\(&mut self, reg: &str, val: Self::Register\) -> Option<\(\)> ",
    "memoize_register": r"fn memoize_register\(&self, reg: &str\) -> Option<&'static str> ",
    "register_is_valid": r"fn register_is_valid\(&self, reg: &str, valid: &MinidumpContextValidity\) -> bool ",
    "stack_pointer_register_name": r"fn stack_pointer_register_name\(&self\) -> &'static str ",
    "instruction_pointer_register_name": r"fn instruction_pointer_register_name\(&self\) -> &'static str ",
}


def parse_impl(name, body):
    what = f"impl CpuContext for md::CONTEXT_{name}"
    res = {"name": name}
    i, n = 0, len(body)
    while True:
        while i < n and body[i].isspace():
            i += 1
        if i >= n:
            break
        rest = body[i:]
        m = re.match(r"type Register = (u32|u64);", rest)
        if m:
            if "bits" in res:
                fail(f"{what}: duplicate `type Register`")
            res["bits"] = int(m.group(1)[1:])
            i += m.end()
            continue
        m = re.match(r"const REGISTERS: &'static \[&'static str\] = &\[(.*?)\];", rest, flags=re.S)
        if m:
            if "registers" in res:
                fail(f"{what}: duplicate REGISTERS")
            items = [x.strip() for x in m.group(1).split(",")]
            if items and items[-1] == "":
                items.pop()
            regs = []
            for it in items:
                mm = re.fullmatch(STR, it)
                if not mm:
                    fail(f"{what}: REGISTERS element {it!r} is not a plain string literal")
                regs.append(mm.group(1))
            res["registers"] = regs
            i += m.end()
            continue
        m = re.match(r"fn (\w+)", rest)
        if m:
            fn = m.group(1)
            if fn not in FN_SIGS:
                fail(f"{what}: method `{fn}` is not one the model knows (a provided trait method was overridden?)")
            ob = body.index("{", i)
            sig = norm(body[i:ob]) + " "
            if not re.fullmatch(FN_SIGS[fn], sig):
                fail(f"{what}: signature of `{fn}` changed: {sig!r}")
            end = block_at(body, ob)
            if fn in res:
                fail(f"{what}: duplicate method {fn}")
            res[fn] = body[ob + 1:end - 1]
            i = end
            continue
        fail(f"{what}: unrecognised item: {norm(rest)[:100]!r}")
    for k in ["bits", "registers", "get_register_always", "set_register",
              "stack_pointer_register_name", "instruction_pointer_register_name"]:
        if k not in res:
            fail(f"{what}: missing `{k}`")
    res["get"] = parse_get(res["get_register_always"], what + "::get_register_always")
    res["set"] = parse_set(res["set_register"], what + "::set_register")
    res["memo"] = parse_memoize(res["memoize_register"], what + "::memoize_register") if "memoize_register" in res else ("default",)
    res["valid"] = parse_is_valid(res["register_is_valid"], what + "::register_is_valid") if "register_is_valid" in res else ("default",)
    res["sp"] = parse_name_fn(res["stack_pointer_register_name"], what + "::stack_pointer_register_name")
    res["ip"] = parse_name_fn(res["instruction_pointer_register_name"], what + "::instruction_pointer_register_name")
    return res


# --------------------------------------------------------------------------- sparc_alias_index

SPARC_ALIAS_RE = re.compile(
    r"fn sparc_alias_index\(reg: &str\) -> Option<usize> \{ "
    r"let bytes = reg\.as_bytes\(\); "
    r"if bytes\.len\(\) != (\d+) \|\| !\(b'(.)'\.\.=b'(.)'\)\.contains\(&bytes\[1\]\) \{ return None; \} "
    r"let base = match bytes\[0\] \{ ((?:b'.' => \d+, )+)_ => return None, \}; "
    r"Some\(base \+ \(bytes\[1\] - b'(.)'\) as usize\) \}")


def parse_sparc_alias(src):
    m = re.search(r"fn sparc_alias_index", src)
    if not m:
        fail("sparc_alias_index: helper not found (CONTEXT_SPARC::memoize_register refers to it)")
    ob = src.index("{", m.start())
    text = norm(src[m.start():block_at(src, ob)])
    mm = SPARC_ALIAS_RE.fullmatch(text)
    if not mm:
        fail(f"sparc_alias_index: text not recognised (the helper is special-cased by its exact shape): {text!r}")
    ln, lo, hi, arms, sub = int(mm.group(1)), mm.group(2), mm.group(3), mm.group(4), mm.group(5)
    if ln != 2:
        fail("sparc_alias_index: the model reads exactly two bytes (bytes[0], bytes[1]); length test changed")
    if sub != lo:
        fail(f"sparc_alias_index: digit offset b'{sub}' differs from the lower bound b'{lo}' (subtraction could underflow / shift)")
    if not (lo.isascii() and hi.isascii() and lo.isalnum() and hi.isalnum()):
        fail("sparc_alias_index: digit bounds are not ASCII alphanumerics")
    bases = [(a, int(b)) for a, b in re.findall(r"b'(.)' => (\d+), ", arms)]
    for a, _ in bases:
        if not (a.isascii() and a.isalnum()):
            fail("sparc_alias_index: base letters are not ASCII alphanumerics")
    return {"len": ln, "lo": lo, "hi": hi, "bases": bases}


# ------------------------------------------------------------------------------------ format.rs

INT_BITS = {"u8": 8, "u16": 16, "u32": 32, "u64": 64, "u128": 128}


def parse_struct(src, name):
    _, body = find_block(src, r"pub struct CONTEXT_" + name + r" \{", f"format.rs struct CONTEXT_{name}")
    fields = []
    body = re.sub(r"#\[[^\]]*\]\)?\]?", lambda m: "", re.sub(r"#\[default\([^\n]*\)\]", "", body))
    for item in body.split(","):
        item = norm(item)
        if not item:
            continue
        m = re.fullmatch(r"pub (\w+): (.+)", item)
        if not m:
            fail(f"format.rs CONTEXT_{name}: unrecognised field text {item!r}")
        fname, ty = m.group(1), m.group(2)
        if ty in INT_BITS:
            fields.append((fname, None, INT_BITS[ty]))
            continue
        mm = re.fullmatch(r"\[(u8|u16|u32|u64|u128); (\d+)(?:usize)?\]", ty)
        if mm:
            fields.append((fname, int(mm.group(2)), INT_BITS[mm.group(1)]))
            continue
        if re.fullmatch(r"[A-Z][A-Z0-9_a-z]*", ty):
            continue  # nested save-area struct: holds no named register, not a cell
        fail(f"format.rs CONTEXT_{name}: field {fname} has unrecognised type {ty!r}")
    return fields


def parse_enums(src):
    enums = {}
    for m in re.finditer(r"pub enum (\w+RegisterNumbers) \{", src):
        ob = src.index("{", m.start())
        body = src[ob + 1:block_at(src, ob) - 1]
        pre = src[max(0, m.start() - 200):m.start()]
        if "#[repr(usize)]" not in pre:
            fail(f"format.rs enum {m.group(1)}: not #[repr(usize)]")
        vs = []
        for item in body.split(","):
            item = norm(item)
            if not item:
                continue
            mm = re.fullmatch(r"(\w+) = (\d+)", item)
            if not mm:
                fail(f"format.rs enum {m.group(1)}: unrecognised variant {item!r}")
            vs.append((mm.group(1), int(mm.group(2))))
        enums[m.group(1)] = vs
    return enums


# --------------------------------------------------------------------- MinidumpContext dispatch

def dispatch_arms(body, what, variants, subject_re):
    m = re.fullmatch(r"\s*match " + subject_re + r" \{(.*)\}\s*", body, flags=re.S)
    if not m:
        fail(f"{what}: body is not a single `match self.raw {{ … }}`: {norm(body)[:120]!r}")
    arms = split_arms(m.group(1), what)
    seen = {}
    for pat, rhs in arms:
        mm = re.fullmatch(r"MinidumpRawContext::(\w+)\((ref ctx|ctx|_)\)", pat)
        if not mm:
            fail(f"{what}: unrecognised arm pattern {pat!r}")
        v = mm.group(1)
        if v not in variants:
            fail(f"{what}: unknown variant {v}")
        if v in seen:
            fail(f"{what}: variant {v} matched twice")
        seen[v] = (mm.group(2), rhs)
    missing = [v for v in variants if v not in seen]
    if missing:
        fail(f"{what}: variants without an arm: {missing}")
    return seen


def fn_body(impl_body, name, sig_re, what):
    ms = list(re.finditer(r"pub fn " + name + r"\b", impl_body))
    if len(ms) != 1:
        fail(f"{what}: expected exactly one `pub fn {name}`, found {len(ms)}")
    ob = impl_body.index("{", ms[0].start())
    sig = norm(impl_body[ms[0].start():ob])
    if not re.fullmatch(sig_re, sig):
        fail(f"{what}: signature changed: {sig!r}")
    return impl_body[ob + 1:block_at(impl_body, ob) - 1]


def parse_minidump_context(src, variants, var_ctx):
    _, body = find_block(src, r"\nimpl MinidumpContext \{", "impl MinidumpContext")
    W = "MinidumpContext::"
    out = {}
    # -- dedicated accessors
    for fn, key in [("get_instruction_pointer", "ipCell"), ("get_stack_pointer", "spCell")]:
        b = fn_body(body, fn, r"pub fn " + fn + r"\(&self\) -> u64", W + fn)
        arms = dispatch_arms(b, W + fn, variants, r"self\.raw")
        cells = {}
        for v, (binder, rhs) in arms.items():
            if binder != "ref ctx":
                fail(f"{W}{fn}: arm {v} does not bind `ref ctx`")
            rhs = rhs.strip()
            if rhs.startswith("{"):
                rhs = norm(rhs[1:-1])
            mm = re.fullmatch(CELL.replace("(?:self|ctx)", "ctx") + r"( as u64)?", rhs)
            if not mm:
                fail(f"{W}{fn}: arm {v} => {rhs!r} is not `ctx.field[idx] (as u64)`")
            cells[var_ctx[v]] = (cell_of(mm, 1), mm.group(5) is not None)
        out[key] = cells
    # -- plain forwarding methods
    b = fn_body(body, "get_register_always", r"pub fn get_register_always\(&self, reg: &str\) -> u64", W + "get_register_always")
    into = {}
    for v, (binder, rhs) in dispatch_arms(b, W + "get_register_always", variants, r"self\.raw").items():
        mm = re.fullmatch(r"ctx\.get_register_always\(reg\)(\.into\(\))?", rhs)
        if binder != "ref ctx" or not mm:
            fail(f"{W}get_register_always: arm {v} => {rhs!r} does not forward to ctx.get_register_always(reg)")
        into[var_ctx[v]] = mm.group(1) is not None
    out["into"] = into
    b = fn_body(body, "format_register", r"pub fn format_register\(&self, reg: &str\) -> String", W + "format_register")
    for v, (binder, rhs) in dispatch_arms(b, W + "format_register", variants, r"self\.raw").items():
        if binder != "ref ctx" or rhs != "ctx.format_register(reg)":
            fail(f"{W}format_register: arm {v} => {rhs!r} does not forward to ctx.format_register(reg)")
    b = fn_body(body, "get_register", r"pub fn get_register\(&self, reg: &str\) -> Option<u64>", W + "get_register")
    mm = re.fullmatch(r"\s*let valid = (match &self\.raw \{.*\});\s*if valid \{ Some\(self\.get_register_always\(reg\)\) \} else \{ None \}\s*",
                      re.sub(r"[ \t\n]+", " ", b), flags=re.S)
    if not mm:
        fail(f"{W}get_register: shape changed: {norm(b)[:200]!r}")
    for v, (binder, rhs) in dispatch_arms(mm.group(1), W + "get_register", variants, r"&self\.raw").items():
        if binder != "ctx" or rhs != "ctx.register_is_valid(reg, &self.valid)":
            fail(f"{W}get_register: arm {v} => {rhs!r} does not ask ctx.register_is_valid(reg, &self.valid)")
    b = fn_body(body, "general_purpose_registers", r"pub fn general_purpose_registers\(&self\) -> &'static \[&'static str\]", W + "general_purpose_registers")
    gpr = {}
    for v, (binder, rhs) in dispatch_arms(b, W + "general_purpose_registers", variants, r"self\.raw").items():
        mm = re.fullmatch(r"md::CONTEXT_(\w+)::REGISTERS", rhs)
        if binder != "_" or not mm or mm.group(1) not in EXPECTED_CTX:
            fail(f"{W}general_purpose_registers: arm {v} => {rhs!r} is not md::CONTEXT_*::REGISTERS")
        gpr[var_ctx[v]] = mm.group(1)
    out["gprOf"] = gpr
    b = fn_body(body, "registers", r"pub fn registers\(&self\) -> impl Iterator<Item = \(&'static str, u64\)> \+ '_", W + "registers")
    if norm(b) != PIN_MD_REGISTERS:
        fail(f"{W}registers: hand-modelled text changed: {norm(b)!r}")
    b = fn_body(body, "valid_registers", r"pub fn valid_registers\(&self\) -> impl Iterator<Item = \(&'static str, u64\)> \+ '_", W + "valid_registers")
    mm = re.fullmatch(r"\s*self\.registers\(\)\.filter\(move \|\(reg, _\)\| (match &self\.raw \{.*\})\)\s*", b, flags=re.S)
    if not mm:
        fail(f"{W}valid_registers: shape changed: {norm(b)[:200]!r}")
    for v, (binder, rhs) in dispatch_arms(mm.group(1), W + "valid_registers", variants, r"&self\.raw").items():
        if binder != "ctx" or rhs != "ctx.register_is_valid(reg, &self.valid)":
            fail(f"{W}valid_registers: arm {v} => {rhs!r} does not ask ctx.register_is_valid(reg, &self.valid)")
    b = fn_body(body, "register_size", r"pub fn register_size\(&self\) -> usize", W + "register_size")
    mm = re.fullmatch(r"\s*fn get<T: CpuContext>\(_: &T\) -> usize \{ std::mem::size_of::<T::Register>\(\) \} (match &self\.raw \{.*\})\s*",
                      re.sub(r"[ \t\n]+", " ", b), flags=re.S)
    if not mm:
        fail(f"{W}register_size: shape changed: {norm(b)[:200]!r}")
    for v, (binder, rhs) in dispatch_arms(mm.group(1), W + "register_size", variants, r"&self\.raw").items():
        if binder != "ctx" or rhs != "get(ctx)":
            fail(f"{W}register_size: arm {v} => {rhs!r} is not get(ctx)")
    return out


# ----------------------------------------------------------------------------------------- main

def lean_list(items, indent="  ", per_line=4):
    if not items:
        return "[]"
    lines, cur = [], []
    for it in items:
        cur.append(it)
        if len(cur) == per_line:
            lines.append(", ".join(cur))
            cur = []
    if cur:
        lines.append(", ".join(cur))
    return "[\n" + indent + "  " + (",\n" + indent + "  ").join(lines) + "]"


def per_ctx(name, ty, f, ctxs):
    s = f"def {name} : Ctx → {ty}\n"
    for c in ctxs:
        s += f"  | .{c} => {f(c)}\n"
    return s


def translate():
    raw_ctx = open(CONTEXT_RS, encoding="utf-8").read()
    raw_fmt = open(FORMAT_RS, encoding="utf-8").read()
    src = strip_comments(raw_ctx)
    fmt = strip_comments(raw_fmt)

    # pinned hand-modelled text
    pinned(src, r"pub trait CpuContext \{", PIN_TRAIT, "trait CpuContext (provided methods)")
    pinned(src, r"fn default_memoize_register\(", PIN_DEFAULT_MEMOIZE, "default_memoize_register")
    pinned(src, r"impl<T> Iterator for CpuRegisters", PIN_ITER, "impl Iterator for CpuRegisters")
    pinned(src, r"pub enum MinidumpContextValidity \{", PIN_VALIDITY, "enum MinidumpContextValidity")

    # enum MinidumpRawContext
    _, body = find_block(src, r"pub enum MinidumpRawContext \{", "enum MinidumpRawContext")
    var_ctx = {}
    for item in body.split(","):
        item = norm(item)
        if not item:
            continue
        m = re.fullmatch(r"(\w+)\(md::CONTEXT_(\w+)\)", item)
        if not m:
            fail(f"enum MinidumpRawContext: unrecognised variant {item!r}")
        var_ctx[m.group(1)] = m.group(2)
    if sorted(var_ctx.values()) != sorted(EXPECTED_CTX):
        fail(f"enum MinidumpRawContext: context types {sorted(var_ctx.values())} differ from the nine the check knows {sorted(EXPECTED_CTX)}")
    ctx_var = {c: v for v, c in var_ctx.items()}

    # impl blocks
    impls = {}
    for m in re.finditer(r"impl CpuContext for md::CONTEXT_(\w+) \{", src):
        name = m.group(1)
        if name in impls:
            fail(f"two impl CpuContext blocks for CONTEXT_{name}")
        ob = src.index("{", m.start())
        impls[name] = parse_impl(name, src[ob + 1:block_at(src, ob) - 1])
    if len(re.findall(r"impl\s+CpuContext\s+for", src)) != len(impls):
        fail("an `impl CpuContext for …` block exists that is not of the form `impl CpuContext for md::CONTEXT_X {`")
    if sorted(impls) != sorted(EXPECTED_CTX):
        fail(f"impl CpuContext blocks found for {sorted(impls)}, expected {sorted(EXPECTED_CTX)}")
    ctxs = EXPECTED_CTX

    sparc = None
    if any(impls[c]["memo"] == ("sparcIndex",) for c in ctxs) or "fn sparc_alias_index" in src:
        sparc = parse_sparc_alias(src)
    for c in ctxs:
        if (impls[c]["valid"] in (("sparcMemo",), ("sparcCanon",)) or impls[c]["memo"] == ("sparcIndex",)) and c != "SPARC":
            fail(f"CONTEXT_{c} uses the SPARC alias helper")
    if sparc is None:
        sparc = {"len": 2, "lo": "0", "hi": "0", "bases": []}

    enums = parse_enums(fmt)
    structs = {c: parse_struct(fmt, c) for c in ctxs}
    # every enum reference must exist (resolution itself is done in Lean)
    def check_ref(cell, what):
        field, idx = cell
        if idx is not None and idx[0] == "enum":
            if idx[1] not in enums or idx[2] not in dict(enums[idx[1]]):
                fail(f"{what}: md::{idx[1]}::{idx[2]} not found in format.rs")
    for c in ctxs:
        for n, cell in impls[c]["get"] + impls[c]["set"]:
            check_ref(cell, f"CONTEXT_{c} arm {n}")

    mdc = parse_minidump_context(src, list(var_ctx), var_ctx)
    for c in ctxs:
        check_ref(mdc["spCell"][c][0], f"get_stack_pointer {c}")
        check_ref(mdc["ipCell"][c][0], f"get_instruction_pointer {c}")

    return dict(ctxs=ctxs, ctx_var=ctx_var, enums=enums, structs=structs, impls=impls, sparc=sparc, mdc=mdc)


def blank_tables():
    """What is written when the translation FAILS: the same declarations with EMPTY tables and
    `translationOk := false`, so that (a) nothing can be proved against the tables of an earlier,
    successful translation, (b) the theorem `translation_ok` (and `sp_ip_cells`) fails, and (c) the
    model driver — shared by all properties — still compiles."""
    ctxs = EXPECTED_CTX
    impls = {c: {"bits": 0, "registers": [], "get": [], "set": [], "memo": ("default",), "valid": ("default",),
                 "sp": "", "ip": ""} for c in ctxs}
    mdc = {"spCell": {c: (("", None), False) for c in ctxs}, "ipCell": {c: (("", None), False) for c in ctxs},
           "gprOf": {c: c for c in ctxs}, "into": {c: False for c in ctxs}}
    return dict(ctxs=ctxs, ctx_var={c: "" for c in ctxs}, enums={}, structs={c: [] for c in ctxs}, impls=impls,
                sparc={"len": 2, "lo": "0", "hi": "0", "bases": []}, mdc=mdc)


def emit(d, ok, why=""):
    ctxs, ctx_var, enums, structs, impls, sparc, mdc = (d[k] for k in ("ctxs", "ctx_var", "enums", "structs", "impls", "sparc", "mdc"))
    o = []
    if not ok:
        o.append("/- TRANSLATION FAILED — these are BLANK tables (see `translationOk`). Reason:\n   "
                 + why.replace("-/", "- /")[:1500] + "\n-/")
    o.append("/-\n  GENERATED by translators/regs.py — DO NOT EDIT.  Regenerated on every ./check run from\n"
             "    minidump/src/context.rs   (impl CpuContext for md::CONTEXT_*, sparc_alias_index, MinidumpContext dispatch)\n"
             "    minidump-common/src/format.rs   (struct CONTEXT_* fields, *RegisterNumbers)\n"
             "  Purely syntactic tables; interpretation lives in MdModel/Regs.lean.\n-/\n"
             "namespace MdModel.Gen.Regs\n")
    o.append("/-- `true` iff the tables below are the result of a successful translation of the CURRENT source;\n"
             "    a failed translation writes blank tables and `false` (theorem `translation_ok` then fails) -/\n"
             "def translationOk : Bool := " + ("true" if ok else "false") + "\n")
    o.append("/-- the nine CPU context types (`md::CONTEXT_<name>`) -/\ninductive Ctx where\n"
             + "".join(f"  | {c}\n" for c in ctxs) + "  deriving DecidableEq, Repr\n")
    o.append("def Ctx.all : List Ctx := [" + ", ".join("." + c for c in ctxs) + "]\n")
    o.append(per_ctx("Ctx.name", "String", lambda c: lean_str(c), ctxs))
    o.append("/-- the `MinidumpRawContext` variant carrying this context type -/\n"
             + per_ctx("Ctx.variant", "String", lambda c: lean_str(ctx_var[c]), ctxs))
    o.append("/-- array index as written in the source: a literal or `md::<Enum>::<Variant> as usize` -/\n"
             "inductive Idx where\n  | lit (n : Nat)\n  | enum (ty variant : String)\n  deriving DecidableEq, Repr\n")
    o.append("/-- storage place as written in the source: `self.field` or `self.field[idx]` -/\n"
             "structure CellRef where\n  field : String\n  idx : Option Idx\n  deriving DecidableEq, Repr\n")
    o.append("/-- shape of `memoize_register` -/\ninductive MemoRule where\n"
             "  | default                                   -- trait default: default_memoize_register(REGISTERS, reg)\n"
             "  | arms (as : List (String × String))        -- `\"alias\" => Some(\"canonical\")` arms, then the default\n"
             "  | sparcIndex                                -- `match sparc_alias_index(reg) { Some(idx) => Some(REGISTERS[idx]), None => default }`\n"
             "  deriving Repr\n")
    o.append("/-- shape of the `Some(which)` branch of `register_is_valid` -/\ninductive ValidRule where\n"
             "  | default                                              -- which.contains(reg)\n"
             "  | groups (gs : List (List String × List String))       -- `pats => which.contains(a) || which.contains(b)`, then which.contains(reg)\n"
             "  | sparcMemo                                            -- which.contains(reg) || memoize_register(reg).is_some_and(|c| which.contains(c))   (before fix 4de673d)\n"
             "  | sparcCanon                                           -- which.contains(reg) || memoize_register(reg).is_some_and(|c| which.iter().any(|o| memoize_register(o) == Some(c)))\n"
             "  deriving Repr\n")
    o.append("/-- parameters read off `fn sparc_alias_index` -/\nstructure SparcAlias where\n"
             "  len : Nat\n  digitLo : Char\n  digitHi : Char\n  bases : List (Char × Nat)\n  deriving Repr\n")
    o.append("/-- integer field of a context struct: name, array length (none = scalar), element width in bits -/\n"
             "structure Field where\n  name : String\n  len : Option Nat\n  bits : Nat\n  deriving DecidableEq, Repr\n")
    o.append("/-- `#[repr(usize)] enum *RegisterNumbers` of format.rs -/\n"
             "def enums : List (String × List (String × Nat)) := " + lean_list(
                 [f"({lean_str(e)}, [" + ", ".join(f"({lean_str(v)}, {n})" for v, n in vs) + "])" for e, vs in sorted(enums.items())],
                 per_line=1) + "\n")
    o.append(per_ctx("fields", "List Field", lambda c: lean_list(
        [f"⟨{lean_str(f)}, {'none' if l is None else 'some ' + str(l)}, {b}⟩" for f, l, b in structs[c]], indent="    ", per_line=6), ctxs))
    o.append("/-- `type Register = uNN` -/\n" + per_ctx("regBits", "Nat", lambda c: str(impls[c]["bits"]), ctxs))
    o.append("/-- `const REGISTERS` -/\n" + per_ctx("registers", "List String", lambda c: lean_list(
        [lean_str(r) for r in impls[c]["registers"]], indent="    ", per_line=12), ctxs))
    o.append("/-- arms of `get_register_always` in source order (`a | b => cell` expanded); no arm = `unreachable!` -/\n"
             + per_ctx("getArms", "List (String × CellRef)", lambda c: lean_list(
                 [f"({lean_str(n)}, {lean_cell(cell)})" for n, cell in impls[c]["get"]], indent="    ", per_line=3), ctxs))
    o.append("/-- arms of `set_register` in source order; no arm = `return None` -/\n"
             + per_ctx("setArms", "List (String × CellRef)", lambda c: lean_list(
                 [f"({lean_str(n)}, {lean_cell(cell)})" for n, cell in impls[c]["set"]], indent="    ", per_line=3), ctxs))

    def memo_rule(c):
        r = impls[c]["memo"]
        if r[0] == "default":
            return ".default"
        if r[0] == "sparcIndex":
            return ".sparcIndex"
        return ".arms [" + ", ".join(f"({lean_str(a)}, {lean_str(b)})" for a, b in r[1]) + "]"

    def valid_rule(c):
        r = impls[c]["valid"]
        if r[0] == "default":
            return ".default"
        if r[0] == "sparcMemo":
            return ".sparcMemo"
        if r[0] == "sparcCanon":
            return ".sparcCanon"
        return ".groups [" + ", ".join(
            "([" + ", ".join(lean_str(x) for x in ps) + "], [" + ", ".join(lean_str(x) for x in ns) + "])" for ps, ns in r[1]) + "]"

    o.append(per_ctx("memoRule", "MemoRule", memo_rule, ctxs))
    o.append(per_ctx("validRule", "ValidRule", valid_rule, ctxs))
    o.append("def sparcAlias : SparcAlias :=\n  { len := %d, digitLo := '%s', digitHi := '%s', bases := [%s] }\n" % (
        sparc["len"], sparc["lo"], sparc["hi"], ", ".join(f"('{a}', {b})" for a, b in sparc["bases"])))
    o.append("/-- `stack_pointer_register_name` -/\n" + per_ctx("spName", "String", lambda c: lean_str(impls[c]["sp"]), ctxs))
    o.append("/-- `instruction_pointer_register_name` -/\n" + per_ctx("ipName", "String", lambda c: lean_str(impls[c]["ip"]), ctxs))
    o.append("/-- `MinidumpContext::get_stack_pointer` (the `as u64` widening is the identity on values) -/\n"
             + per_ctx("spCell", "CellRef", lambda c: lean_cell(mdc["spCell"][c][0]), ctxs))
    o.append("/-- `MinidumpContext::get_instruction_pointer` -/\n"
             + per_ctx("ipCell", "CellRef", lambda c: lean_cell(mdc["ipCell"][c][0]), ctxs))
    o.append("/-- `MinidumpContext::general_purpose_registers`: whose `REGISTERS` each variant lists -/\n"
             + per_ctx("gprOf", "Ctx", lambda c: "." + mdc["gprOf"][c], ctxs))
    o.append("/-- `MinidumpContext::get_register_always` widens with `.into()` -/\n"
             + per_ctx("widens", "Bool", lambda c: "true" if mdc["into"][c] else "false", ctxs))
    o.append("end MdModel.Gen.Regs\n")
    return "\n".join(o)


def write_out(text):
    """atomic replace; returns True when the file content changed"""
    os.makedirs(os.path.dirname(OUT), exist_ok=True)
    old = open(OUT, encoding="utf-8").read() if os.path.exists(OUT) else None
    if old == text:
        return False
    with open(OUT + ".tmp", "w", encoding="utf-8") as f:
        f.write(text)
    os.replace(OUT + ".tmp", OUT)
    return True


def main():
    try:
        d = translate()
        text = emit(d, True)
    except (Fail, OSError, ValueError) as e:
        msg = str(e) if isinstance(e, Fail) else repr(e)
        # never leave the tables of an earlier translation behind: the theorems would be checked against
        # what the source said THEN. Blank tables + translationOk := false make the proof build fail too.
        try:
            write_out(emit(blank_tables(), False, msg))
        except OSError as e2:
            try:
                os.unlink(OUT)
            except OSError:
                pass
            print(f"regs.py: could not write blank tables: {e2!r}", file=sys.stderr)
        print(f"regs.py: TRANSLATION FAILED (source shape not recognised; blank tables written): {msg}", file=sys.stderr)
        return 1
    changed = write_out(text)
    ctxs, impls = d["ctxs"], d["impls"]
    print(f"regs.py: {len(ctxs)} contexts, {sum(len(impls[c]['get']) for c in ctxs)} getter arms, "
          f"{sum(len(impls[c]['set']) for c in ctxs)} setter arms, {len(d['enums'])} enums -> {os.path.relpath(OUT)}"
          + ("" if changed else " (unchanged)"))
    return 0


if __name__ == "__main__":
    sys.exit(main())
