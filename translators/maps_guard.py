#!/usr/bin/env python3
"""
translators/maps_guard.py — regenerate lean/MdModel/Gen/MapsGuard.lean from
$VERIF_REPO/minidump/src/minidump.rs: does `MinidumpLinuxMaps::read` hand the stream to procfs-core
as it is (the code with the open finding C01-procfs-mmappath), or behind the guard
`maps_text_is_safe` proposed in notes/pending-fix-procfs-mmappath.diff?

  MAPS_GUARDED = false   `read` starts with `MemoryMaps::from_read(std::io::Cursor::new(bytes))`
  MAPS_GUARDED = true    `read` starts with `if !maps_text_is_safe(bytes) { return Err(Error::StreamReadFailure); }`
                         and `fn maps_text_is_safe` is, token for token, the function the Lean model
                         `MdModel.Dump.mapsGuardOk` was written from (pinned below).

Strict: any other shape of `read`, or a guard function whose text differs from the pinned one, is an
error (exit 1) — the model must then be revisited by hand.
"""
import os
import re
import sys

HERE = os.path.dirname(os.path.abspath(__file__))
REPO = os.environ.get("VERIF_REPO", "/repo")
SRC = os.path.join(REPO, "minidump", "src", "minidump.rs")
OUT = os.path.join(HERE, "..", "lean", "MdModel", "Gen", "MapsGuard.lean")

# the guard the model mirrors, comments and blanks removed
PINNED_GUARD = """
fn maps_text_is_safe(bytes: &[u8]) -> bool {
    use std::io::BufRead;
    for line in bytes.lines() {
        let Ok(line) = line else { return true };
        if line.starts_with(|c: char| c.is_ascii_uppercase()) {
            if !line.starts_with("VmFlags") {
                let mut parts = line.split_ascii_whitespace();
                if let (Some(_), Some(v), Some(_)) = (parts.next(), parts.next(), parts.next()) {
                    if v.parse::<u64>().is_ok_and(|v| v.checked_mul(1024).is_none()) {
                        return false;
                    }
                }
            }
        } else if let Some(path) = line.splitn(6, ' ').nth(5) {
            let path = path.trim();
            if path.starts_with("[stack:") && !path.is_char_boundary(path.len() - 1) {
                return false;
            }
            if path.starts_with("/SYSV") && path.get(5..13).is_none() {
                return false;
            }
        }
    }
    true
}
"""


def die(msg):
    sys.stderr.write(f"maps_guard.py: {msg}\n")
    sys.exit(1)


def squash(text):
    """drop comments, collapse white space"""
    text = re.sub(r"//[^\n]*", "", text)
    return " ".join(text.split())


def body_of(src, start):
    """text from the `{` at/after `start` to its matching `}` (string / char literals respected)"""
    i = src.index("{", start)
    depth, j, n = 0, i, len(src)
    while j < n:
        c = src[j]
        if c == '"':
            j += 1
            while src[j] != '"':
                j += 2 if src[j] == "\\" else 1
        elif c == "'" and j + 2 < n and (src[j + 2] == "'" or src[j + 1] == "\\"):
            j = src.index("'", j + 2)
        elif c == "/" and src[j:j + 2] == "//":
            j = src.index("\n", j)
        elif c == "{":
            depth += 1
        elif c == "}":
            depth -= 1
            if depth == 0:
                return src[i:j + 1]
        j += 1
    die("unbalanced braces")


def main():
    src = open(SRC, encoding="utf-8").read()
    m = re.search(r"impl<'a> MinidumpStream<'a> for MinidumpLinuxMaps<'a> \{", src)
    if not m or len(re.findall(r"for MinidumpLinuxMaps<'a> \{", src)) != 1:
        die("impl MinidumpStream for MinidumpLinuxMaps not found exactly once")
    impl = body_of(src, m.start())
    r = re.search(r"fn read\(\s*bytes: &'a \[u8\],\s*_all: &'a \[u8\],\s*_endian: scroll::Endian,\s*"
                  r"_system_info: Option<&MinidumpSystemInfo>,\s*\) -> Result<MinidumpLinuxMaps<'a>, Error> ", impl)
    if not r:
        die("MinidumpLinuxMaps::read: unexpected signature")
    body = squash(body_of(impl, r.end() - 1))
    tail = ("let maps = MemoryMaps::from_read(std::io::Cursor::new(bytes)).map_err(|e| { "
            "tracing::error!(\"linux memory map read error: {e}\"); Error::StreamReadFailure })?; "
            "Ok(MinidumpLinuxMaps::from_regions( maps.into_iter() .map(|map| MinidumpLinuxMapInfo { map, "
            "_phantom: PhantomData, }) .collect(), )) }")
    guard = "if !maps_text_is_safe(bytes) { return Err(Error::StreamReadFailure); } "
    if body == "{ " + tail:
        guarded = False
        if "fn maps_text_is_safe" in src:
            die("fn maps_text_is_safe exists but MinidumpLinuxMaps::read does not call it first")
    elif body == "{ " + guard + tail:
        guarded = True
        g = re.search(r"\nfn maps_text_is_safe\(", src)
        if not g or src.count("fn maps_text_is_safe(") != 1:
            die("fn maps_text_is_safe not found exactly once")
        sig_end = src.index("{", g.start())
        have = squash(src[g.start():sig_end] + body_of(src, g.start()))
        if have != squash(PINNED_GUARD):
            die("fn maps_text_is_safe differs from the text the model MdModel.Dump.mapsGuardOk mirrors:\n  have: "
                + have + "\n  want: " + squash(PINNED_GUARD))
    else:
        die("MinidumpLinuxMaps::read has an unexpected body:\n  " + body)
    new = f"""/-
  GENERATED by translators/maps_guard.py — DO NOT EDIT. Regenerated on every ./check run from
    minidump/src/minidump.rs  (`impl MinidumpStream for MinidumpLinuxMaps`, `fn maps_text_is_safe`)
-/
namespace MdModel.Gen.MapsGuard

/-- `true` iff `MinidumpLinuxMaps::read` refuses text that fails `maps_text_is_safe` (the repair of
    finding C01-procfs-mmappath, pinned token for token by the translator) before it calls procfs-core -/
def MAPS_GUARDED : Bool := {"true" if guarded else "false"}

end MdModel.Gen.MapsGuard
"""
    old = open(OUT, encoding="utf-8").read() if os.path.exists(OUT) else None
    if old != new:
        with open(OUT, "w", encoding="utf-8") as f:
            f.write(new)
    print(f"maps_guard.py: MAPS_GUARDED = {guarded}")


if __name__ == "__main__":
    main()
