#!/usr/bin/env python3
"""
translators/layouts_c01x.py — regenerate lean/MdModel/Gen/LayoutsX.lean from
$VERIF_REPO/minidump-common/src/format.rs: what C01's second round of byte-level models
(`MdModel.DumpCtx`, `MdModel.DumpMisc`) needs beyond layouts.py's tables.

  * the flattened wire layouts (layouts.py's own strict struct parser, same rules and failure modes)
    of the nine CPU context records CONTEXT_X86 / AMD64 / ARM / ARM64 / ARM64_OLD / MIPS / PPC /
    PPC64 / SPARC (nested save areas flattened), MINIDUMP_SYSTEM_INFO, X86CpuInfo, ARMCpuInfo,
    MINIDUMP_BREAKPAD_INFO, MINIDUMP_ASSERTION_INFO, MINIDUMP_MAC_CRASH_INFO,
    MINIDUMP_MAC_CRASH_INFO_RECORD / _4 / _5, MINIDUMP_MAC_BOOTARGS.
    Three source shapes layouts.py refuses are normalised first, each one strictly:
      - a field attribute `#[default(..)]` (SmartDefault; irrelevant to the wire format) is dropped,
      - an array length written `32usize` becomes `32`,
      - the `multi_structs! { .. MINIDUMP_MAC_CRASH_INFO_RECORD .. }` block is expanded the way the
        macro does it (every struct repeats the fields of its predecessors and derives Pread+SizeWith);
  * CONTEXT_CPU_MASK, CONTEXT_HAS_XSTATE, the `ContextFlagsCpu` bits (`from_bits_truncate` keeps
    exactly the union of these), the `ProcessorArchitecture` discriminants `MinidumpContext::read`
    dispatches on, the register-number enums the accessors/printers index with, the
    `BreakpadInfoValid` bits, the `ArmElfHwCaps` bits, the number of C strings of each
    MINIDUMP_MAC_CRASH_INFO_RECORD_STRINGS* struct, and the stream-type discriminants.

Strict: anything unexpected is an error (exit 1), never a silent default.
"""
import os
import re
import sys
import tempfile

HERE = os.path.dirname(os.path.abspath(__file__))
sys.path.insert(0, HERE)
import layouts  # noqa: E402

REPO = os.environ.get("VERIF_REPO", "/repo")
SRC = os.path.join(REPO, "minidump-common", "src", "format.rs")
OUT = os.path.join(HERE, "..", "lean", "MdModel", "Gen", "LayoutsX.lean")

CONTEXTS = ["CONTEXT_X86", "CONTEXT_AMD64", "CONTEXT_ARM", "CONTEXT_ARM64", "CONTEXT_ARM64_OLD",
            "CONTEXT_MIPS", "CONTEXT_PPC", "CONTEXT_PPC64", "CONTEXT_SPARC"]
STRUCTS = CONTEXTS + ["MINIDUMP_SYSTEM_INFO", "X86CpuInfo", "ARMCpuInfo", "MINIDUMP_BREAKPAD_INFO",
                      "MINIDUMP_ASSERTION_INFO", "MINIDUMP_MAC_CRASH_INFO", "MINIDUMP_MAC_CRASH_INFO_RECORD",
                      "MINIDUMP_MAC_CRASH_INFO_RECORD_4", "MINIDUMP_MAC_CRASH_INFO_RECORD_5",
                      "MINIDUMP_MAC_BOOTARGS"]
ARCHS = ["PROCESSOR_ARCHITECTURE_INTEL", "PROCESSOR_ARCHITECTURE_MIPS", "PROCESSOR_ARCHITECTURE_PPC",
         "PROCESSOR_ARCHITECTURE_ARM", "PROCESSOR_ARCHITECTURE_AMD64", "PROCESSOR_ARCHITECTURE_IA32_ON_WIN64",
         "PROCESSOR_ARCHITECTURE_ARM64", "PROCESSOR_ARCHITECTURE_SPARC", "PROCESSOR_ARCHITECTURE_PPC64",
         "PROCESSOR_ARCHITECTURE_ARM64_OLD", "PROCESSOR_ARCHITECTURE_MIPS64"]
CPU_FLAGS_USED = ["CONTEXT_X86", "CONTEXT_AMD64", "CONTEXT_ARM", "CONTEXT_ARM64", "CONTEXT_ARM64_OLD",
                  "CONTEXT_MIPS", "CONTEXT_PPC", "CONTEXT_PPC64", "CONTEXT_SPARC"]
REG_ENUMS = {
    "ArmRegisterNumbers": ["StackPointer", "ProgramCounter"],
    "Arm64RegisterNumbers": ["FramePointer", "LinkRegister"],
    "MipsRegisterNumbers": ["S0", "S1", "S2", "S3", "S4", "S5", "S6", "S7", "GlobalPointer", "StackPointer",
                            "FramePointer", "ReturnAddress"],
    "PpcRegisterNumbers": ["StackPointer"],
    "Ppc64RegisterNumbers": ["StackPointer"],
    "SparcRegisterNumbers": ["StackPointer"],
}
STREAMS = ["SystemInfoStream", "LinuxCpuInfo", "LinuxProcStatus", "LinuxLsbRelease", "LinuxEnviron",
           "MozLinuxLimits", "BreakpadInfoStream", "AssertionInfoStream", "MozMacosCrashInfoStream",
           "MozMacosBootargsStream", "MozSoftErrors"]


def die(msg):
    sys.stderr.write(f"layouts_c01x.py: {msg}\n")
    sys.exit(1)


def num(s):
    return int(s.replace("_", ""), 0)


def enum_values(code, name, explicit=True):
    m = re.search(rf"pub enum {name}\s*\{{([^}}]*)\}}", code, flags=re.S)
    if not m:
        die(f"enum {name} not found")
    vals = {}
    for raw in m.group(1).split(","):
        v = raw.strip()
        if not v:
            continue
        vm = re.fullmatch(r"(\w+)\s*=\s*(0x[0-9a-fA-F_]+|\d+)", v)
        if not vm:
            die(f"enum {name}: variant without explicit discriminant: {v!r}")
        if vm.group(1) in vals:
            die(f"enum {name}: duplicate variant {vm.group(1)}")
        vals[vm.group(1)] = num(vm.group(2))
    return vals


def bitflags(code, name):
    """`pub struct NAME: u32 { const A = <literal | 1 << k>; .. }` inside a bitflags! block."""
    m = re.search(rf"pub struct {name}\s*:\s*u32\s*\{{([^}}]*)\}}", code, flags=re.S)
    if not m:
        die(f"bitflags struct {name} not found")
    out = []
    for raw in m.group(1).split(";"):
        v = raw.strip()
        if not v:
            continue
        vm = re.fullmatch(r"const\s+(\w+)\s*=\s*(.+)", v, flags=re.S)
        if not vm:
            die(f"bitflags {name}: unrecognised item {v!r}")
        expr = vm.group(2).strip()
        val = 0
        for term in expr.split("|"):
            t = term.strip()
            lit = re.fullmatch(r"0x[0-9a-fA-F_]+|\d+", t)
            sh = re.fullmatch(r"\(?\s*1\s*<<\s*(\d+)\s*\)?", t)
            ref = re.fullmatch(r"(?:\w+|Self)::(\w+)\.bits\(\)", t)
            if lit:
                val |= num(t)
            elif sh:
                val |= 1 << int(sh.group(1))
            elif ref and ref.group(1) in dict(out):
                val |= dict(out)[ref.group(1)]
            else:
                die(f"bitflags {name}::{vm.group(1)}: unsupported expression {expr!r}")
        out.append((vm.group(1), val))
    if not out:
        die(f"bitflags {name} is empty")
    return out


def const_u32(code, name):
    m = re.search(rf"^pub const {name}: u32 = (0x[0-9a-fA-F_]+|\d+);", code, flags=re.M)
    if not m:
        die(f"constant {name} not found")
    return num(m.group(1))


def expand_multi_structs(code, first):
    """Expand the `multi_structs! { .. }` invocation whose first struct is `first`."""
    m = None
    for cand in re.finditer(r"multi_structs!\s*\{((?:[^{}]|\{[^{}]*\})*)\}", code, flags=re.S):
        if re.search(r"pub struct " + first + r"\s*\{", cand.group(1)):
            if m is not None:
                die(f"two multi_structs! blocks declare {first}")
            m = cand
    if not m:
        die(f"multi_structs! block declaring {first} not found")
    body = m.group(1)
    structs = re.findall(r"pub struct (\w+)\s*\{([^}]*)\}", body)
    if not structs or structs[0][0] != first:
        die(f"multi_structs! block: expected {first} first, found {[s[0] for s in structs]}")
    rest = re.sub(r"pub struct \w+\s*\{[^}]*\}", "", body).strip()
    if rest:
        die(f"multi_structs! block of {first}: unexpected tokens {rest[:60]!r}")
    out, prev = [], ""
    for name, fields in structs:
        fs = fields.strip()
        if fs and not fs.endswith(","):
            die(f"multi_structs! {name}: the macro requires a trailing comma after every field")
        for f in [x.strip() for x in fs.split(",") if x.strip()]:
            if not re.fullmatch(r"pub \w+\s*:\s*\w+", f):
                die(f"multi_structs! {name}: field {f!r} is not `pub name: type`")
        prev = prev + ("\n" if prev else "") + fs
        out.append(f"#[derive(Debug, Clone, Pread, Pwrite, SizeWith)]\npub struct {name} {{\n{prev}\n}}\n")
    # the macro definition must still add exactly this derive
    mm = re.search(r"macro_rules! multi_structs \{.*?\n\}\n", code, flags=re.S)
    if not mm or "#[derive(Debug, Clone, Pread, Pwrite, SizeWith)]" not in mm.group(0) or "$($prev)* $($cur)*" not in mm.group(0):
        die("macro multi_structs! no longer has the expected shape (derive list / field inheritance)")
    return code[:m.start()] + "\n".join(out) + code[m.end():]


def count_strings(code, name):
    """number of `String` fields of a multi_strings! struct, own fields plus inherited ones"""
    m = re.search(r"multi_strings!\s*\{((?:[^{}]|\{[^{}]*\})*)\}\s*\n", code, flags=re.S)
    if not m:
        die("multi_strings! invocation not found")
    total = 0
    for sname, fields in re.findall(r"pub struct (\w+)\s*\{([^}]*)\}", m.group(1)):
        for f in [x.strip() for x in fields.split(",") if x.strip()]:
            if not re.fullmatch(r"pub \w+\s*:\s*String", f):
                die(f"multi_strings! {sname}: field {f!r} is not `pub name: String`")
            total += 1
        if sname == name:
            return total
    die(f"multi_strings! struct {name} not found")


def main():
    try:
        text = open(SRC, encoding="utf-8").read()
    except OSError as e:
        die(f"cannot read {SRC}: {e}")
    code = re.sub(r"//[^\n]*", "", text)
    code = re.sub(r"/\*.*?\*/", "", code, flags=re.S)

    # ---- normalise the three shapes layouts.py refuses
    norm, n_default = re.subn(r"#\[default\(\[0; \d+\]\)\]\s*", "", code)
    if n_default < 4:
        die(f"expected at least 4 `#[default([0; N])]` field attributes, found {n_default}")
    if re.search(r"#\[default", norm):
        die("a `#[default(..)]` attribute of an unexpected shape is left")
    norm, n_usize = re.subn(r"\[\s*(\w+)\s*;\s*(\d+)usize\s*\]", r"[\1; \2]", norm)
    norm = expand_multi_structs(norm, "MINIDUMP_MAC_CRASH_INFO_RECORD")

    with tempfile.TemporaryDirectory() as tmp:
        src2 = os.path.join(tmp, "format.rs")
        open(src2, "w", encoding="utf-8").write(norm)
        scratch = os.path.join(tmp, "L.lean")
        layouts.WANTED = STRUCTS
        layouts.SRC = src2
        layouts.OUT = scratch
        layouts.main()
        gen = open(scratch, encoding="utf-8").read()

    defs = []
    sizes = {}
    for name in STRUCTS:
        m = re.search(rf"/-- wire size (\d+) -/\ndef {name} : Layout := \[.*\]\n", gen)
        if not m:
            die(f"generated layout of {name} not found")
        sizes[name] = int(m.group(1))
        defs.append(m.group(0))

    arch = enum_values(code, "ProcessorArchitecture")
    for a in ARCHS:
        if a not in arch:
            die(f"ProcessorArchitecture::{a} missing")
    flags = bitflags(code, "ContextFlagsCpu")
    fd = dict(flags)
    for f in CPU_FLAGS_USED:
        if f not in fd:
            die(f"ContextFlagsCpu::{f} missing")
    bp = dict(bitflags(code, "BreakpadInfoValid"))
    for k in ("DumpThreadId", "RequestingThreadId"):
        if k not in bp:
            die(f"BreakpadInfoValid::{k} missing")
    hw = bitflags(code, "ArmElfHwCaps")
    streams = enum_values(code, "MINIDUMP_STREAM_TYPE")
    for s in STREAMS:
        if s not in streams:
            die(f"MINIDUMP_STREAM_TYPE::{s} missing")

    L = [
        "/-",
        "  GENERATED by translators/layouts_c01x.py from minidump-common/src/format.rs — do not edit.",
        "-/",
        "import MdModel.Gen.Layouts",
        "namespace MdModel.Gen.LayoutsX",
        "open MdModel.Gen.Layouts (Layout)",
        "",
    ]
    L += [d for d in defs]
    L.append("/-- `SizeWith::size_with` of the records above (checked against the layouts by `decide` in MdProofs.Lemmas.BytesCtx) -/")
    for name in STRUCTS:
        L.append(f"def SIZE_{name} : Nat := {sizes[name]}")
    L.append("")
    L.append(f"def CONTEXT_CPU_MASK : Nat := {const_u32(code, 'CONTEXT_CPU_MASK')}")
    L.append(f"def CONTEXT_HAS_XSTATE : Nat := {const_u32(code, 'CONTEXT_HAS_XSTATE')}")
    L.append("/-- every bit `ContextFlagsCpu::from_bits_truncate` keeps -/")
    allbits = 0
    for (_, v) in flags:
        allbits |= v
    L.append(f"def CONTEXT_FLAGS_CPU_ALL : Nat := {allbits}")
    for f in CPU_FLAGS_USED:
        L.append(f"def CPUFLAG_{f} : Nat := {fd[f]}")
    L.append("")
    L.append("/-- `ProcessorArchitecture` discriminants -/")
    for a in ARCHS:
        L.append(f"def {a} : Nat := {arch[a]}")
    L.append("/-- every discriminant `ProcessorArchitecture::from_u16` knows -/")
    L.append("def PROCESSOR_ARCHITECTURE_ALL : List Nat := [" + ", ".join(str(v) for v in arch.values()) + "]")
    L.append("")
    for en, wanted in REG_ENUMS.items():
        vals = enum_values(code, en)
        for w in wanted:
            if w not in vals:
                die(f"{en}::{w} missing")
            L.append(f"def {en}_{w} : Nat := {vals[w]}")
    L.append("")
    L.append(f"def BREAKPAD_VALID_DumpThreadId : Nat := {bp['DumpThreadId']}")
    L.append(f"def BREAKPAD_VALID_RequestingThreadId : Nat := {bp['RequestingThreadId']}")
    L.append("/-- `ArmElfHwCaps` bits in declaration order -/")
    L.append("def ARM_ELF_HWCAPS : List (String × Nat) := [" + ", ".join(f'("{n}", {v})' for (n, v) in hw) + "]")
    L.append("")
    for s in ("MINIDUMP_MAC_CRASH_INFO_RECORD_STRINGS", "MINIDUMP_MAC_CRASH_INFO_RECORD_STRINGS_4",
              "MINIDUMP_MAC_CRASH_INFO_RECORD_STRINGS_5"):
        L.append(f"def NUM_STRINGS_{s} : Nat := {count_strings(code, s)}")
    L.append("")
    L.append("/-- `MINIDUMP_STREAM_TYPE` discriminants of the streams modelled here -/")
    for s in STREAMS:
        L.append(f"def ST_{s} : Nat := {streams[s]}")
    L.append("")
    L.append("end MdModel.Gen.LayoutsX")
    new = "\n".join(L) + "\n"
    os.makedirs(os.path.dirname(OUT), exist_ok=True)
    old = open(OUT, encoding="utf-8").read() if os.path.exists(OUT) else None
    if old != new:
        with open(OUT, "w", encoding="utf-8") as f:
            f.write(new)
    print(f"layouts_c01x.py: {len(STRUCTS)} structs -> {os.path.relpath(OUT)}" + (" (unchanged)" if old == new else ""))


if __name__ == "__main__":
    main()
