#!/usr/bin/env python3
"""
translators/cfiwalker.py — regenerate lean/MdModel/Gen/CfiWalkerConsts.lean from
$VERIF_REPO/minidump-unwind/src/{lib,x86,amd64,arm,arm64,arm64_old,mips}.rs and
$VERIF_REPO/minidump-common/src/format.rs.

What is READ OFF the source (per unwinder file) and emitted as Lean tables:
  * `CALLEE_SAVED_REGS`
  * the filter of `callee_forwarded_regs` under `MinidumpContextValidity::Some`: the literal
    `which.contains(reg)` or `<Ctx>::default().register_is_valid(reg, valid)`
  * the stack-pointer test in front of `CfiStackWalker::from_ctx_and_args`: the literal
    `which.contains(STACK_POINTER_REGISTER)` or `ctx.get_register(STACK_POINTER, args.valid())?`
  * the register-name constants used there (resolved through `*RegisterNumbers::name()` of format.rs)
  * the post-processing of `get_caller_by_cfi`: none, or the ARM64 pointer-authentication strip of
    pc / lr / fp (which registers, in which order, through which reader)
  * `Mips32Context`: register width and the methods it overrides

What is PINNED (whitespace- and comment-insensitive digest; a change means MdModel/CfiWalker.lean
has to be re-read against the source, then the digest below updated):
  * `struct CfiStackWalker`, `CfiStackWalker::from_ctx_and_args`, `impl FrameWalker for CfiStackWalker`
  * every `get_caller_by_cfi` and `callee_forwarded_regs`
  * `impl CpuContext for Mips32Context`, `impl TryFrom<MipsContext> for Mips32Context`
An unexpected shape is a failed tie: the script exits non-zero and leaves the previous output.
"""
import hashlib
import os
import re
import sys

REPO = os.path.abspath(os.environ.get("VERIF_REPO", "/repo"))
HERE = os.path.dirname(os.path.abspath(__file__))
OUT = os.path.join(HERE, "..", "lean", "MdModel", "Gen", "CfiWalkerConsts.lean")
SRC = os.path.join(REPO, "minidump-unwind", "src")
FORMAT = os.path.join(REPO, "minidump-common", "src", "format.rs")

FILES = {"x86": "x86.rs", "amd64": "amd64.rs", "arm": "arm.rs", "arm64": "arm64.rs",
         "arm64_old": "arm64_old.rs", "mips": "mips.rs"}

# digest of the normalised text (see `norm`) of the pinned items, as of the /repo this was written against
PINNED = {
    "lib.rs:struct CfiStackWalker": "e2fb0bfd6879be66",
    "lib.rs:from_ctx_and_args": "e5c65e83220c6b74",
    "lib.rs:impl FrameWalker": "aef2b64801d91588",
    "x86.rs:get_caller_by_cfi": "12d77ae8ea8e471d",
    "amd64.rs:get_caller_by_cfi": "45e3c6c4b032e17e",
    "arm.rs:get_caller_by_cfi": "3f0197d735951fc3",
    "arm64.rs:get_caller_by_cfi": "51e0953a4b199723",
    "arm64_old.rs:get_caller_by_cfi": "0e284eac7ae2ca29",
    "mips.rs:get_caller_by_cfi": "16370ba4996817bd",
    "x86.rs:callee_forwarded_regs": "ca9101db186b9627",
    "amd64.rs:callee_forwarded_regs": "ca9101db186b9627",
    "arm.rs:callee_forwarded_regs": "16c10f48079dc36a",
    "arm64.rs:callee_forwarded_regs": "16c10f48079dc36a",
    "arm64_old.rs:callee_forwarded_regs": "16c10f48079dc36a",
    "mips.rs:callee_forwarded_regs": "ca9101db186b9627",
    "mips.rs:impl CpuContext for Mips32Context": "15ae94442f960dd6",
    "mips.rs:impl TryFrom<MipsContext> for Mips32Context": "957649f342b93820",
}


def die(msg):
    sys.stderr.write("cfiwalker.py: " + msg + "\n")
    sys.exit(1)


def read(path):
    if not os.path.exists(path):
        die(f"missing source file {path}")
    text = open(path, encoding="utf-8").read()
    text = re.sub(r"/\*.*?\*/", "", text, flags=re.S)
    text = re.sub(r"//[^\n]*", "", text)
    return text


def norm(s):
    """whitespace-insensitive form: all blanks dropped except between two identifier characters;
    `trace!(…);` statements dropped (logging is not behaviour)"""
    s = re.sub(r"\btrace!\s*\((?:[^()]|\((?:[^()]|\([^()]*\))*\))*\)\s*;", "", s)
    s = re.sub(r"\s+", " ", s).strip()
    s = re.sub(r"(?<![A-Za-z0-9_]) | (?![A-Za-z0-9_])", "", s)
    # a trailing comma before a closing bracket is formatting
    s = re.sub(r",(?=[)\]}])", "", s)
    return s


def block_at(text, start, what, fname):
    """the brace-balanced block whose `{` is the first one at or after `start`; returns (text incl. header, end)"""
    i = text.find("{", start)
    if i < 0:
        die(f"{fname}: no block after <{what}>")
    depth = 0
    j = i
    while j < len(text):
        if text[j] == "{":
            depth += 1
        elif text[j] == "}":
            depth -= 1
            if depth == 0:
                return text[start:j + 1], j + 1
        j += 1
    die(f"{fname}: unbalanced braces after <{what}>")


def item(text, pat, what, fname):
    ms = list(re.finditer(pat, text))
    if len(ms) != 1:
        die(f"{fname}: expected exactly one <{what}> /{pat}/, found {len(ms)}")
    return block_at(text, ms[0].start(), what, fname)[0]


def digest(s):
    return hashlib.sha256(norm(s).encode()).hexdigest()[:16]


def lean_str_list(xs):
    return "[" + ", ".join('"' + x + '"' for x in xs) + "]"


def main():
    show = "--show" in sys.argv
    T = {k: read(os.path.join(SRC, v)) for k, v in FILES.items()}
    lib = read(os.path.join(SRC, "lib.rs"))
    fmt = read(FORMAT)

    found = {}

    def pin(key, text):
        found[key] = digest(text)

    pin("lib.rs:struct CfiStackWalker", item(lib, r"struct CfiStackWalker<'a, C: CpuContext>", "struct CfiStackWalker", "lib.rs"))
    pin("lib.rs:from_ctx_and_args", item(lib, r"fn from_ctx_and_args<P, R>\(", "from_ctx_and_args", "lib.rs"))
    pin("lib.rs:impl FrameWalker", item(lib, r"impl<'a, C> FrameWalker for CfiStackWalker<'a, C>", "impl FrameWalker for CfiStackWalker", "lib.rs"))

    # ---- *RegisterNumbers::name() of format.rs
    names = {}
    for enum in ("ArmRegisterNumbers", "Arm64RegisterNumbers"):
        body = item(fmt, r"impl " + enum + r" \{\s*pub const fn name\(self\) -> &'static str", enum + "::name", "format.rs")
        arms = re.findall(r"Self::(\w+) => \"(\w+)\"", body)
        if not arms:
            die(f"format.rs: no arms in {enum}::name")
        names[enum] = dict(arms)

    out = {}
    for a, fname in FILES.items():
        t = T[a]
        cfi = item(t, r"async fn get_caller_by_cfi<", "get_caller_by_cfi", fname)
        fwd = item(t, r"fn callee_forwarded_regs\(valid: &MinidumpContextValidity\) -> HashSet<&'static str>", "callee_forwarded_regs", fname)
        pin(f"{fname}:get_caller_by_cfi", cfi)
        pin(f"{fname}:callee_forwarded_regs", fwd)

        # -- CALLEE_SAVED_REGS
        ms = re.findall(r"const CALLEE_SAVED_REGS: &\[&str\] = &\[(.*?)\];", t, flags=re.S)
        if len(ms) != 1:
            die(f"{fname}: expected one CALLEE_SAVED_REGS, found {len(ms)}")
        body = ms[0]
        regs = re.findall(r"\"(\w+)\"", body)
        if norm(body).rstrip(",") != norm(",".join('"' + r + '"' for r in regs)) or not regs:
            die(f"{fname}: CALLEE_SAVED_REGS is not a plain list of string literals: {body!r}")

        # -- string constants (literal or through `Registers::X.name()`)
        consts = {}
        reg_ty = re.findall(r"type Registers = minidump::format::(\w+);", t)
        for m in re.finditer(r"const (\w+): &str = (?:\"(\w+)\"|Registers::(\w+)\.name\(\));", t):
            if m.group(2) is not None:
                consts[m.group(1)] = m.group(2)
            else:
                if len(reg_ty) != 1 or reg_ty[0] not in names or m.group(3) not in names[reg_ty[0]]:
                    die(f"{fname}: cannot resolve {m.group(0)}")
                consts[m.group(1)] = names[reg_ty[0]][m.group(3)]

        # -- forwarded filter
        nf = norm(fwd)
        all_arm = "MinidumpContextValidity::All=>CALLEE_SAVED_REGS.iter().copied().collect()"
        lit = "MinidumpContextValidity::Some(ref which)=>CALLEE_SAVED_REGS.iter().filter(|&reg|which.contains(reg)).copied().collect()"
        isv = "MinidumpContextValidity::Some(_)=>CALLEE_SAVED_REGS.iter().filter(|&reg|ArmContext::default().register_is_valid(reg,valid)).copied().collect()"
        if all_arm not in nf:
            die(f"{fname}: callee_forwarded_regs: unexpected `All` arm: {nf}")
        if lit in nf and isv not in nf:
            fwd_rule = "literal"
        elif isv in nf and lit not in nf:
            fwd_rule = "isValid"
        else:
            die(f"{fname}: callee_forwarded_regs: unexpected `Some` arm: {nf}")
        want = "fn callee_forwarded_regs(valid:&MinidumpContextValidity)->HashSet<&'static str>{match valid{" + all_arm + "," + (lit if fwd_rule == "literal" else isv) + "}}"
        if nf != want:
            die(f"{fname}: callee_forwarded_regs has more than the two arms:\n  {nf}\n  {want}")

        # -- stack-pointer test before the walker is built
        nc = norm(cfi)
        m1 = re.search(r"if let MinidumpContextValidity::Some\(ref which\)=args\.valid\(\)\{if!which\.contains\((\w+)\)\{return None;\}\}let mut stack_walker=CfiStackWalker::from_ctx_and_args\(ctx,args,callee_forwarded_regs\)\?;", nc)
        m2 = re.search(r"let _last_sp=ctx\.get_register\((\w+),args\.valid\(\)\)\?;let mut stack_walker=CfiStackWalker::from_ctx_and_args\(ctx,args,callee_forwarded_regs\)\?;", nc)
        if m1 and not m2:
            sp_rule, sp_const = "literal", m1.group(1)
        elif m2 and not m1:
            sp_rule, sp_const = "isValid", m2.group(1)
        else:
            die(f"{fname}: get_caller_by_cfi: unexpected stack-pointer test: {nc[:400]}")
        if sp_const not in consts:
            die(f"{fname}: constant {sp_const} not found")
        # the walk itself
        if "args.symbol_provider.walk_frame(stack_walker.module,&mut stack_walker).await?;" not in nc:
            die(f"{fname}: get_caller_by_cfi: unexpected walk_frame call")
        # the result: caller_ctx with Some(caller_validity), trust CallFrameInfo
        if not re.search(r"valid:(MinidumpContextValidity::Some\(stack_walker\.caller_validity\)|new_valid)\};Some\(StackFrame::from_context\(context,FrameTrust::CallFrameInfo\)\)\}$", nc):
            die(f"{fname}: get_caller_by_cfi: unexpected result construction")

        # -- post-processing: pointer-authentication strip
        strip = []
        if "ptr_auth_strip" in nc:
            m = re.search(
                r"let caller_pc=stack_walker\.caller_ctx\.get_register_always\((\w+)\);"
                r"let caller_sp=stack_walker\.caller_ctx\.get_register_always\((\w+)\);"
                r"let new_valid=MinidumpContextValidity::Some\(stack_walker\.caller_validity\);"
                r"let caller_pc=ptr_auth_strip\(args\.modules,caller_pc\);"
                r"stack_walker\.caller_ctx\.set_register\((\w+),caller_pc\);"
                r"if let Some\(lr\)=stack_walker\.caller_ctx\.get_register\((\w+),&new_valid\)\{stack_walker\.caller_ctx\.set_register\((\w+),ptr_auth_strip\(args\.modules,lr\)\);\}"
                r"if let Some\(fp\)=stack_walker\.caller_ctx\.get_register\((\w+),&new_valid\)\{stack_walker\.caller_ctx\.set_register\((\w+),ptr_auth_strip\(args\.modules,fp\)\);\}", nc)
            if not m:
                die(f"{fname}: get_caller_by_cfi: unexpected pointer-authentication post-processing")
            g = m.groups()
            if g[0] != g[2] or g[3] != g[4] or g[5] != g[6]:
                die(f"{fname}: strip reads and writes different registers: {g}")
            for k in (g[0], g[3], g[5]):
                if k not in consts:
                    die(f"{fname}: constant {k} not found")
            # (name, read raw = true / read through the new validity = false)
            strip = [(consts[g[0]], True), (consts[g[3]], False), (consts[g[5]], False)]
            if nc.count("ptr_auth_strip") != 3:
                die(f"{fname}: more ptr_auth_strip calls than expected")
        out[a] = dict(saved=regs, fwd=fwd_rule, sp_rule=sp_rule, sp=consts[sp_const], strip=strip)

    # ---- Mips32Context
    mt = T["mips"]
    impl = item(mt, r"impl CpuContext for Mips32Context", "impl CpuContext for Mips32Context", "mips.rs")
    pin("mips.rs:impl CpuContext for Mips32Context", impl)
    pin("mips.rs:impl TryFrom<MipsContext> for Mips32Context",
        item(mt, r"impl TryFrom<MipsContext> for Mips32Context", "impl TryFrom for Mips32Context", "mips.rs"))
    ni = norm(impl)
    want = ("impl CpuContext for Mips32Context{type Register=u32;"
            "const REGISTERS:&'static[&'static str]=<MipsContext as CpuContext>::REGISTERS;"
            "fn get_register_always(&self,reg:&str)->Self::Register{self.0.get_register_always(reg)as u32}"
            "fn set_register(&mut self,reg:&str,val:Self::Register)->Option<()>{self.0.set_register(reg,val.into())}"
            "fn stack_pointer_register_name(&self)->&'static str{self.0.stack_pointer_register_name()}"
            "fn instruction_pointer_register_name(&self)->&'static str{self.0.instruction_pointer_register_name()}}")
    if ni != want:
        die("mips.rs: impl CpuContext for Mips32Context changed shape:\n  " + ni + "\n  " + want)
    if "type MipsContext = minidump::format::CONTEXT_MIPS;" not in mt:
        die("mips.rs: MipsContext is not CONTEXT_MIPS")
    nm = norm(item(mt, r"pub async fn get_caller_frame<P>\(", "get_caller_frame", "mips.rs"))
    if "let ctx32=Mips32Context::try_from(ctx.clone());" not in nm or \
       "match&ctx32{Ok(mips32)=>frame=get_caller_by_cfi(mips32,args).await,Err(mips64)=>frame=get_caller_by_cfi(mips64,args).await}" not in nm:
        die("mips.rs: get_caller_frame no longer dispatches get_caller_by_cfi on Mips32Context::try_from")

    if show:
        for k in PINNED:
            print(f'    "{k}": "{found.get(k)}",')
        return
    bad = [k for k in PINNED if found.get(k) != PINNED[k]]
    if bad:
        die("pinned source text changed (re-read it against lean/MdModel/CfiWalker.lean, then update PINNED; "
            "`cfiwalker.py --show` prints the current digests): " + ", ".join(bad))

    L = []
    L.append("/-")
    L.append("  GENERATED by translators/cfiwalker.py from minidump-unwind/src/{x86,amd64,arm,arm64,arm64_old,mips}.rs")
    L.append("  and minidump-common/src/format.rs — do not edit.")
    L.append("-/")
    L.append("namespace MdModel.Gen.CfiWalkerConsts")
    L.append("")
    L.append("/-- the six unwinder source files -/")
    L.append("inductive Unw where")
    for a in FILES:
        L.append(f"  | {a}")
    L.append("  deriving DecidableEq, Repr")
    L.append("")
    L.append("/-- how a validity set is consulted: `which.contains(name)` / through `register_is_valid` -/")
    L.append("inductive Lookup where")
    L.append("  | literal | isValid")
    L.append("  deriving DecidableEq, Repr")
    L.append("")
    L.append("/-- `const CALLEE_SAVED_REGS` -/")
    L.append("def calleeSaved : Unw → List String")
    for a in FILES:
        L.append(f"  | .{a} => {lean_str_list(out[a]['saved'])}")
    L.append("")
    L.append("/-- the `Some(..)` arm of `callee_forwarded_regs` -/")
    L.append("def fwdLookup : Unw → Lookup")
    for a in FILES:
        L.append(f"  | .{a} => .{out[a]['fwd']}")
    L.append("")
    L.append("/-- the stack-pointer test at the head of `get_caller_by_cfi`: how, and under which name -/")
    L.append("def spLookup : Unw → Lookup")
    for a in FILES:
        L.append(f"  | .{a} => .{out[a]['sp_rule']}")
    L.append("")
    L.append("def spTestName : Unw → String")
    for a in FILES:
        L.append(f"  | .{a} => \"{out[a]['sp']}\"")
    L.append("")
    L.append("/-- pointer-authentication strip after a successful walk: registers in order, `true` = read raw")
    L.append("    (`get_register_always`), `false` = only when valid in the caller (`get_register(.., &new_valid)`) -/")
    L.append("def stripRegs : Unw → List (String × Bool)")
    for a in FILES:
        items = ", ".join(f'("{n}", {"true" if raw else "false"})' for n, raw in out[a]["strip"])
        L.append(f"  | .{a} => [{items}]")
    L.append("")
    L.append("/-- `Mips32Context`: `type Register = u32`; overrides exactly `get_register_always` (`as u32`),")
    L.append("    `set_register` (`.into()`), the sp/ip names (delegated); `REGISTERS` = CONTEXT_MIPS's -/")
    L.append("def mips32Bits : Nat := 32")
    L.append("")
    L.append("end MdModel.Gen.CfiWalkerConsts")
    text = "\n".join(L) + "\n"
    os.makedirs(os.path.dirname(OUT), exist_ok=True)
    old = open(OUT, encoding="utf-8").read() if os.path.exists(OUT) else None
    if old != text:
        open(OUT, "w", encoding="utf-8").write(text)
    print("cfiwalker.py: ok")


if __name__ == "__main__":
    main()
