#!/usr/bin/env python3
"""
translators/layouts.py — regenerate lean/MdModel/Gen/Layouts.lean from
$VERIF_REPO/minidump-common/src/format.rs.

For every `#[derive(.. Pread .. SizeWith ..)] pub struct NAME { .. }` listed in WANTED it emits the
*flattened* wire layout: the list of scalar fields (dotted name, width in bytes) in declaration
order — exactly the sequence of `gread_with` calls scroll's derive performs (nested structs are
read field by field, fixed arrays element by element, no padding). The Lean decoder
(`MdModel.Dump.readFields`) is driven by these tables, so a reordered / retyped / added field in
format.rs changes the model the theorems and the correspondence are about.

Strict: any shape it does not recognise (missing struct, missing derive, unknown field type,
attribute on a field, generic parameter ...) is an error (exit 1), never a silent default.
Also emitted: MINIDUMP_SIGNATURE, MINIDUMP_VERSION, the CodeView signatures and the largest valid
MINIDUMP_HANDLE_OBJECT_INFORMATION_TYPE discriminant.
"""
import os
import re
import sys

REPO = os.environ.get("VERIF_REPO", "/repo")
SRC = os.path.join(REPO, "minidump-common", "src", "format.rs")
HERE = os.path.dirname(os.path.abspath(__file__))
OUT = os.path.join(HERE, "..", "lean", "MdModel", "Gen", "Layouts.lean")

# structs used by the modelled streams (C01 reader kernel, C02 round trip)
WANTED = [
    "MINIDUMP_HEADER", "MINIDUMP_LOCATION_DESCRIPTOR", "MINIDUMP_MEMORY_DESCRIPTOR",
    "MINIDUMP_MEMORY_DESCRIPTOR64", "MINIDUMP_DIRECTORY", "MINIDUMP_THREAD_NAME", "MINIDUMP_MODULE",
    "MINIDUMP_UNLOADED_MODULE", "VS_FIXEDFILEINFO", "GUID", "MINIDUMP_THREAD",
    "MINIDUMP_EXCEPTION_STREAM", "MINIDUMP_EXCEPTION", "MINIDUMP_MEMORY_INFO",
    "MINIDUMP_HANDLE_OBJECT_INFORMATION", "MINIDUMP_HANDLE_DESCRIPTOR", "MINIDUMP_HANDLE_DESCRIPTOR_2",
    "MINIDUMP_THREAD_INFO", "MINIDUMP_CRASHPAD_INFO", "MINIDUMP_MODULE_CRASHPAD_INFO_LINK",
    "MINIDUMP_MODULE_CRASHPAD_INFO", "MINIDUMP_SIMPLE_STRING_DICTIONARY_ENTRY", "MINIDUMP_ANNOTATION",
]
SCALARS = {"u8": 1, "i8": 1, "u16": 2, "i16": 2, "u32": 4, "i32": 4, "u64": 8, "i64": 8, "u128": 16}


def die(msg):
    sys.stderr.write(f"layouts.py: {msg}\n")
    sys.exit(1)


def main():
    try:
        text = open(SRC, encoding="utf-8").read()
    except OSError as e:
        die(f"cannot read {SRC}: {e}")
    # drop comments (doc comments included)
    code = re.sub(r"//[^\n]*", "", text)

    aliases = {}
    for m in re.finditer(r"^pub type (\w+) = (\w+);", code, flags=re.M):
        aliases[m.group(1)] = m.group(2)
    for a in ("RVA", "RVA64"):
        if a not in aliases or aliases[a] not in SCALARS:
            die(f"type alias {a} missing or not a scalar")

    structs = {}
    pat = re.compile(r"((?:#\[[^\]]*\]\s*)+)pub struct (\w+)\s*\{([^}]*)\}", re.S)
    for m in pat.finditer(code):
        attrs, name, body = m.group(1), m.group(2), m.group(3)
        structs[name] = (attrs, body)

    def fields_of(name, stack=()):
        if name in stack:
            die(f"recursive struct {name}")
        if name not in structs:
            die(f"struct {name} not found in format.rs")
        attrs, body = structs[name]
        dm = re.search(r"#\[derive\(([^)]*)\)\]", attrs)
        derives = [d.strip() for d in dm.group(1).split(",")] if dm else []
        if "Pread" not in derives or "SizeWith" not in derives:
            die(f"struct {name} no longer derives Pread + SizeWith (derives: {derives})")
        if "repr" in attrs and "packed" in attrs:
            die(f"struct {name}: unexpected packed repr")
        out = []
        for raw in body.split(","):
            f = raw.strip()
            if not f:
                continue
            fm = re.fullmatch(r"(?:pub(?:\([^)]*\))?\s+)?(\w+)\s*:\s*(.+)", f, flags=re.S)
            if not fm:
                die(f"struct {name}: unrecognised field declaration {f!r}")
            fname, ty = fm.group(1), fm.group(2).strip()
            out += expand(fname, ty, stack + (name,))
        if not out:
            die(f"struct {name} has no fields")
        return out

    def expand(fname, ty, stack):
        ty = aliases.get(ty, ty)
        if ty in SCALARS:
            return [(fname, SCALARS[ty])]
        am = re.fullmatch(r"\[\s*(\w+)\s*;\s*(\d+)\s*\]", ty)
        if am:
            n = int(am.group(2))
            res = []
            for i in range(n):
                res += expand(f"{fname}[{i}]", am.group(1), stack)
            return res
        if re.fullmatch(r"\w+", ty) and ty in structs:
            return [(f"{fname}.{n}", w) for (n, w) in fields_of(ty, stack)]
        die(f"struct {stack[-1]}: field {fname} has unsupported type {ty!r}")

    def const(name):
        m = re.search(rf"^pub const {name}: u32 = (0x[0-9a-fA-F_]+|\d+);", code, flags=re.M)
        if not m:
            die(f"constant {name} not found")
        return int(m.group(1).replace("_", ""), 0)

    def enum_variants(name):
        m = re.search(rf"pub enum {name}\s*\{{([^}}]*)\}}", code, flags=re.S)
        if not m:
            die(f"enum {name} not found")
        vs = []
        nxt = 0
        for raw in m.group(1).split(","):
            v = raw.strip()
            if not v:
                continue
            vm = re.fullmatch(r"(\w+)(?:\s*=\s*(0x[0-9a-fA-F_]+|\d+))?", v)
            if not vm:
                die(f"enum {name}: unrecognised variant {v!r}")
            val = int(vm.group(2).replace("_", ""), 0) if vm.group(2) else nxt
            vs.append((vm.group(1), val))
            nxt = val + 1
        return vs

    cv = dict(enum_variants("CvSignature"))
    for k in ("Pdb20", "Pdb70", "Elf"):
        if k not in cv:
            die(f"CvSignature::{k} missing")
    oi = enum_variants("MINIDUMP_HANDLE_OBJECT_INFORMATION_TYPE")
    if [v for (_, v) in oi] != list(range(len(oi))):
        die("MINIDUMP_HANDLE_OBJECT_INFORMATION_TYPE is no longer the contiguous range 0..n")

    def assoc_const(struct, name):
        m = re.search(rf"impl {struct}\s*\{{([^}}]*)\}}", code, flags=re.S)
        if not m:
            die(f"impl {struct} not found")
        c = re.search(rf"pub const {name}: u16 = (0x[0-9a-fA-F_]+|\d+);", m.group(1))
        if not c:
            die(f"{struct}::{name} not found")
        return int(c.group(1).replace("_", ""), 0)

    lines = [
        "/-",
        "  GENERATED by translators/layouts.py from minidump-common/src/format.rs — do not edit.",
        "  Flattened wire layouts (scalar fields in the order scroll's derive(Pread) reads them).",
        "-/",
        "namespace MdModel.Gen.Layouts",
        "",
        "/-- a flattened wire layout: (dotted field name, width in bytes) in reading order -/",
        "abbrev Layout := List (String × Nat)",
        "",
        f"def MINIDUMP_SIGNATURE : Nat := {const('MINIDUMP_SIGNATURE')}",
        f"def MINIDUMP_VERSION : Nat := {const('MINIDUMP_VERSION')}",
        f"def CV_SIGNATURE_PDB20 : Nat := {cv['Pdb20']}",
        f"def CV_SIGNATURE_PDB70 : Nat := {cv['Pdb70']}",
        f"def CV_SIGNATURE_ELF : Nat := {cv['Elf']}",
        "/-- `MINIDUMP_HANDLE_OBJECT_INFORMATION_TYPE::from_u32 v` is `Some` iff `v < OBJECT_INFO_TYPE_COUNT` -/",
        f"def OBJECT_INFO_TYPE_COUNT : Nat := {len(oi)}",
        f"def ANNOTATION_TYPE_INVALID : Nat := {assoc_const('MINIDUMP_ANNOTATION', 'TYPE_INVALID')}",
        f"def ANNOTATION_TYPE_STRING : Nat := {assoc_const('MINIDUMP_ANNOTATION', 'TYPE_STRING')}",
        f"def ANNOTATION_TYPE_USER_DEFINED : Nat := {assoc_const('MINIDUMP_ANNOTATION', 'TYPE_USER_DEFINED')}",
        "",
    ]
    for name in WANTED:
        fs = fields_of(name)
        items = ", ".join(f'("{n}", {w})' for (n, w) in fs)
        lines.append(f"/-- wire size {sum(w for _, w in fs)} -/")
        lines.append(f"def {name} : Layout := [{items}]")
        lines.append("")
    lines.append("def all : List (String × Layout) := [" + ", ".join(f'("{n}", {n})' for n in WANTED) + "]")
    lines.append("")
    lines.append("end MdModel.Gen.Layouts")
    new = "\n".join(lines) + "\n"
    os.makedirs(os.path.dirname(OUT), exist_ok=True)
    old = open(OUT, encoding="utf-8").read() if os.path.exists(OUT) else None
    if old != new:
        with open(OUT, "w", encoding="utf-8") as f:
            f.write(new)
    print(f"layouts.py: {len(WANTED)} structs -> {os.path.relpath(OUT)}" + (" (unchanged)" if old == new else ""))


if __name__ == "__main__":
    main()
