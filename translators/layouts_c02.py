#!/usr/bin/env python3
"""
translators/layouts_c02.py — regenerate lean/MdModel/Gen/LayoutsC02.lean from
$VERIF_REPO/minidump-common/src/format.rs: what C02's model needs beyond layouts.py's tables.

  * the flattened wire layout of MINIDUMP_SYSTEM_INFO (incl. the nested CPU_INFORMATION byte array),
    produced by layouts.py's own strict struct parser (same rules, same failure modes);
  * VS_FFI_SIGNATURE / VS_FFI_STRUCVERSION;
  * the PlatformId discriminants `Os::from_platform_id` maps to an operating system;
  * the MINIDUMP_STREAM_TYPE discriminants of the streams C02 covers;
  * the five MINIDUMP_MISC_INFO* layouts. They are declared through the `multi_structs!` macro (each
    struct = the fields of all previous ones + its own; the macro adds the derive), which layouts.py
    does not read: the macro body is parsed here (strictly), nested types (TIME_ZONE_INFORMATION,
    SYSTEMTIME, XSTATE_CONFIG_FEATURE_MSC_INFO, XSTATE_FEATURE) come from layouts.py's parser;
  * the `MiscInfoFlags` bits, and the accessor table of `RawMiscInfo` (the `misc_accessors!(..)`
    invocation in minidump/src/minidump.rs: field, version it appeared in, guarding flag);
  * the wire size of MINIDUMP_HANDLE_DATA_STREAM (the handle-data header).

Strict: anything unexpected is an error (exit 1).
"""
import os
import re
import sys
import tempfile

HERE = os.path.dirname(os.path.abspath(__file__))
sys.path.insert(0, HERE)
import layouts  # noqa: E402

OUT = os.path.join(HERE, "..", "lean", "MdModel", "Gen", "LayoutsC02.lean")
STRUCTS = ["MINIDUMP_SYSTEM_INFO", "CPU_INFORMATION", "TIME_ZONE_INFORMATION", "SYSTEMTIME",
           "XSTATE_CONFIG_FEATURE_MSC_INFO", "XSTATE_FEATURE", "MINIDUMP_HANDLE_DATA_STREAM"]
MISC_STRUCTS = ["MINIDUMP_MISC_INFO", "MINIDUMP_MISC_INFO_2", "MINIDUMP_MISC_INFO_3", "MINIDUMP_MISC_INFO_4",
                "MINIDUMP_MISC_INFO_5"]
MISC_FLAGS = ["MINIDUMP_MISC1_PROCESS_ID", "MINIDUMP_MISC1_PROCESS_TIMES", "MINIDUMP_MISC1_PROCESSOR_POWER_INFO",
              "MINIDUMP_MISC3_PROCESS_INTEGRITY", "MINIDUMP_MISC3_PROCESS_EXECUTE_FLAGS", "MINIDUMP_MISC3_TIMEZONE",
              "MINIDUMP_MISC3_PROTECTED_PROCESS", "MINIDUMP_MISC4_BUILDSTRING", "MINIDUMP_MISC5_PROCESS_COOKIE"]
PLATFORMS = ["VER_PLATFORM_WIN32_WINDOWS", "VER_PLATFORM_WIN32_NT", "MacOs", "Ios", "Linux", "Solaris", "Android", "Ps3", "NaCl"]
STREAMS = ["ThreadListStream", "ModuleListStream", "MemoryListStream", "ExceptionStream", "SystemInfoStream",
           "Memory64ListStream", "UnloadedModuleListStream", "MemoryInfoListStream", "ThreadNamesStream",
           "MiscInfoStream", "HandleDataStream", "LinuxMaps", "CrashpadInfoStream"]


def die(msg):
    sys.stderr.write(f"layouts_c02.py: {msg}\n")
    sys.exit(1)


def enum_values(code, name):
    m = re.search(rf"pub enum {name}\s*\{{([^}}]*)\}}", code, flags=re.S)
    if not m:
        die(f"enum {name} not found")
    vals = {}
    for raw in m.group(1).split(","):
        v = raw.strip()
        if not v:
            continue
        vm = re.fullmatch(r"(\w+)\s*=\s*(0x[0-9a-fA-F_]+|\d+)", v)
        if not vm:
            die(f"enum {name}: variant without explicit discriminant: {v!r}")
        vals[vm.group(1)] = int(vm.group(2).replace("_", ""), 0)
    return vals


def parse_layout(gen, name):
    """read one `def NAME : Layout := [("f", w), ...]` back from layouts.py's output"""
    m = re.search(rf"^def {name} : Layout := \[(.*)\]$", gen, flags=re.M)
    if not m:
        die(f"layouts.py did not emit {name}")
    items = re.findall(r'\("([^"]+)", (\d+)\)', m.group(1))
    if not items:
        die(f"layout {name} is empty")
    return [(n, int(w)) for (n, w) in items]


def misc_layouts(code, gen):
    """the structs declared through `multi_structs!`: cumulative field lists, flattened"""
    mac = re.search(r"macro_rules! multi_structs \{(.*?)\n\}\n", code, flags=re.S)
    if not mac:
        die("macro multi_structs not found")
    dm = re.search(r"#\[derive\(([^)]*)\)\]\s*pub struct \$name", mac.group(1))
    derives = [d.strip() for d in dm.group(1).split(",")] if dm else []
    if "Pread" not in derives or "SizeWith" not in derives:
        die(f"multi_structs! no longer derives Pread + SizeWith (derives: {derives})")
    if "@next { $($prev:tt)* }" not in mac.group(1) or "{ $($prev)* $($cur)* }" not in mac.group(1):
        die("multi_structs! no longer prepends the previous struct's fields")
    inv = re.search(r"^multi_structs! \{(.*?)^\}", code, flags=re.S | re.M)
    if not inv:
        die("multi_structs! invocation not found")
    body = re.sub(r"/\*.*?\*/", "", inv.group(1), flags=re.S)
    decls = re.findall(r"pub struct (\w+)\s*\{([^}]*)\}", body)
    if [n for (n, _) in decls] != MISC_STRUCTS:
        die(f"multi_structs! declares {[n for (n, _) in decls]}, expected {MISC_STRUCTS}")
    leftover = re.sub(r"pub struct (\w+)\s*\{([^}]*)\}", "", body).strip()
    if leftover:
        die(f"multi_structs! invocation: unrecognised text {leftover[:80]!r}")
    nested = {n: parse_layout(gen, n) for n in ("TIME_ZONE_INFORMATION", "XSTATE_CONFIG_FEATURE_MSC_INFO")}

    def expand(fname, ty):
        if ty in layouts.SCALARS:
            return [(fname, layouts.SCALARS[ty])]
        am = re.fullmatch(r"\[\s*(\w+)\s*;\s*(\d+)\s*\]", ty)
        if am:
            res = []
            for i in range(int(am.group(2))):
                res += expand(f"{fname}[{i}]", am.group(1))
            return res
        if ty in nested:
            return [(f"{fname}.{n}", w) for (n, w) in nested[ty]]
        die(f"multi_structs!: field {fname} has unsupported type {ty!r}")

    out, acc = [], []
    for name, fields in decls:
        own = []
        for raw in fields.split(","):
            f = raw.strip()
            if not f:
                continue
            fm = re.fullmatch(r"pub\s+(\w+)\s*:\s*(.+)", f, flags=re.S)
            if not fm:
                die(f"struct {name}: unrecognised field declaration {f!r}")
            own += expand(fm.group(1), fm.group(2).strip())
        if not own:
            die(f"struct {name} adds no fields")
        acc = acc + own
        out.append((name, list(acc)))
    return out


def main():
    # 1. the struct layouts, through layouts.py's parser (into a scratch file)
    with tempfile.TemporaryDirectory() as tmp:
        scratch = os.path.join(tmp, "L.lean")
        layouts.WANTED = STRUCTS
        layouts.OUT = scratch
        layouts.main()
        gen = open(scratch, encoding="utf-8").read()
    defs = []
    for name in STRUCTS[:2] + STRUCTS[-1:]:
        m = re.search(rf"^(/-- wire size \d+ -/\ndef {name} : Layout := \[.*\])$", gen, flags=re.M)
        if not m:
            die(f"layouts.py did not emit {name}")
        defs.append(m.group(1))

    text = open(layouts.SRC, encoding="utf-8").read()
    code = re.sub(r"/\*.*?\*/", "", text, flags=re.S)
    code = re.sub(r"//[^\n]*", "", code)

    def const(name):
        m = re.search(rf"^pub const {name}: u32 = (0x[0-9a-fA-F_]+|\d+);", code, flags=re.M)
        if not m:
            die(f"constant {name} not found")
        return int(m.group(1).replace("_", ""), 0)

    plat = enum_values(code, "PlatformId")
    st = enum_values(code, "MINIDUMP_STREAM_TYPE")
    for k in PLATFORMS:
        if k not in plat:
            die(f"PlatformId::{k} missing")
    for k in STREAMS:
        if k not in st:
            die(f"MINIDUMP_STREAM_TYPE::{k} missing")

    lines = [
        "/-",
        "  GENERATED by translators/layouts_c02.py from minidump-common/src/format.rs — do not edit.",
        "-/",
        "import MdModel.Gen.Layouts",
        "namespace MdModel.Gen.LayoutsC02",
        "open MdModel.Gen.Layouts (Layout)",
        "",
    ]
    for d in defs:
        lines += [d, ""]
    misc = misc_layouts(code, gen)
    for name, fs in misc:
        items = ", ".join(f'("{n}", {w})' for (n, w) in fs)
        lines += [f"/-- wire size {sum(w for _, w in fs)} -/", f"def {name} : Layout := [{items}]", ""]
    fl = re.search(r"pub struct MiscInfoFlags: u32\s*\{([^}]*)\}", code, flags=re.S)
    if not fl:
        die("bitflags MiscInfoFlags not found")
    flags = dict((k, int(v.replace("_", ""), 0))
                 for (k, v) in re.findall(r"const (\w+)\s*=\s*(0x[0-9a-fA-F_]+|\d+);", fl.group(1)))
    for k in MISC_FLAGS:
        if k not in flags:
            die(f"MiscInfoFlags::{k} missing")
    if sorted(flags) != sorted(MISC_FLAGS):
        die(f"MiscInfoFlags has unexpected members: {sorted(set(flags) - set(MISC_FLAGS))}")
    lines.append("/-- `MiscInfoFlags` bits -/")
    for k in MISC_FLAGS:
        lines.append(f"def {k} : Nat := {flags[k]}")
    lines.append("")
    # the accessor table of RawMiscInfo (minidump.rs)
    rd = re.sub(r"//[^\n]*", "", open(os.path.join(layouts.REPO, "minidump", "src", "minidump.rs"), encoding="utf-8").read())
    am = re.search(r"impl RawMiscInfo \{\s*misc_accessors!\((.*?)\);\s*\}", rd, flags=re.S)
    if not am:
        die("impl RawMiscInfo { misc_accessors!(..) } not found in minidump.rs")
    # the macro itself: `@def` tests the flag with from_bits_truncate(raw.flags1).contains(FLAG); version n covers MiscInfo n..5
    mm = re.search(r"macro_rules! misc_accessors \{(.*?)\n\}\n", rd, flags=re.S)
    if not mm or "from_bits_truncate(raw.flags1).contains(md::MiscInfoFlags::$flag)" not in mm.group(1):
        die("misc_accessors!: the flag test is no longer from_bits_truncate(raw.flags1).contains(FLAG)")
    for v, variants in [(1, "MiscInfo MiscInfo2 MiscInfo3 MiscInfo4 MiscInfo5"), (2, "MiscInfo2 MiscInfo3 MiscInfo4 MiscInfo5"),
                        (3, "MiscInfo3 MiscInfo4 MiscInfo5"), (4, "MiscInfo4 MiscInfo5"), (5, "MiscInfo5")]:
        if mm.group(1).count(f"[{variants}]") != 2:
            die(f"misc_accessors!: version {v} no longer covers exactly [{variants}]")
    acc = []
    for raw in am.group(1).split(","):
        a = " ".join(raw.split())
        if not a:
            continue
        x = re.fullmatch(r"(\d): (\w+)(?: if (\w+))? -> (.+)", a)
        if not x:
            die(f"misc_accessors!: unrecognised entry {a!r}")
        if x.group(3) and x.group(3) not in flags:
            die(f"misc_accessors!: unknown flag {x.group(3)}")
        acc.append((x.group(2), int(x.group(1)), x.group(3)))
    lines.append("/-- `RawMiscInfo`'s accessors: (field, first MISC_INFO version that has it, guarding flag) -/")
    lines.append("def MISC_ACCESSORS : List (String × Nat × Option Nat) := [" +
                 ", ".join(f'("{n}", {v}, {"none" if f is None else "some " + f})' for (n, v, f) in acc) + "]")
    lines.append("")
    lines.append(f"def VS_FFI_SIGNATURE : Nat := {const('VS_FFI_SIGNATURE')}")
    lines.append(f"def VS_FFI_STRUCVERSION : Nat := {const('VS_FFI_STRUCVERSION')}")
    lines.append("")
    lines.append("/-- `PlatformId` discriminants that `Os::from_platform_id` recognises -/")
    for k in PLATFORMS:
        lines.append(f"def PLATFORM_{k} : Nat := {plat[k]}")
    lines.append("")
    lines.append("/-- `MINIDUMP_STREAM_TYPE` discriminants of the covered streams -/")
    for k in STREAMS:
        lines.append(f"def ST_{k} : Nat := {st[k]}")
    lines += ["", "end MdModel.Gen.LayoutsC02"]
    new = "\n".join(lines) + "\n"
    old = open(OUT, encoding="utf-8").read() if os.path.exists(OUT) else None
    if old != new:
        with open(OUT, "w", encoding="utf-8") as f:
            f.write(new)
    print(f"layouts_c02.py: {len(STRUCTS)} structs, {len(PLATFORMS)} platform ids, {len(STREAMS)} stream types -> "
          f"{os.path.relpath(OUT)}" + (" (unchanged)" if old == new else ""))


if __name__ == "__main__":
    main()
