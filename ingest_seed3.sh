#!/bin/bash
# copy the deliverables of a round-3 seeder from its scratch worktree into seeded/<id>-3a, seeded/<id>-3b
set -e
for id in "$@"; do
  for v in A B; do
    src=/tmp/seed3/$id/_seed/$v
    [ -f $src/patch.diff ] || { echo "$id/$v: no patch"; continue; }
    l=$(echo $v | tr AB ab)
    dst=/verif/seeded/$id-3$l
    mkdir -p $dst
    cp $src/patch.diff $src/demo_patch.diff $src/meta.json $dst/
    cp $src/*.rs $dst/ 2>/dev/null || true
    echo "ingested $dst"
  done
done
