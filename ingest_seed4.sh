#!/bin/bash
# copy the deliverables of a round-4 seeder from its scratch worktree into seeded/<id>-4a, seeded/<id>-4b
set -e
for id in "$@"; do
  for v in A B; do
    src=/tmp/seed4/$id/_seed/$v
    [ -f $src/patch.diff ] || { echo "$id/$v: no patch"; continue; }
    l=$(echo $v | tr AB ab)
    dst=/verif/seeded/$id-4$l
    mkdir -p $dst
    cp $src/patch.diff $src/demo_patch.diff $src/meta.json $dst/
    cp $src/*.rs $dst/ 2>/dev/null || true
    echo "ingested $dst"
  done
  git -C /repo worktree remove --force /tmp/seed4/$id
done
