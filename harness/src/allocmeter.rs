//! Counting global allocator (C01: "never sizes an allocation from a count the file cannot back").
//!
//! Installed as the harness binary's `#[global_allocator]`. It forwards to `System`; per thread it
//! can be switched on (`start`) to record, for the code that runs on that thread until `stop`:
//! number of requests, total bytes requested, the largest single request, and the sizes of the
//! first `LOG_CAP` requests of at least `LOG_MIN` bytes. When metering is off the cost is one
//! thread-local read and a branch per allocation.
//!
//! Runaway guard: a metered thread that asks for more than `HARD_SINGLE` bytes at once, or more
//! than `HARD_TOTAL` bytes in total, is *parked forever inside the allocator* after publishing what
//! it asked for in its `Shared` block (an allocator must not unwind, and returning null would abort
//! the whole process). The engine's watchdog sees the case time out, reads the block and reports
//! the request as an `alloc-runaway` violation instead of the harness dying of OOM.

use std::alloc::{GlobalAlloc, Layout, System};
use std::cell::{Cell, UnsafeCell};
use std::sync::atomic::{AtomicU64, Ordering};
use std::sync::Arc;

pub const LOG_MIN: usize = 256;
pub const LOG_CAP: usize = 1024;
/// largest single request a metered thread is allowed to make (bytes)
pub const HARD_SINGLE: u64 = 1 << 29;
/// largest total a metered thread is allowed to request (bytes)
pub const HARD_TOTAL: u64 = 1 << 30;

/// Published by a metered thread for its watchdog.
#[derive(Default)]
pub struct Shared {
    /// size of the request that tripped the guard (0 = none)
    pub runaway_request: AtomicU64,
    /// total requested so far when the guard tripped
    pub runaway_total: AtomicU64,
    /// what the metered thread is doing (set by the engine before each guarded operation)
    pub current_op: std::sync::Mutex<String>,
    /// per-case override of `HARD_TOTAL` (0 = use the constant); C03 scales the guard with the case's budget
    pub hard_total: AtomicU64,
    /// per-case limit on the live bytes of a metered thread (0 = none)
    pub hard_live: AtomicU64,
}

struct State {
    on: Cell<bool>,
    count: Cell<u64>,
    total: Cell<u64>,
    max: Cell<u64>,
    /// bytes requested and not yet released while metering (C03: peak of live bytes)
    live: Cell<u64>,
    peak: Cell<u64>,
    log_len: Cell<usize>,
    log_overflow: Cell<bool>,
    log: UnsafeCell<[u64; LOG_CAP]>,
    shared: Cell<*const Shared>,
}

thread_local! {
    static ST: State = const { State {
        on: Cell::new(false), count: Cell::new(0), total: Cell::new(0), max: Cell::new(0),
        live: Cell::new(0), peak: Cell::new(0),
        log_len: Cell::new(0), log_overflow: Cell::new(false),
        log: UnsafeCell::new([0; LOG_CAP]), shared: Cell::new(std::ptr::null()),
    } };
}

pub struct Meter;

#[inline]
fn note(size: usize) {
    let _ = ST.try_with(|s| {
        if !s.on.get() {
            return;
        }
        let sz = size as u64;
        s.count.set(s.count.get() + 1);
        let total = s.total.get().saturating_add(sz);
        s.total.set(total);
        if sz > s.max.get() {
            s.max.set(sz);
        }
        let live = s.live.get().saturating_add(sz);
        s.live.set(live);
        if live > s.peak.get() {
            s.peak.set(live);
        }
        if size >= LOG_MIN {
            let n = s.log_len.get();
            if n < LOG_CAP {
                unsafe { (*s.log.get())[n] = sz };
                s.log_len.set(n + 1);
            } else {
                s.log_overflow.set(true);
            }
        }
        let p = s.shared.get();
        let hard_total = if p.is_null() { HARD_TOTAL } else { match unsafe { (*p).hard_total.load(Ordering::Relaxed) } { 0 => HARD_TOTAL, n => n } };
        let hard_live = if p.is_null() { u64::MAX } else { match unsafe { (*p).hard_live.load(Ordering::Relaxed) } { 0 => u64::MAX, n => n } };
        if sz > HARD_SINGLE || total > hard_total || live > hard_live {
            if !p.is_null() {
                unsafe {
                    (*p).runaway_total.store(total, Ordering::SeqCst);
                    (*p).runaway_request.store(sz.max(1), Ordering::SeqCst);
                }
            }
            s.on.set(false);
            loop {
                std::thread::park();
            }
        }
    });
}

/// a block goes back to the allocator (blocks that were requested before metering started are
/// released too: the count saturates at 0, so the peak is a lower bound of the true peak)
#[inline]
fn release(size: usize) {
    let _ = ST.try_with(|s| {
        if s.on.get() {
            s.live.set(s.live.get().saturating_sub(size as u64));
        }
    });
}

unsafe impl GlobalAlloc for Meter {
    #[inline]
    unsafe fn alloc(&self, l: Layout) -> *mut u8 {
        note(l.size());
        System.alloc(l)
    }
    #[inline]
    unsafe fn dealloc(&self, p: *mut u8, l: Layout) {
        release(l.size());
        System.dealloc(p, l)
    }
    #[inline]
    unsafe fn alloc_zeroed(&self, l: Layout) -> *mut u8 {
        note(l.size());
        System.alloc_zeroed(l)
    }
    #[inline]
    unsafe fn realloc(&self, p: *mut u8, l: Layout, new_size: usize) -> *mut u8 {
        // a growing `Vec`/`String`: the new block is what is being asked for
        note(new_size);
        release(l.size());
        System.realloc(p, l, new_size)
    }
}

/// What a metered section asked the allocator for.
#[derive(Clone, Debug, Default)]
pub struct Stats {
    pub count: u64,
    pub total: u64,
    pub max: u64,
    /// largest number of bytes requested and not yet released at one time (lower bound)
    pub peak: u64,
    /// sizes of the requests ≥ `LOG_MIN` bytes, in order (at most `LOG_CAP`)
    pub log: Vec<u64>,
    pub log_overflow: bool,
}

/// Start metering the current thread (resets the counters). `shared` is kept alive by the caller.
pub fn start(shared: &Arc<Shared>) {
    ST.with(|s| {
        s.count.set(0);
        s.total.set(0);
        s.max.set(0);
        s.live.set(0);
        s.peak.set(0);
        s.log_len.set(0);
        s.log_overflow.set(false);
        s.shared.set(Arc::as_ptr(shared));
        s.on.set(true);
    });
}

/// Run `f` with metering suspended on this thread (the harness's own rendering of a result must
/// not be charged to the code under test).
pub fn unmetered<T>(f: impl FnOnce() -> T) -> T {
    let was = ST.with(|s| s.on.replace(false));
    let r = f();
    ST.with(|s| s.on.set(was));
    r
}

/// Stop metering the current thread and return what was recorded since `start`/`lap`.
pub fn stop() -> Stats {
    ST.with(|s| {
        s.on.set(false);
        let n = s.log_len.get();
        let log = unsafe { (&(*s.log.get()))[..n].to_vec() };
        Stats { count: s.count.get(), total: s.total.get(), max: s.max.get(), peak: s.peak.get(), log, log_overflow: s.log_overflow.get() }
    })
}

/// Return the statistics so far and continue metering with fresh counters (the runaway totals are
/// per lap: a lap is one phase of a case).
pub fn lap() -> Stats {
    ST.with(|s| {
        let shared = s.shared.get();
        let st = stop();
        s.count.set(0);
        s.total.set(0);
        s.max.set(0);
        s.peak.set(s.live.get());
        s.log_len.set(0);
        s.log_overflow.set(false);
        s.shared.set(shared);
        s.on.set(true);
        st
    })
}
