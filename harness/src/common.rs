//! Shared plumbing of the correspondence harness: PRNG, model-driver process, case runner,
//! report. Every engine describes a case as ONE self-contained text line (the line-protocol
//! request), so that generation, execution, comparison with the Lean model, replay and corpus are
//! generic.

use std::collections::{BTreeMap, HashSet};
use std::hash::{Hash, Hasher};
use std::io::{BufRead, BufReader, Write};
use std::process::{Child, ChildStdin, ChildStdout, Command, Stdio};
use std::sync::{Arc, Mutex};

#[derive(Clone, Copy, PartialEq, Eq, Debug)]
pub enum Tier {
    Quick,
    Thorough,
}

/// splitmix64 — every random choice of a run derives from `VERIF_SEED`.
#[derive(Clone)]
pub struct Rng(pub u64);
impl Rng {
    pub fn new(seed: u64) -> Rng {
        Rng(seed ^ 0x9E37_79B9_7F4A_7C15)
    }
    pub fn next(&mut self) -> u64 {
        self.0 = self.0.wrapping_add(0x9E37_79B9_7F4A_7C15);
        let mut z = self.0;
        z = (z ^ (z >> 30)).wrapping_mul(0xBF58_476D_1CE4_E5B9);
        z = (z ^ (z >> 27)).wrapping_mul(0x94D0_49BB_1331_11EB);
        z ^ (z >> 31)
    }
    /// uniform in `0..n` (n > 0)
    pub fn below(&mut self, n: u64) -> u64 {
        self.next() % n
    }
    pub fn range(&mut self, lo: u64, hi_incl: u64) -> u64 {
        lo + self.below(hi_incl - lo + 1)
    }
    pub fn chance(&mut self, num: u64, den: u64) -> bool {
        self.below(den) < num
    }
    pub fn pick<'a, T>(&mut self, xs: &'a [T]) -> &'a T {
        &xs[self.below(xs.len() as u64) as usize]
    }
    pub fn fork(&mut self) -> Rng {
        Rng(self.next())
    }
}

pub fn hex(bytes: &[u8]) -> String {
    if bytes.is_empty() {
        return "-".to_string();
    }
    let mut s = String::with_capacity(bytes.len() * 2);
    for b in bytes {
        s.push_str(&format!("{:02x}", b));
    }
    s
}
pub fn unhex(s: &str) -> Option<Vec<u8>> {
    if s == "-" {
        return Some(vec![]);
    }
    if s.len() % 2 != 0 {
        return None;
    }
    (0..s.len() / 2)
        .map(|i| u8::from_str_radix(s.get(2 * i..2 * i + 2)?, 16).ok())
        .collect()
}

pub fn fnv64(bytes: &[u8]) -> u64 {
    let mut h: u64 = 0xcbf29ce484222325;
    for b in bytes {
        h ^= *b as u64;
        h = h.wrapping_mul(0x100000001b3);
    }
    h
}

/// One running instance of the compiled Lean model (`mdmodel`).
pub struct Model {
    child: Child,
    stdin: ChildStdin,
    stdout: BufReader<ChildStdout>,
}
impl Model {
    /// `path == "-"`: no model available (its build is broken) — only the oracle runs.
    pub fn spawn_opt(path: &str) -> Option<Model> {
        if path == "-" {
            None
        } else {
            Some(Model::spawn(path))
        }
    }
    pub fn spawn(path: &str) -> Model {
        let mut child = Command::new(path)
            .stdin(Stdio::piped())
            .stdout(Stdio::piped())
            .spawn()
            .unwrap_or_else(|e| panic!("cannot start model driver {path}: {e}"));
        let stdin = child.stdin.take().unwrap();
        let stdout = BufReader::new(child.stdout.take().unwrap());
        Model { child, stdin, stdout }
    }
    pub fn ask(&mut self, line: &str) -> String {
        debug_assert!(!line.contains('\n'));
        // debugging aid: VERIF_DUMP_REQ=<file> appends every model request (one per line)
        if let Ok(p) = std::env::var("VERIF_DUMP_REQ") {
            if let Ok(mut f) = std::fs::OpenOptions::new().create(true).append(true).open(p) {
                let _ = writeln!(f, "{line}");
            }
        }
        if self.stdin.write_all(line.as_bytes()).is_err()
            || self.stdin.write_all(b"\n").is_err()
            || self.stdin.flush().is_err()
        {
            return "MODEL-DIED".to_string();
        }
        let mut out = String::new();
        match self.stdout.read_line(&mut out) {
            Ok(0) | Err(_) => "MODEL-DIED".to_string(),
            Ok(_) => out.trim_end_matches(['\n', '\r']).to_string(),
        }
    }
}
impl Drop for Model {
    fn drop(&mut self) {
        let _ = self.child.kill();
        let _ = self.child.wait();
    }
}

thread_local! {
    static LAST_PANIC_LOC: std::cell::RefCell<Option<String>> = const { std::cell::RefCell::new(None) };
    /// depth of `catch` on this thread: a panic outside any `catch` is a defect of the harness itself
    static IN_CATCH: std::cell::Cell<u32> = const { std::cell::Cell::new(0) };
}

/// Run a closure, turning a panic into `Err(message)`.
pub fn catch<T>(f: impl FnOnce() -> T) -> Result<T, String> {
    IN_CATCH.with(|c| c.set(c.get() + 1));
    let r = std::panic::catch_unwind(std::panic::AssertUnwindSafe(f));
    IN_CATCH.with(|c| c.set(c.get().saturating_sub(1)));
    match r {
        Ok(v) => Ok(v),
        Err(e) => {
            let msg = if let Some(s) = e.downcast_ref::<&str>() {
                s.to_string()
            } else if let Some(s) = e.downcast_ref::<String>() {
                s.clone()
            } else {
                "panic".to_string()
            };
            // the quiet hook remembers where the panic was raised (file:line), which makes replays readable
            let loc = LAST_PANIC_LOC.with(|l| l.borrow_mut().take());
            Err(match loc {
                Some(l) => format!("{msg} [at {l}]"),
                None => msg,
            })
        }
    }
}

/// Panics of the code under test (inside `catch`) are data and stay quiet; a panic anywhere else is a
/// failure of the harness and is written to stderr so that `./check` can show it.
pub fn quiet_panics() {
    std::panic::set_hook(Box::new(|info| {
        let loc = info.location().map(|l| format!("{}:{}", l.file(), l.line()));
        let inside = IN_CATCH.try_with(|c| c.get() > 0).unwrap_or(false);
        if !inside {
            let msg = info
                .payload()
                .downcast_ref::<&str>()
                .map(|s| s.to_string())
                .or_else(|| info.payload().downcast_ref::<String>().cloned())
                .unwrap_or_else(|| "panic".into());
            eprintln!("mdharness: internal panic: {msg} [at {}]", loc.clone().unwrap_or_default());
        }
        let _ = LAST_PANIC_LOC.try_with(|c| *c.borrow_mut() = loc);
    }));
}

/// What the implementation did on one case.
#[derive(Default, Clone)]
pub struct ImplResult {
    /// canonical answer, compared verbatim with the model's answer
    pub out: String,
    /// failures of the property's own oracle evaluated on the implementation's output:
    /// (class, detail). `class` is what `known_findings.json` matches on.
    pub oracle: Vec<(String, String)>,
    /// counted for `distinct_nontrivial` (engine specific rule)
    pub nontrivial: bool,
    /// distribution tags (branches hit, error kinds, sizes …)
    pub tags: Vec<String>,
}

pub trait Engine: Sync {
    fn name(&self) -> &'static str;
    /// how cases are generated and what makes one non-trivial
    fn rule(&self) -> String;
    /// emit the case lines of this run (corpus cases are prepended by the framework)
    fn generate(&self, tier: Tier, rng: &mut Rng, emit: &mut dyn FnMut(String));
    /// run the real code on one case
    fn exec(&self, case: &str) -> ImplResult;
    /// the request sent to the Lean model for this case (`None`: oracle-only case)
    fn model_request(&self, case: &str) -> Option<String> {
        Some(case.to_string())
    }
    /// do the implementation's and the model's answers agree? (default: verbatim equality)
    fn same(&self, impl_out: &str, model_out: &str) -> bool {
        impl_out == model_out
    }
    /// description of the part of the space that is enumerated completely, if any
    fn exhaustive_part(&self) -> Option<String> {
        None
    }
    /// A case that takes longer than this is reported as a `hang` (the properties say "always
    /// terminates"); engines with legitimately slow cases override it.
    fn case_timeout_secs(&self) -> u64 {
        60
    }
    /// Try to make a failing case smaller; `still_fails` re-runs a candidate.
    fn shrink(&self, case: &str, _still_fails: &dyn Fn(&str) -> bool) -> String {
        case.to_string()
    }
}

#[derive(Clone, Debug)]
pub struct Failure {
    pub kind: &'static str, // "impl-vs-oracle" | "impl-vs-model"
    pub class: String,
    pub case: String,
    pub impl_out: String,
    pub model_out: String,
    pub detail: String,
}

#[derive(Default)]
pub struct Report {
    pub evaluations: u64,
    pub distinct: HashSet<u64>,
    pub distinct_nontrivial: HashSet<u64>,
    pub model_compared: u64,
    pub samples: Vec<String>,
    pub dist: BTreeMap<String, u64>,
    pub failures: Vec<Failure>,
    pub failure_count: u64,
}

/// coarse shape of a case line (engine + operation): failures are capped per class AND shape so
/// that a frequent shape cannot crowd out another one of the same class
fn shape(case: &str) -> String {
    case.split(' ').filter(|s| !s.is_empty()).take(2).collect::<Vec<_>>().join(" ")
}

fn hash_str(s: &str) -> u64 {
    let mut h = std::collections::hash_map::DefaultHasher::new();
    s.hash(&mut h);
    h.finish()
}

impl Report {
    fn merge(&mut self, o: Report) {
        self.evaluations += o.evaluations;
        self.distinct.extend(o.distinct);
        self.distinct_nontrivial.extend(o.distinct_nontrivial);
        self.model_compared += o.model_compared;
        for s in o.samples {
            if self.samples.len() < 6 {
                self.samples.push(s);
            }
        }
        for (k, v) in o.dist {
            *self.dist.entry(k).or_default() += v;
        }
        self.failure_count += o.failure_count;
        for f in o.failures {
            // keep at most 3 per (kind, class, case shape = first two fields of the case line)
            let n = self
                .failures
                .iter()
                .filter(|g| g.kind == f.kind && g.class == f.class && shape(&g.case) == shape(&f.case))
                .count();
            if n < 3 {
                self.failures.push(f);
            }
        }
    }
}

pub struct Cfg {
    pub tier: Tier,
    pub seed: u64,
    pub model_path: String,
    pub out: Option<String>,
    pub replay: Option<String>,
    pub corpus: Option<String>,
    pub threads: usize,
}

fn run_one(engine: &dyn Engine, model: &mut Option<Model>, case: &str, rep: &mut Report) {
    let r = engine.exec(case);
    rep.evaluations += 1;
    let h = hash_str(case);
    rep.distinct.insert(h);
    if r.nontrivial {
        rep.distinct_nontrivial.insert(h);
    }
    for t in &r.tags {
        *rep.dist.entry(t.clone()).or_default() += 1;
    }
    if rep.samples.len() < 3 && r.nontrivial {
        let mut s = format!("{} => {}", case, r.out);
        if s.len() > 600 {
            s.truncate(600);
            s.push('…');
        }
        rep.samples.push(s);
    }
    for (class, detail) in &r.oracle {
        rep.failure_count += 1;
        rep.failures.push(Failure {
            kind: "impl-vs-oracle",
            class: class.clone(),
            case: case.to_string(),
            impl_out: r.out.clone(),
            model_out: String::new(),
            detail: detail.clone(),
        });
    }
    if let (Some(req), Some(model)) = (engine.model_request(case), model.as_mut()) {
        let m = model.ask(&req);
        rep.model_compared += 1;
        if !engine.same(&r.out, &m) {
            rep.failure_count += 1;
            rep.failures.push(Failure {
                kind: "impl-vs-model",
                class: "model-diff".to_string(),
                case: case.to_string(),
                impl_out: r.out.clone(),
                model_out: m,
                detail: String::new(),
            });
        }
    }
    // bound memory: keep only a few failures per class inside a worker
    if rep.failures.len() > 64 {
        let mut kept: Vec<Failure> = Vec::new();
        for f in rep.failures.drain(..) {
            if kept
                .iter()
                .filter(|g| g.kind == f.kind && g.class == f.class && shape(&g.case) == shape(&f.case))
                .count()
                < 3
            {
                kept.push(f);
            }
        }
        rep.failures = kept;
    }
}

/// Run an engine: corpus first, then generated cases, on `cfg.threads` workers, each with its own
/// model process. Returns the merged report.
pub fn run_engine(engine: &'static dyn Engine, cfg: &Cfg) -> Report {
    let mut cases: Vec<String> = Vec::new();
    if let Some(file) = &cfg.replay {
        let text = std::fs::read_to_string(file).expect("replay file");
        // a replay file is JSON with a "case" member, or a plain case line
        if let Ok(v) = serde_json::from_str::<serde_json::Value>(&text) {
            if let Some(c) = v.get("case").and_then(|c| c.as_str()) {
                cases.push(c.to_string());
            }
        }
        if cases.is_empty() {
            cases.extend(text.lines().filter(|l| !l.trim().is_empty()).map(|l| l.to_string()));
        }
    } else {
        if let Some(dir) = &cfg.corpus {
            if let Ok(rd) = std::fs::read_dir(dir) {
                let mut files: Vec<_> = rd.filter_map(|e| e.ok()).map(|e| e.path()).collect();
                files.sort();
                for f in files {
                    if let Ok(text) = std::fs::read_to_string(&f) {
                        for l in text.lines() {
                            let l = l.trim();
                            if !l.is_empty() && !l.starts_with('#') {
                                cases.push(l.to_string());
                            }
                        }
                    }
                }
            }
        }
        let mut rng = Rng::new(cfg.seed);
        engine.generate(cfg.tier, &mut rng, &mut |c| cases.push(c));
    }
    let n = cases.len();
    let cases = Arc::new(cases);
    // Workers are plain (non-scoped) threads watched by this thread: a case that does not return
    // within `case_timeout_secs` is reported as an oracle failure of class `hang`, its worker is
    // abandoned (it cannot be killed; the process exits at the end of the run) and replaced.
    struct Shared {
        cases: Arc<Vec<String>>,
        next: Mutex<usize>,
        total: Mutex<Report>,
        /// per worker slot: (case index, start) of the case in flight
        inflight: Mutex<Vec<Option<(usize, std::time::Instant)>>>,
        finished: Mutex<Vec<bool>>,
        /// a worker that panicked outside the code under test (model driver cannot be started, ...)
        died: Mutex<Option<String>>,
    }
    let threads = cfg.threads.max(1).min(n.max(1));
    let max_workers = threads + 8; // up to 8 abandoned workers are replaced
    let shared = Arc::new(Shared {
        cases: cases.clone(),
        next: Mutex::new(0),
        total: Mutex::new(Report::default()),
        inflight: Mutex::new(vec![None; max_workers]),
        finished: Mutex::new(vec![false; max_workers]),
        died: Mutex::new(None),
    });
    let spawn_worker = |slot: usize| {
        let shared = shared.clone();
        let model_path = cfg.model_path.clone();
        std::thread::spawn(move || {
          let shared2 = shared.clone();
          let body = std::panic::catch_unwind(std::panic::AssertUnwindSafe(move || {
            let mut model = Model::spawn_opt(&model_path);
            let n = shared.cases.len();
            loop {
                let (lo, hi) = {
                    let mut g = shared.next.lock().unwrap();
                    let lo = *g;
                    let hi = (lo + 16).min(n);
                    *g = hi;
                    (lo, hi)
                };
                if lo >= n {
                    break;
                }
                let mut rep = Report::default();
                for i in lo..hi {
                    shared.inflight.lock().unwrap()[slot] = Some((i, std::time::Instant::now()));
                    run_one(engine, &mut model, &shared.cases[i], &mut rep);
                    shared.inflight.lock().unwrap()[slot] = None;
                }
                shared.total.lock().unwrap().merge(rep);
            }
            shared.finished.lock().unwrap()[slot] = true;
          }));
          if body.is_err() {
              if let Ok(mut d) = shared2.died.lock() {
                  d.get_or_insert_with(|| format!("worker {slot} panicked outside the code under test"));
              }
          }
        });
    };
    for slot in 0..threads {
        spawn_worker(slot);
    }
    let mut spawned = threads;
    let mut abandoned: Vec<bool> = vec![false; max_workers];
    let timeout = std::time::Duration::from_secs(engine.case_timeout_secs());
    let mut hangs: Vec<Failure> = Vec::new();
    loop {
        std::thread::sleep(std::time::Duration::from_millis(50));
        let stuck: Vec<(usize, usize)> = {
            let inflight = shared.inflight.lock().unwrap();
            (0..spawned)
                .filter(|&w| !abandoned[w])
                .filter_map(|w| match inflight[w] {
                    Some((i, t0)) if t0.elapsed() > timeout => Some((w, i)),
                    _ => None,
                })
                .collect()
        };
        for (w, i) in stuck {
            abandoned[w] = true;
            hangs.push(Failure {
                kind: "impl-vs-oracle",
                class: "hang".to_string(),
                case: cases[i].clone(),
                impl_out: "HANG".to_string(),
                model_out: String::new(),
                detail: format!("the case did not return within {} s (worker abandoned)", timeout.as_secs()),
            });
            if spawned < max_workers {
                spawn_worker(spawned);
                spawned += 1;
            }
        }
        if let Some(msg) = shared.died.lock().ok().and_then(|d| d.clone()) {
            // no report is written: `./check` runs the engine once more and reports a crash that reproduces
            eprintln!("mdharness: {msg}; giving up without a report");
            std::process::exit(5);
        }
        let finished = shared.finished.lock().unwrap();
        let live = (0..spawned).filter(|&w| !abandoned[w]).count();
        let done = (0..spawned).filter(|&w| !abandoned[w] && finished[w]).count();
        if done == live {
            break; // every non-abandoned worker ran out of cases (or none is left)
        }
    }
    let mut rep = std::mem::take(&mut *shared.total.lock().unwrap());
    let hang_count = hangs.len() as u64;
    rep.failure_count += hang_count;
    rep.evaluations += hang_count;
    for h in hangs {
        if rep.failures.iter().filter(|g| g.class == "hang").count() < 3 {
            rep.failures.push(h);
        }
    }
    if hang_count > 0 {
        // do not re-execute anything in this thread (shrinking could hang it too)
        return rep;
    }
    // shrink the kept failures (sequentially, with a fresh model)
    if !rep.failures.is_empty() {
        let model = Mutex::new(Model::spawn_opt(&cfg.model_path));
        for f in rep.failures.iter_mut() {
            let kind = f.kind;
            let class = f.class.clone();
            let still = |c: &str| -> bool {
                let r = engine.exec(c);
                if kind == "impl-vs-oracle" {
                    r.oracle.iter().any(|(cl, _)| *cl == class)
                } else {
                    match (engine.model_request(c), model.lock().unwrap().as_mut()) {
                        (Some(req), Some(m)) => !engine.same(&r.out, &m.ask(&req)),
                        _ => false,
                    }
                }
            };
            let small = engine.shrink(&f.case, &still);
            if small != f.case && still(&small) {
                let r = engine.exec(&small);
                f.impl_out = r.out.clone();
                if kind == "impl-vs-model" {
                    if let (Some(req), Some(m)) = (engine.model_request(&small), model.lock().unwrap().as_mut()) {
                        f.model_out = m.ask(&req);
                    }
                } else if let Some((_, d)) = r.oracle.iter().find(|(cl, _)| *cl == class) {
                    f.detail = d.clone();
                }
                f.case = small;
            }
        }
    }
    rep
}

pub fn report_json(engine: &dyn Engine, cfg: &Cfg, rep: &Report, wall_s: f64) -> serde_json::Value {
    let trunc = |s: &str| -> String {
        if s.len() > 4000 {
            format!("{}…[{} bytes]", &s[..4000], s.len())
        } else {
            s.to_string()
        }
    };
    serde_json::json!({
        "engine": engine.name(),
        "tier": if cfg.tier == Tier::Quick { "quick" } else { "thorough" },
        "seed": cfg.seed,
        "evaluations": rep.evaluations,
        "distinct": rep.distinct.len(),
        "distinct_nontrivial": rep.distinct_nontrivial.len(),
        "model_compared": rep.model_compared,
        "rule": engine.rule(),
        "exhaustive_part": engine.exhaustive_part(),
        "samples": rep.samples,
        "distribution": rep.dist,
        "failure_count": rep.failure_count,
        "failures": rep.failures.iter().map(|f| serde_json::json!({
            "kind": f.kind, "class": f.class, "case": f.case,
            "impl": trunc(&f.impl_out), "model": trunc(&f.model_out), "detail": trunc(&f.detail),
        })).collect::<Vec<_>>(),
        "wall_s": wall_s,
    })
}
