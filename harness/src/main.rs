//! mdharness — correspondence harness between rust-minidump (linked from /repo's working tree)
//! and the compiled Lean model.
//!
//! usage: mdharness <engine> [--tier quick|thorough] [--seed N] --model <mdmodel> [--out report.json]
//!                  [--corpus dir] [--replay file] [--threads N]
mod allocmeter;
mod common;
mod engines;

// C01: counting allocator; inert (one thread-local read per allocation) unless an engine meters a thread
#[global_allocator]
static GLOBAL: allocmeter::Meter = allocmeter::Meter;

use common::*;

fn main() {
    let args: Vec<String> = std::env::args().collect();
    if args.len() < 2 {
        eprintln!("usage: mdharness <engine> [options]");
        std::process::exit(2);
    }
    let mut cfg = Cfg {
        tier: Tier::Quick,
        seed: 1,
        model_path: "/verif/lean/.lake/build/bin/mdmodel".into(),
        out: None,
        replay: None,
        corpus: None,
        threads: std::thread::available_parallelism().map(|n| n.get()).unwrap_or(4),
    };
    let mut i = 2;
    while i < args.len() {
        let val = args.get(i + 1).cloned().unwrap_or_default();
        match args[i].as_str() {
            "--tier" => cfg.tier = if val == "thorough" { Tier::Thorough } else { Tier::Quick },
            "--seed" => cfg.seed = val.parse().unwrap_or(1),
            "--model" => cfg.model_path = val,
            "--out" => cfg.out = Some(val),
            "--replay" => cfg.replay = Some(val),
            "--corpus" => cfg.corpus = Some(val),
            "--threads" => cfg.threads = val.parse().unwrap_or(4),
            other => {
                eprintln!("unknown option {other}");
                std::process::exit(2);
            }
        }
        i += 2;
    }
    let Some(engine) = engines::by_name(&args[1]) else {
        eprintln!("unknown engine {}", args[1]);
        std::process::exit(2);
    };
    quiet_panics();
    let t0 = std::time::Instant::now();
    let rep = run_engine(engine.as_ref(), &cfg);
    let wall = t0.elapsed().as_secs_f64();
    let json = report_json(engine.as_ref(), &cfg, &rep, wall);
    let text = serde_json::to_string_pretty(&json).unwrap();
    match &cfg.out {
        Some(p) => std::fs::write(p, &text).expect("write report"),
        None => println!("{text}"),
    }
    eprintln!(
        "[{}] cases={} distinct_nontrivial={} model_compared={} failures={} wall={:.1}s",
        engine.name(),
        rep.evaluations,
        rep.distinct_nontrivial.len(),
        rep.model_compared,
        rep.failure_count,
        wall
    );
    std::process::exit(if rep.failure_count == 0 { 0 } else { 1 });
}
